#!/bin/bash
# bring the lab copy of /verif to /verif's HEAD
cd /tmp/lab/verif && git checkout -q -- . && git checkout -q --detach $(git -C /verif rev-parse HEAD) && sed -i 's#path = "/repo"#path = "/tmp/lab/repo"#' harness/Cargo.toml && git log --oneline | head -1
