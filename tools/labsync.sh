#!/bin/bash
# tools/labsync.sh : create (if missing) and bring up to date a scratch copy of the checks that works on a
# scratch worktree of /repo, so that seeded changes never have to be applied to /repo itself:
#   /tmp/lab/repo   git worktree of /repo (detached, at /repo's HEAD when created)
#   /tmp/lab/verif  git worktree of /verif at /verif's HEAD, harness/Cargo.toml pointing at /tmp/lab/repo
# Remove both (git worktree remove --force) together with /tmp/lab when done. Not used by any registered check.
set -e
mkdir -p /tmp/lab
[ -d /tmp/lab/repo ] || git -C /repo worktree add -q --detach /tmp/lab/repo HEAD
[ -d /tmp/lab/verif ] || git -C /verif worktree add -q --detach /tmp/lab/verif HEAD
cd /tmp/lab/verif && git checkout -q -- . && git checkout -q --detach $(git -C /verif rev-parse HEAD) && sed -i 's#path = "/repo"#path = "/tmp/lab/repo"#' harness/Cargo.toml && git log --oneline | head -1
