#!/usr/bin/env python3
"""Generate /verif/MANIFEST.json from the table below (single source of truth for the interface)."""
import json, os, subprocess, sys

HERE = os.path.dirname(os.path.abspath(__file__))
ROOT = os.path.dirname(HERE)

BASELINE_OFF = (
    "cd /repo && (cargo nextest run --workspace --no-fail-fast --tool-config-file "
    "pb:/w/lib/nextest.toml --profile pb --test-threads 8 --offline || "
    "cargo test --workspace --no-fail-fast --offline)"
)

# id -> (claimed, level, technique, text, note, design_ref)
P = {}

def prop(pid, level, technique, text, note, claimed=True, reason=None):
    P[pid] = dict(claimed=claimed, level=level, technique=technique, text=text, note=note, reason=reason)

prop("C01", "model_checking",
     "exhaustive enumeration of all ordered pairs of reachable replica states x initiator x backend x reconciliation parameters, each session executed on the real code and compared with the reference join",
     "Every ordered pair of replica states reachable from small subsets of the entry universe is reconciled by the real Replica::sync_* functions (memory and file-backed redb, every parameter setting) and must terminate, converge to the reference join, mirror counters, report in its outcome exactly the entries and per-author newest timestamps the messages carried, be followed by an empty second session, and — after replica A's document is removed and created again in the same store — be restored by one more session initiated by either side; a further family runs the pairs on replicas held open by store actors across both sessions.",
     "Bounded: subsets of <=2 (quick) / <=3 (thorough) entries plus a large-state family; blake3/XOR fingerprint collisions and values outside the alphabet are not covered.")
prop("C02", "model_checking",
     "exhaustive enumeration of all operation sequences up to a depth over a small entry alphabet on the real replica, compared step by step with a reference model and with the from-scratch definition",
     "All sequences (hence all permutations and duplications) of <=3 (quick) / <=4 (thorough) entries through remote insert, local insert and prefix delete on a real replica; return values, full dumps, both index paths and point lookups must equal the reference antichain model and spec(set(sequence)); a life-cycle family adds {remove and re-create the document, ask every question in the middle of the history} to a small alphabet; a further family runs all sequences of <=2 writes of an author whose id ends in 0xFF next to raw entries of byte-neighbouring author ids, which must stay untouched.",
     "Bounded depth and alphabet (keys '', a, a\\xff, ab, b, \\xff, \\xff\\xff; 3 timestamps; live/other-hash/tombstone); entries differing only in len are outside the alphabet.")
prop("C08", "model_checking",
     "differential exhaustive enumeration: every pair of reachable states x parameter setting reconciled on in-memory redb, file-backed redb and an ordered-map reference backend driven by the crate's own algorithm (byte-identical transcripts), plus every range of an identifier lattice against the set-theoretic definitions of the storage primitives",
     "Relational check on the real code: the same sessions on three backends must produce byte-identical serialized protocol messages and final sets; every storage primitive of StoreInstance is compared with its ordered-map definition on every reachable state and every (x,y) of a 24-point lattice including wrap-around and x=y, and with the empty set's after the document was removed and created again.",
     "Bounded states (<=3 offered entries, plus a 7..9-entry family); ranges inside the document's namespace; the reference backend is the definition (ascending identifier order), as in the crate's own test stand-in.")
prop("C09", "exploration",
     "exhaustive enumeration: every frame of real session transcripts under every two-way (and small three-way) chunking and every truncation; every decoder on all byte strings up to 2/3 bytes and on every single-byte replacement of valid encodings, decoded values exercised on the real code; pinned encodings against an independent hand-written layout encoder",
     "All distinct session transcripts between small reachable states are encoded with the crate's codec and decoded under every split point, truncation and oversized length prefix, including encoding several frames into one buffer, the decoder's end-of-stream entry point on every truncation, and a differential against frame-by-frame decoding of the declared frames for every altered length prefix and payload byte; frame, entry, message, heads, ticket, capability, filter, policy decoders and the hex text form of the secret-key, public-key and id types are fed every short byte string and every single-byte corruption of valid encodings under catch_unwind, and whatever decodes is pushed through accessors, signature verification and a real replica; signed-entry, author and namespace encodings are pinned.",
     "'Arbitrary bytes' is replaced by its exhaustive small-scope counterpart; quick tier uses a 4-value subset beyond the first 48 bytes of each encoding.")
prop("C10", "fault_enumeration",
     "exhaustive enumeration of peer scripts (every sequence of <=4 (quick) / <=5 (thorough) steps over a menu of correct and hostile frames) against the real acceptor and the real initiator over in-memory streams, plus every placement of one local fault (close / disable sync / actor shutdown) or one stream cut inside a frame before each protocol step of real-vs-real sessions, plus the exported transport entry points over loopback QUIC under every accept answer x local fault and against scripted hostile peers",
     "BobState::run and run_alice are driven over duplex streams by a scripted peer that owns a real replica (so 'correct next frame' is always available) and deviates at every step in every way of the menu; a frame relay injects one local fault before every incoming frame on either side. Both ends must return within the deadline without panic, into_outcome() must be callable after every outcome, a declined request leaves the store unchanged, and counters mirror on success. The relay also ends a stream in the middle of every frame (the cut side must fail). The scripted initiator can also send an Init whose message already carries a signed entry (a declined request must not store it). Family D runs the exported connect_and_sync against handle_connection over real QUIC on loopback for every accept answer x every local fault before the session; family E faces each of them with a scripted hostile QUIC peer (connection closed before / after opening the stream, abrupt close after a correct frame, garbage frame, correct request and nothing more, unknown document / Abort).",
     "In-memory duplex transport for families A-C, loopback QUIC (two real endpoints per scenario) for D and E; deadlines only as hang detectors with a 10x re-run.")
prop("C11", "model_checking",
     "explicit-state breadth-first search over the real coordination handlers of two LiveActors (dial decisions, request delivery/loss, accept/decline, independent completion of both session ends, captured resync dials), canonical state from the implementation's coordination snapshot plus in-flight dials, invariants S1-S5 on every state",
     "Two real LiveActors (never run) are driven through sync_with_peer, accept_sync_request and the two completion handlers with synthetic session results; every interleaving of up to 3 (quick) / 4 (thorough) dials is explored; at most one session in progress, crossing dials resolve to exactly one accepted, a refused sync report yields exactly one follow-up at the end of the running session, every quiescent state is Idle on both nodes, unsynced documents are declined NotFound; the search is repeated with one node leaving the document, with a content download of the document queued at both nodes, and with triggers and requests delivered as actor messages (neighbour up, a neighbour's sync report carrying news, accept request with its reply channel) through on_actor_message, and with the application calling the real start_sync again for the document while dials are in flight; short histories are explored as a plain tree before state merging starts.",
     "Network abstracted to deliver/lose and independent completions; besides the coordination state the handlers read only whether a download of the document is queued (explored both ways) and the subscriber list (empty).")
prop("C12", "model_checking",
     "exhaustive enumeration of all request sequences up to a depth (local/remote writes, messages of a reconciliation session with a real peer, subscriber churn, policy changes) through the real store actor, every subscriber's drained event list compared with the reference model after every acknowledged request",
     "All sequences of <=4 (quick) / <=5 (thorough) requests over a 17-symbol alphabet through SyncHandle with up to 3 subscribers; per subscriber exactly one event per applied entry, in application order, carrying the entry, origin, peer, content status (the peer and our node answer differently about the same content, through real content-status callbacks; our replies must carry our node's answer) and the policy's download flag; nothing for rejected/superseded entries; unsubscribing or dropping one subscriber leaves the others unaffected; a subscriber that does not read for 2.5 s (thorough 12 s) while entries are written still gets every event and stays subscribed.",
     "Bounded depth; events compared after the acknowledging reply.")
prop("C13", "model_checking",
     "exhaustive enumeration of all operation sequences up to a depth (inserts of a two-author universe, document removal and re-creation) on the real store against reference heads, plus exhaustive enumeration of small author-head sets x all size limits for the codec",
     "Heads and has_news_for_us are compared with the reference replica after every history of <=3 (quick) / <=4 (thorough) steps (inserts, removal and re-creation, and the question itself as an event) for all 25 peer reports; AuthorHeads::encode/decode is checked on all 4166 head sets of <=4 authors over 7 varint-edge timestamps (ties included) under every size limit; the head set as a data structure (insert keeps the maximum, merge, has_news_for) on every sequence of <=4 inserts and every split; a neighbour's sync report delivered to a real idle LiveActor leads to a dial exactly when it is news for the document as held.",
     "Bounded depth/alphabet; limit 0 excluded (unsatisfiable); any key attaining the maximum is accepted as the head's key.")
prop("C03", "exploration",
     "exhaustive enumeration of a single-fault tamper alphabet (every byte position x 4 alterations, signature substitutions, foreign keys, boundary timestamps, emptiness combinations) x both ingress paths x every position of hand-assembled reconciliation messages, against an independent acceptance predicate",
     "Every candidate of the tamper alphabet is presented to the real replica as a remote insert and inside crafted reconciliation messages; acceptance must equal an independent predicate (own canonical encoder, library signature check, namespace, future bound, emptiness), every candidate is also presented to a replica that already holds the untampered original; rejected candidates must leave records, both index paths, heads and content hashes identical and produce no event while the rest of the message is applied.",
     "ed25519 is trusted; single-fault candidates only; messages of 1..3 parts with 1..2 entries per part.")
prop("C04", "model_checking",
     "explicit-state breadth-first search over N real replicas (local writes with skewed clocks, arbitrary deliveries of written entries, reconciliation sessions cut after k messages, restarts from disk), canonical state = written set + every replica's dump, with a closing phase over every spanning tree and the complete graph on every distinct state",
     "For N = 2..3 (quick) and 2..5 (thorough) replicas every history up to the depth bound is executed on real stores; after every event each replica holds only written entries and only moves upward in the merge order; from every distinct state, complete sessions along every spanning tree (and the complete graph) converge within N passes to the merge of all accepted local writes on every replica; family H runs every history of <=3 (thorough 4) writes and complete sessions (plus the two-write histories one step deeper) on three replicas held open by store actors for the whole history, closing along four topologies.",
     "Gossip abstracted as unreliable broadcast; small op alphabet (ins a, ins ab, ins '', del a) x 3 timestamps; replicas 0 and 2 share an author.")
prop("C05", "exploration",
     "exhaustive product of all small reachable replica states (incl. stale by-key index rows) x the full query parameter product, each result compared with a list-comprehension oracle over the reference dump",
     "8640 queries (kind x author filter x key filter x direction x include-empty x offset x limit) plus all point lookups on every state reachable from <=3 (quick) / <=4 (thorough) offered entries of a two-author universe with empty, prefix-related and 0xFF-edged keys; plus one state with an author whose id ends in 0xFF next to raw entries of byte-neighbouring author ids, queried with the product for author filter {any, that author}.",
     "States with at most 4 offered entries; ties for the greatest timestamp in latest-per-key accept any tied entry.")
prop("C06", "fault_enumeration",
     "exhaustive fault enumeration on the real write path: every operation history up to a depth x every placement of <=2 'transaction is old' answers among the numbered store access points x a crash image at every access point and after every operation, each distinct image reopened and compared with the reference states",
     "For every history of <=4 (quick) / <=5 (thorough) operations on a real file-backed store, every placement of up to two age-based commits between the internal store calls is forced through the access-point hook and the database file is copied at every access point; every distinct image must reopen to a state the store passed through between two complete operations and not older than the last acknowledged flush, with records, by-key index, heads, lookups, namespaces and authors mutually consistent; a second alphabet covers peers, policies, removal and re-creation, a third one registrations into a useful-peer cache that is already full (insert + evict in one operation).",
     "Crash = process kill (file image as the OS holds it); power loss / torn sectors / crashes inside redb's commit are redb's contract.")
prop("C07", "model_checking",
     "explicit-state breadth-first search (canonical state taken from the implementation, de-duplicated) over capability imports, opens, closes, write attempts, secret export and store reopen on the real Store and on the real store actor, against a max-capability reference model",
     "Every (state, event) edge of the capability state machine for two documents up to depth 7/6 (quick) and 10/9 (thorough) is executed on a file-backed Store and through SyncHandle; (the direct search includes taking a handle with open_replica and keeping the document marked open while capabilities are imported and further handles write); listed kinds, export_secret_key, write outcomes, the capability a new handle comes with and both documents' entries must equal the model after every event; importing for one document must not change the other; the same state machine through the docs API of a real Engine (histories of <=4, thorough 5, events); histories of up to 3 (thorough 4) events are explored as a plain tree before state merging starts.",
     "Two documents, one local and one remote key per document.")
prop("C14", "model_checking",
     "explicit-state breadth-first search over the request alphabet of the store actor for two documents, every history executed sequentially and pipelined on the real SyncHandle/actor thread, every reply compared with a handle-counting reference model, shutdown store compared with the model",
     "Every (state, request) edge up to depth 4 (quick) / 6 (thorough) over 40 requests (including setting a policy / registering a peer, which fail inside the store on a missing document and must change nothing); replies, get_state, and the store returned by shutdown (documents, entries, policies, peers) must equal the model; the transaction kind of the actor's store is part of the canonical state; pipelined enqueueing must give the same replies as awaiting each one (request order); family S queues a second client's stop request at every position among <=2 (thorough 3) pipelined requests (every request answered, the ones behind the stop with an error, the returned store = the state before the stop); family A stalls the actor, queues 1-2 (thorough 3) requests whose futures are dropped at once and then observes (replies and returned store reflect the abandoned requests).",
     "Client concurrency is reduced to enqueue orders (single consumer, FIFO queue); drop_replica modelled as the API defines it.")
prop("C15", "exploration",
     "exhaustive enumeration of all small policies x all small keys against the two-line definition, all small filters through their textual form, and set/get persistence incl. file reopen",
     "7814 policies (both kinds, <=2 exact/prefix filters over bytes {a,b,':',0xff,0x00}, length <=2) x 156 keys for matches; every filter Display->FromStr; set/get on existing and missing documents in memory and through reopen; should_download of real remote-insert events for all policies with <=1 filter x all keys; every history of <=3 (thorough 4) policy changes over 6 policies x 2 documents incl. a return to the default, a missing document and reopen; the same histories through the store actor with both documents kept open and subscribed, a fresh entry after every step on both ingress paths carrying the download flag of the policy in force.",
     "Alphabet-bounded filters and keys.")
prop("C16", "model_checking",
     "explicit-state breadth-first search over writes, prefix deletion, peers, policies, open/close, removal and re-creation on a store holding five documents (three with byte-neighbouring ids), from the empty and from a populated state, with a per-document reference and a before/after differential for all other documents",
     "Every event sequence up to depth 3/4 (quick) and 5 (thorough) over 41 events; after each event every document's entries (both index paths), heads, peers, policy and listing must equal its reference, every other document must be byte-identical to before, removal is refused iff open, and content_hashes() equals the hashes of all held entries; a real Engine with a GC protect handler is asked for the live set after every step of three scripts (0..140 / 600 writes, prefix deletions, duplicate contents, removals) and must hand the collector exactly the hashes held, and must stop the collector rather than hand it a smaller set once the docs engine is shut down.",
     "Neighbour-id documents are populated below the validation layer (no key pair exists for chosen ids).")
prop("C17", "model_checking",
     "exhaustive enumeration of all registration sequences up to a depth plus every (state, event) edge of the complete 3620-state MRU graph on the real store, against a Vec MRU of capacity 5, incl. reopen of a file-backed store at every prefix",
     "All sequences of <=6 (quick) / <=7 (thorough) registrations over 7 peers, all 25k edges of the full state graph from canonically built states, two full documents plus an unknown document, file reopen at every prefix, and every sequence of <=5 (thorough 6) steps over {register, create, remove} on a document that exists and one that does not (a registration fails exactly while the document does not exist and leaves nothing behind).",
     "Strictly increasing nanosecond clock (hook); equal nanos are outside the statement.")
prop("C18", "exploration",
     "exhaustive enumeration of small record-table contents x {delete heads table, delete by-key table, both, neither} x 1..3 reopen cycles on real database files, against the specification of the derived tables",
     "Stores built from every subset of <=4 (quick) / <=5 (thorough) of a 16-entry universe, offered in universe order and in reverse order; after deleting derived tables with plain redb and reopening, heads must be the per-author maximum over the records and key-ordered queries must equal the query oracle; without deletion reopening changes nothing observable.",
     "Whole-table deletion only (what an older version's database looks like).")

ORDER = ["C%02d" % i for i in range(1, 19)]


# additions of the session that built the real-node, docs-API and large-size families (appended to the texts above)
EXTRA = {
 "C01": "Big sets: four shapes of 300 (thorough 1100) entries per side, both initiators (thorough also split factor 4, file-backed, actor-held).",
 "C02": "One insert superseding 1100 entries (36 shapes: key, value kind, timestamp tie or newer, ingress path) followed by a late child that must stay out.",
 "C03": "The tamper alphabet also holds entries naming a foreign / unknown document but namespace-signed with our secret. Family G: a real node (Docs engine, gossip receive loop, store actor) is sent the candidates by a hostile gossip neighbour (an endpoint of the harness joined to the topic), each followed by a valid probe entry; replica content, continued reception and the docs-API subscriber's events are checked after every candidate. One message layout per candidate is also handed to the store actor (SyncHandle::sync_process_message). One family runs on the machine's own clock (no clock hook): the ten-minute bound five seconds either side, and the stamp of a local write.",
 "C04": "Family L: swarms of 2 and 3 real nodes in one process (Docs engine with live actor and gossip receive loop behind a Router on loopback QUIC); every history of writes, prefix deletions, join, leave and waiting points up to the depth bound, clocks increasing and stepping back; the closing phase asks the engines for sessions and counts only those the engines report as successful; then all nodes hold the merge of the accepted writes and nothing else. The network schedule inside a history is the real one (one execution per history). The last node of a swarm has a file-backed docs store and can be shut down and started again from its directory inside a history; a bystander document that all nodes sync must be unchanged after every history.",
 "C05": "Windows at the ends of the number range (offset / limit 2^64-1); one big state (225 entries) under windows around 64, 150, 225 and 256. Family api: the big state and a sample of the small states are written and queried through the docs API of a real Engine (Doc::get_many / get_exact). The big state is also read by a slow reader (a pause of 1.5 s, thorough 7 s, after three entries).",
 "C06": "Family D: after 1100 durable entries below one prefix, histories of operations that supersede all of them. Family E: histories of writes, flush_store requests and 150 ms pauses through the store actor of a file-backed store; the file copied right after every acknowledged flush, and after shutdown, holds exactly the acknowledged writes. One scenario kills a whole node (Docs engine with a file-backed store) right after its first start and starts it again from the directory as it was.",
 "C07": "The actor family also has drop_replica (removal restarts the capability history of the document). A store file of the redb 2.x format holding a document's write capability lists it as writable after it is opened (converted).",
 "C09": "Author-heads reports of up to 3 authors with tied timestamps survive encode-decode. Keys of 63..20000 bytes: the entry, every message of a real session carrying it and their frames survive encode-then-decode, whole and cut.",
 "C10": "Big sets (450 entries per side) over in-memory pipes smaller than one frame and over QUIC, fault-free and with faults; a hostile initiator that completes the exchange and then sends one byte too many (the acceptor's closing step fails): the reported error must still name peer and document. Family F: the store actor is made to wait, a stop request is queued, the session's first store request queues up behind it, the actor is released: initiator and acceptor must return. Sessions whose single frame exceeds two megabytes (pushed and pulled); a fault-free session between the two real loops must succeed. Declined requests between real nodes (the decliner does not sync the document, holds an entry of it, or dropped it and called start_sync through a surviving handle): entries, useful peers and policy of the decliner's document are unchanged.",
 "C11": "An accepted session may also end with AcceptError::Close; the search that delivers actor messages also delivers NeighborDown (nothing about the pair may change). Family L (real nodes): in every node's own record the sessions with one peer never overlap, and after all traffic has ended a node that is asked for a session every 250 ms reports at least one finished or failed session. Declined requests between real nodes: a node that does not sync a document (three variants, see C10) must not let a peer's request end as a successful session.",
 "C12": "Sequences that start with the document held read-only and import the write capability while it is open and subscribed. Family L (real nodes): a subscriber of the docs API on every node sees exactly its node's accepted local writes in order, every remote entry at most once, one for every remote entry the node holds at the end, and nothing nobody wrote. A subscriber of a second document of node 0 lives through all histories of a worker: after every history (which drops its own document) a write to the second document still reaches it.",
 "C13": "Reports also name an author never seen whose id sorts before, between or after the known authors. (e) Five complete sessions between the real initiator loop and the real acceptor loop (one with 450 entries per side whose time order is the reverse of key order): the head each side reports as received lies between the newest entry that entered from the peer and the peer's newest.",
 "C14": "The alphabet holds a read-only import for the second document (so that the write import is an upgrade of an open, subscribed document); one history takes 300 handles on a document and releases them one by one. Open with a subscriber whose receiver is gone (document 0) is in the alphabet; family A also abandons the upgrade of an open read-only document and then writes.",
 "C15": "Family L (real nodes): the last node of the swarm is given one of five policies; of the contents written elsewhere it fetches exactly those whose key the policy selects (selected and still held: present within the deadline; not selected: absent). A store file of the redb 2.x format holding a policy returns it unchanged after it is opened (converted).",
 "C16": "Removal and re-creation of a 1102-entry document (13 authors, among them the all-zero and the all-0xFF id) between its byte-order neighbours. The collector also asks while the store actor is blocked for 6.5 s (thorough 22 s) by a slow subscriber: whenever the callback says continue, every held hash is protected.",
 "C17": "Family M: store files written with redb 3 in the redb 2.x tuple format (as older releases wrote them) with 0, 1, 3 and 5 registered peers are opened (and thereby converted): the list is the one that was stored. Family R runs on the machine's own clock (no hook) with a file-backed store reopened at every prefix: the store opened again is younger than the registrations it finds.",
 "C18": "A database of 2100 authors with two entries each goes through the same table deletions and reopen cycles. Two further variants give the file the shape of the oldest versions (documents listed in table namespaces-1, the current table and both derived tables absent). A store file of the redb 2.x format (written with redb 3 and the legacy tuple types) is opened twice: records, heads and key-ordered listing are what was stored, and the second open changes nothing.",
}
for _pid, _t in EXTRA.items():
    P[_pid]["text"] = P[_pid]["text"].rstrip() + " " + _t

def main():
    checks = []
    na = []
    for pid in ORDER:
        if pid not in P or not P[pid]["claimed"]:
            reason = (P.get(pid) or {}).get("reason") or "check not yet built in this commit (planned in DESIGN.md section 4); nothing is claimed for it"
            na.append({"property_id": pid, "reason": reason})
            continue
        p = P[pid]
        checks.append({
            "property_id": pid,
            "quick_cmd": f"./check {pid} --tier quick",
            "thorough_cmd": f"./check {pid} --tier thorough",
            "evidence_file": f"/verif/evidence/{pid}.json",
            "replay_cmd_template": f"./check {pid} --replay {{path}}",
            "engine": "vp",
            "level_claimed": {"category": p["level"], "text": p["text"], "design_ref": f"DESIGN.md section 4 {pid}"},
            "level_note": p["note"],
            "technique": p["technique"],
        })
    hooks_commits = subprocess.run(
        ["git", "-C", "/repo", "log", "--format=%H", "--grep=^verif hooks"],
        capture_output=True, text=True).stdout.split()
    m = {
        "version": 1,
        "setup_cmd": "cd /verif/harness && CARGO_NET_OFFLINE=true cargo build --offline",
        "hooks": {
            "guard": "cargo feature `verif-hooks` of iroh-docs (off by default)",
            "enable": "the harness crate /verif/harness depends on /repo by path with features=[\"verif-hooks\"]; ./check rebuilds it (and therefore /repo's current working tree) before every run",
            "baseline_off_cmd": BASELINE_OFF,
            "source_commits": hooks_commits,
            "add_only": True,
        },
        "engines": [{
            "name": "vp",
            "path": "/verif/harness",
            "serves_properties": [c["property_id"] for c in checks],
            "kind_free_text": "bounded exhaustive (stateless / explicit-state) exploration of the real iroh-docs code under a controlled environment (clock, commit timer, peer, network, crash), against Rust reference models; one worker process per shard",
        }],
        "checks": checks,
        "not_applicable": na,
        "notes": "Exit codes of ./check: 0 = property held on everything explored (known findings are printed as KNOWN-FINDING lines), 1 = unlisted violation (VIOLATION line with replay file), 2 = machinery error (never a verdict). known_findings.json lists findings and fixed defects.",
    }
    with open(os.path.join(ROOT, "MANIFEST.json"), "w") as f:
        json.dump(m, f, indent=1)
        f.write("\n")

if __name__ == "__main__":
    main()
