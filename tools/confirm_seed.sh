#!/bin/bash
# tools/confirm_seed.sh <scratch-worktree> <seed-dir>
# Confirms a delivered seed in a scratch worktree of /repo (never in /repo itself):
#   1. demo passes on the unchanged tree, 2. demo fails with patch.diff, 3. the repository's suite passes with patch.diff.
# Prints one line: CONFIRMED / NOT-CONFIRMED with the three results. Leaves the worktree clean.
set -u
WT="$1"; SD="$(readlink -f "$2")"
cd "$WT" || exit 2
export CARGO_NET_OFFLINE=true
clean() { git checkout -q -- . ; git clean -fdq tests src; }
clean
git apply "$SD/demo.diff" || { echo "NOT-CONFIRMED demo.diff does not apply"; exit 1; }
tests=$(git status --porcelain | grep -oE 'tests/[a-zA-Z0-9_]+\.rs' | sed 's#tests/##; s#\.rs##' | sort -u)
if [ -z "$tests" ]; then targs="--lib seed"; else targs=""; for t in $tests; do targs="$targs --test $t"; done; fi
run_demo() { cargo test --offline --features verif-hooks $targs > "$1" 2>&1; echo $?; }
r1=$(run_demo /tmp/confirm_demo_clean.log)
git apply "$SD/patch.diff" || { echo "NOT-CONFIRMED patch.diff does not apply"; clean; exit 1; }
r2=$(run_demo /tmp/confirm_demo_patched.log)
# suite with the patch only
git checkout -q -- tests 2>/dev/null; git clean -fdq tests
git apply -R "$SD/demo.diff" 2>/dev/null
# (tests/sync.rs has tests that time out on a loaded machine, on the unchanged tree too: a red run is repeated up to twice)
for attempt in 1 2 3; do
  cargo nextest run --workspace --no-fail-fast --tool-config-file pb:/w/lib/nextest.toml --profile pb --test-threads 8 --offline > /tmp/confirm_suite.log 2>&1
  r3=$?
  [ "$r3" = 0 ] && break
done
summary=$(grep -E "Summary" /tmp/confirm_suite.log | tail -1)
clean
if [ "$r1" = 0 ] && [ "$r2" != 0 ] && [ "$r3" = 0 ]; then echo "CONFIRMED demo_clean=pass demo_patched=fail suite_patched=pass :: $summary"; else echo "NOT-CONFIRMED demo_clean_rc=$r1 demo_patched_rc=$r2 suite_rc=$r3 :: $summary"; fi
