#!/usr/bin/env python3
"""tools/regress_seeds.py [tier] [id-prefix ...]
Regression over the stored seeded changes: applies every seeded/<id>/patch.diff to /repo's working
tree in turn, runs the checks listed in its meta.json (`checks_run_against_it`), reverts, and
records which of them exit 1 as `detected_by_<tier>` in seeded/REGRESSION.json. Exits 1 if a seed
is no longer detected by any check. Never commits anything in /repo.
"""
import json, glob, os, subprocess, sys, time
tier = sys.argv[1] if len(sys.argv) > 1 else "quick"
prefixes = sys.argv[2:]
root = os.path.dirname(os.path.dirname(os.path.abspath(__file__)))
REPO = os.environ.get("VERIF_REPO", "/repo")  # a scratch checkout may be used instead of /repo itself
os.chdir(root)
out_path = os.path.join(root, "seeded", "REGRESSION.json")
results = json.load(open(out_path)) if os.path.exists(out_path) else {}
if subprocess.run(["git", "-C", REPO, "diff", "--quiet"]).returncode != 0:
    sys.exit("refusing: /repo has uncommitted changes")
lost = []
for meta_path in sorted(glob.glob("seeded/*/meta.json")):
    sid = os.path.basename(os.path.dirname(meta_path))
    if prefixes and not any(sid.startswith(p) for p in prefixes):
        continue
    meta = json.load(open(meta_path))
    checks = meta.get("checks_run_against_it") or [meta["property"]]
    patch = os.path.join(root, "seeded", sid, "patch.diff")
    if subprocess.run(["git", "-C", REPO, "apply", "--check", patch]).returncode != 0:
        print(f"{sid}: patch does not apply", flush=True)
        results[sid] = {"error": "patch does not apply"}
        lost.append(sid)
        continue
    subprocess.run(["git", "-C", REPO, "apply", patch], check=True)
    detected, rows = [], {}
    try:
        for c in checks:
            t0 = time.time()
            p = subprocess.run(["./check", c, "--tier", tier], capture_output=True, text=True)
            rows[c] = {"exit": p.returncode, "seconds": round(time.time() - t0, 1)}
            if p.returncode == 1 and "VIOLATION property=" in p.stdout:
                detected.append(c)
    finally:
        subprocess.run(["git", "-C", REPO, "checkout", "--", "."], check=True)
    results[sid] = {"property": meta["property"], f"detected_by_{tier}": detected, "runs": rows}
    print(f"{sid}: detected by {detected} of {checks} {rows}", flush=True)
    if not detected:
        lost.append(sid)
    json.dump(results, open(out_path, "w"), indent=1, sort_keys=True)
print("NOT DETECTED:", lost if lost else "none")
sys.exit(1 if lost else 0)
