#!/bin/bash
# tools/run_seed.sh <patch.diff> <tier> <Cxx> [Cyy ...]
# Applies a seeded change to /repo's working tree, runs the given checks, reverts the tree.
# Prints one line per check: "<id> exit=<code> <summary line>". Never commits anything in /repo.
set -u
PATCH="$(readlink -f "$1")"; TIER="$2"; shift 2
cd /verif
if ! git -C /repo diff --quiet; then echo "refusing: /repo has uncommitted changes" >&2; exit 2; fi
if ! git -C /repo apply --check "$PATCH" 2>/dev/null; then echo "patch does not apply: $PATCH" >&2; exit 2; fi
git -C /repo apply "$PATCH"
trap 'git -C /repo checkout -- . ; git -C /repo clean -fdq src tests 2>/dev/null' EXIT
for id in "$@"; do
  out=$(./check "$id" --tier "$TIER" 2>&1); code=$?
  nviol=$(echo "$out" | grep -c '^VIOLATION')
  first=$(echo "$out" | grep -A1 -m1 '^VIOLATION' | tail -1 | cut -c1-260)
  echo "$id exit=$code violations_lines=$nviol :: $(echo "$out" | tail -1 | cut -c1-160)"
  [ -n "$first" ] && echo "    first: $first"
done
