#!/bin/bash
# /tmp/labrun.sh <seed-id> <check> [<check>...] : runs the checks of the lab copy of /verif against the lab copy of /repo with the seed applied
S=$1; shift
P=/verif/seeded/$S/patch.diff
cd /tmp/lab/repo && git checkout -q -- . && git clean -fdq src tests
git apply "$P" || { echo "$S patch does not apply"; exit 2; }
trap 'cd /tmp/lab/repo && git checkout -q -- . && git clean -fdq src tests' EXIT
for id in "$@"; do
  out=$(cd /tmp/lab/verif && VERIF_DIR=/tmp/lab/verif ./check "$id" --tier quick 2>&1); code=$?
  first=$(echo "$out" | grep -A1 -m1 '^VIOLATION' | tail -1 | cut -c1-300)
  echo "$S $id lab exit=$code nviol=$(echo "$out" | grep -c '^VIOLATION') :: $(echo "$out" | grep -E 'quick:' | tail -1 | cut -c1-120)"
  [ -n "$first" ] && echo "    first: $first"
done
