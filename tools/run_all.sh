#!/bin/bash
# tools/run_all.sh <tier> [Cxx ...]   runs the checks one after the other, one summary line each
TIER="$1"; shift
cd /verif
[ $# -eq 0 ] && set -- C01 C02 C03 C04 C05 C06 C07 C08 C09 C10 C11 C12 C13 C14 C15 C16 C17 C18
mkdir -p /tmp/vplogs
for c in "$@"; do s=$(date +%s); ./check $c --tier $TIER > /tmp/vplogs/${TIER}_$c.log 2>&1; rc=$?; e=$(date +%s)
  echo "$c rc=$rc $((e-s))s $(grep -E "$TIER:" /tmp/vplogs/${TIER}_$c.log | tail -1 | cut -c1-170) $(grep -c '^KNOWN-FINDING' /tmp/vplogs/${TIER}_$c.log)kf"; done
