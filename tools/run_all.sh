#!/bin/bash
# tools/run_all.sh <tier> [Cxx ...]   runs the checks one after the other, one summary line each.
# Works from any checkout of /verif (evidence and replays go into that checkout).
TIER="$1"; shift
ROOT="$(cd "$(dirname "$0")/.." && pwd)"
cd "$ROOT"
export VERIF_DIR="$ROOT"
[ $# -eq 0 ] && set -- C01 C02 C03 C04 C05 C06 C07 C08 C09 C10 C11 C12 C13 C14 C15 C16 C17 C18
LOGS="${VPLOGS:-/tmp/vplogs}"; mkdir -p "$LOGS"
for c in "$@"; do s=$(date +%s); ./check $c --tier $TIER > "$LOGS/${TIER}_$c.log" 2>&1; rc=$?; e=$(date +%s)
  echo "$c rc=$rc $((e-s))s $(grep -E "$TIER:" "$LOGS/${TIER}_$c.log" | tail -1 | cut -c1-170) $(grep -c '^KNOWN-FINDING' "$LOGS/${TIER}_$c.log")kf"; done
