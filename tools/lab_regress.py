#!/usr/bin/env python3
import json,glob,os,subprocess,sys,time
LAB='/tmp/lab'
out={}
seeds=sorted(glob.glob('/verif/seeded/*/meta.json'))
seeds=[m for m in seeds if not os.path.basename(os.path.dirname(m)).startswith(('R8','R9','R10'))]
for mp in seeds:
    sid=os.path.basename(os.path.dirname(mp)); m=json.load(open(mp))
    cands=[m['property']]+[c for c in m.get('checks_run_against_it',[]) if c!=m['property']]
    patch=f'/verif/seeded/{sid}/patch.diff'
    subprocess.run(['git','-C',LAB+'/repo','checkout','-q','--','.']); subprocess.run(['git','-C',LAB+'/repo','clean','-fdq','src','tests'])
    if subprocess.run(['git','-C',LAB+'/repo','apply',patch]).returncode!=0:
        out[sid]={'error':'patch does not apply'}; print(sid,'patch does not apply',flush=True); continue
    det=None; rows={}
    for c in cands:
        t0=time.time()
        p=subprocess.run(['./check',c,'--tier','quick'],cwd=LAB+'/verif',capture_output=True,text=True,env=dict(os.environ,VERIF_DIR=LAB+'/verif'))
        rows[c]={'exit':p.returncode,'seconds':round(time.time()-t0,1)}
        if p.returncode==1 and 'VIOLATION property=' in p.stdout:
            det=c; break
    out[sid]={'property':m['property'],'detected_by':det,'runs':rows}
    print(sid,'detected by',det,rows,flush=True)
    json.dump(out,open('/tmp/lab_regression.json','w'),indent=1,sort_keys=True)
subprocess.run(['git','-C',LAB+'/repo','checkout','-q','--','.'])
print('REGRESSION-DONE', [s for s,v in out.items() if not v.get('detected_by')])
