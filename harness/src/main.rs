//! vp — bounded exhaustive exploration of iroh-docs against reference models.
//!
//! vp run <Cxx> --tier quick|thorough [--shards N]     (parent: fans out into worker processes)
//! vp worker <Cxx> --tier T --shard i --of n --out F   (one shard, JSON report to F)
//! vp replay <Cxx> <file>                              (re-execute one recorded case twice)

mod explore;
mod mirror;
mod props;
mod refmodel;
mod report;
mod sut;
mod universe;
mod util;

use std::{
    path::{Path, PathBuf},
    process::{Command, Stdio},
    time::Instant,
};

use report::{evidence_json, EvidenceMeta, KnownFindings, Report};
use serde_json::{json, Value};

#[derive(Debug, Clone)]
pub struct Ctx {
    pub tier: Tier,
    pub shard: u64,
    pub of: u64,
    pub seed: i64,
}

#[derive(Debug, Clone, Copy, PartialEq, Eq)]
pub enum Tier {
    Quick,
    Thorough,
}

impl Tier {
    fn name(self) -> &'static str {
        match self {
            Tier::Quick => "quick",
            Tier::Thorough => "thorough",
        }
    }
}

impl Ctx {
    /// Does this worker own the case with the given ordinal?
    pub fn mine(&self, ordinal: u64) -> bool {
        // fail-fast after violations (see util::watch): the remaining cases are skipped
        ordinal % self.of == self.shard && !util::watch::stopped()
    }
    pub fn quick(&self) -> bool {
        self.tier == Tier::Quick
    }
}

pub struct PropDef {
    pub id: &'static str,
    pub level: &'static str,
    pub rule: &'static str,
    pub assumptions: &'static [&'static str],
    pub bound: fn(Tier) -> Value,
    pub run: fn(&Ctx, &mut Report),
    /// Re-execute one recorded case; returns a rendering of what was observed and whether the
    /// oracle failed again.
    pub replay: fn(&Value) -> anyhow::Result<(bool, String)>,
    /// Number of worker processes (0 = default 16).
    pub shards: fn(Tier) -> u64,
}

fn verif_dir() -> PathBuf {
    std::env::var_os("VERIF_DIR")
        .map(PathBuf::from)
        .unwrap_or_else(|| PathBuf::from("/verif"))
}

fn arg_value(args: &[String], name: &str) -> Option<String> {
    args.iter()
        .position(|a| a == name)
        .and_then(|i| args.get(i + 1).cloned())
}

fn parse_tier(args: &[String]) -> Tier {
    let t = arg_value(args, "--tier")
        .or_else(|| std::env::var("VERIF_TIER").ok())
        .unwrap_or_else(|| "quick".into());
    match t.as_str() {
        "thorough" => Tier::Thorough,
        _ => Tier::Quick,
    }
}

fn main() {
    let args: Vec<String> = std::env::args().collect();
    if args.len() < 3 {
        eprintln!("usage: vp run|worker|replay <Cxx> ...");
        std::process::exit(2);
    }
    let cmd = args[1].as_str();
    let id = args[2].to_uppercase();
    let Some(prop) = props::all().into_iter().find(|p| p.id == id) else {
        eprintln!("unknown property {id}");
        std::process::exit(2);
    };
    let seed: i64 = std::env::var("VERIF_SEED")
        .ok()
        .and_then(|s| s.parse().ok())
        .unwrap_or(0);
    match cmd {
        "worker" => {
            let tier = parse_tier(&args);
            let shard: u64 = arg_value(&args, "--shard").unwrap().parse().unwrap();
            let of: u64 = arg_value(&args, "--of").unwrap().parse().unwrap();
            let out = arg_value(&args, "--out").unwrap();
            let ctx = Ctx {
                tier,
                shard,
                of,
                seed,
            };
            util::limit_memory();
            let fail_fast_after = match tier {
                Tier::Quick => 60,
                Tier::Thorough => 1800,
            };
            if let Ok(k) = KnownFindings::load(&verif_dir().join("known_findings.json")) {
                util::watch::set_known(prop.id, k);
            }
            util::watch::start(util::watch::Mode::Worker(std::path::PathBuf::from(&out), fail_fast_after));
            let mut report = Report::default();
            // a panic escaping a property's own per-case catch_unwind is a machinery error
            let res = std::panic::catch_unwind(std::panic::AssertUnwindSafe(|| {
                (prop.run)(&ctx, &mut report)
            }));
            if let Err(p) = res {
                report.machinery_error(format!(
                    "worker {shard}/{of} panicked outside a case: {}",
                    util::panic_message(&p)
                ));
            }
            if util::watch::stopped() {
                report.cap_hit(format!("fail-fast: violations were found and the budget of {fail_fast_after} s per worker was used up; the remaining cases were skipped (this run is a counterexample, not a coverage statement)"));
            }
            std::fs::write(&out, serde_json::to_vec(&report).unwrap()).unwrap();
            // do not run destructors of leaked actors etc.
            std::process::exit(0);
        }
        "run" => {
            let tier = parse_tier(&args);
            std::process::exit(run_parent(&prop, tier, seed, &args));
        }
        "replay" => {
            let file = args.get(3).expect("replay file");
            let s = std::fs::read_to_string(file).expect("read replay");
            let v: Value = serde_json::from_str(&s).expect("parse replay");
            let case = v.get("case").cloned().unwrap_or(v.clone());
            util::watch::start(util::watch::Mode::Replay { prop: prop.id.to_string(), file: file.clone() });
            let r1 = (prop.replay)(&case);
            let r2 = (prop.replay)(&case);
            match (r1, r2) {
                (Ok((f1, s1)), Ok((f2, s2))) => {
                    println!("{s1}");
                    if f1 != f2 || s1 != s2 {
                        eprintln!("MACHINERY: replay diverged between two executions");
                        std::process::exit(2);
                    }
                    if f1 {
                        println!("VIOLATION property={} replay={}", prop.id, file);
                        std::process::exit(1);
                    }
                    println!("replay: oracle holds on this case");
                    std::process::exit(0);
                }
                (a, b) => {
                    eprintln!("MACHINERY: replay error: {:?} {:?}", a.err(), b.err());
                    std::process::exit(2);
                }
            }
        }
        _ => {
            eprintln!("unknown command {cmd}");
            std::process::exit(2);
        }
    }
}

fn run_parent(prop: &PropDef, tier: Tier, seed: i64, args: &[String]) -> i32 {
    let start = Instant::now();
    let vdir = verif_dir();
    let nshards: u64 = arg_value(args, "--shards")
        .and_then(|s| s.parse().ok())
        .unwrap_or_else(|| match (prop.shards)(tier) {
            0 => 16,
            n => n,
        });
    let exe = std::env::current_exe().expect("current exe");
    let tmp = tempfile::Builder::new()
        .prefix("vp-run-")
        .tempdir()
        .expect("tempdir");
    let mut children = vec![];
    for shard in 0..nshards {
        let out = tmp.path().join(format!("shard-{shard}.json"));
        let log = tmp.path().join(format!("shard-{shard}.log"));
        let logf = std::fs::File::create(&log).unwrap();
        let child = Command::new(&exe)
            .args([
                "worker",
                prop.id,
                "--tier",
                tier.name(),
                "--shard",
                &shard.to_string(),
                "--of",
                &nshards.to_string(),
                "--out",
                out.to_str().unwrap(),
            ])
            .env("VERIF_SEED", seed.to_string())
            .env("RUST_BACKTRACE", "0")
            .stdin(Stdio::null())
            .stdout(Stdio::from(logf.try_clone().unwrap()))
            .stderr(Stdio::from(logf))
            .spawn()
            .expect("spawn worker");
        children.push((shard, child, out, log));
    }
    let mut merged = Report::default();
    // safety net (never a verdict): end the run if the machine runs out of memory or the tier's
    // wall-clock cap is exceeded
    let wall_cap = std::time::Duration::from_secs(match tier {
        Tier::Quick => 30 * 60,
        Tier::Thorough => 10 * 3600,
    });
    loop {
        let mut running = 0;
        for (_, child, _, _) in children.iter_mut() {
            if matches!(child.try_wait(), Ok(None)) {
                running += 1;
            }
        }
        if running == 0 {
            break;
        }
        let avail_kb: u64 = std::fs::read_to_string("/proc/meminfo")
            .ok()
            .and_then(|s| {
                s.lines()
                    .find(|l| l.starts_with("MemAvailable:"))
                    .and_then(|l| l.split_whitespace().nth(1).and_then(|x| x.parse().ok()))
            })
            .unwrap_or(u64::MAX);
        let out_of_memory = avail_kb < 3 * 1024 * 1024;
        let out_of_time = start.elapsed() > wall_cap;
        if out_of_memory || out_of_time {
            for (_, child, _, _) in children.iter_mut() {
                let _ = child.kill();
            }
            merged.machinery_error(if out_of_memory {
                "run stopped: less than 3 GiB of memory available on the machine".to_string()
            } else {
                format!("run stopped: wall-clock cap of {} s for this tier exceeded", wall_cap.as_secs())
            });
            break;
        }
        std::thread::sleep(std::time::Duration::from_millis(200));
    }
    for (shard, mut child, out, log) in children {
        let status = child.wait().expect("wait worker");
        match std::fs::read(&out)
            .ok()
            .and_then(|b| serde_json::from_slice::<Report>(&b).ok())
        {
            Some(r) => merged.merge(r),
            None => {
                let tail = std::fs::read_to_string(&log).unwrap_or_default();
                let tail: String = tail
                    .lines()
                    .rev()
                    .take(15)
                    .collect::<Vec<_>>()
                    .into_iter()
                    .rev()
                    .collect::<Vec<_>>()
                    .join("\n");
                merged.machinery_error(format!(
                    "worker {shard} produced no report (status {status:?}); log tail:\n{tail}"
                ));
            }
        }
    }
    let wall = start.elapsed().as_secs_f64();
    if merged.samples.is_empty() && merged.machinery_errors.is_empty() {
        merged.machinery_error("no sample case was recorded by any worker");
    }
    if merged.states == 0 {
        // sequence/pair explorers: a "state" is a distinct observed outcome (final observable
        // state + return values), de-duplicated across all workers
        merged.states = merged.outcomes.len() as u64;
    }

    // classify violations
    let known = match KnownFindings::load(&vdir.join("known_findings.json")) {
        Ok(k) => k,
        Err(e) => {
            merged.machinery_error(format!("known_findings.json unreadable: {e}"));
            KnownFindings::default()
        }
    };
    let replay_dir = vdir.join("replays").join(prop.id);
    let _ = std::fs::remove_dir_all(&replay_dir);
    let mut known_lines: Vec<String> = vec![];
    let mut unlisted = vec![];
    let mut violations = merged.violations.clone();
    violations.sort_by_key(|v| v.ordinal);
    for v in &violations {
        match known.matching(prop.id, v) {
            Some(f) => {
                let line = format!("KNOWN-FINDING: property={} {}", prop.id, f.what);
                if !known_lines.contains(&line) {
                    known_lines.push(line);
                }
            }
            None => unlisted.push(v.clone()),
        }
    }
    for l in &known_lines {
        println!("{l}");
    }
    let mut exit = 0;
    if !unlisted.is_empty() {
        std::fs::create_dir_all(&replay_dir).ok();
        for (i, v) in unlisted.iter().enumerate() {
            let path = replay_dir.join(format!("{i}.json"));
            let body = json!({
                "property": prop.id,
                "oracle": v.oracle,
                "witness": v.witness,
                "case": v.case,
                "detail": v.detail,
            });
            std::fs::write(&path, serde_json::to_vec_pretty(&body).unwrap()).ok();
            println!("VIOLATION property={} replay={}", prop.id, path.display());
            eprintln!(
                "  oracle={} witness={} :: {}",
                v.oracle,
                v.witness,
                v.detail.lines().next().unwrap_or("")
            );
        }
        exit = 1;
    }
    if !merged.machinery_errors.is_empty() {
        for e in &merged.machinery_errors {
            eprintln!("MACHINERY: {e}");
        }
        if exit == 0 {
            exit = 2;
        }
    }
    for c in &merged.caps_hit {
        eprintln!("CAP: {c}");
    }

    let meta = EvidenceMeta {
        property: prop.id,
        tier: tier.name(),
        seed,
        level: prop.level,
        rule: prop.rule,
        bound: (prop.bound)(tier),
        assumptions: prop.assumptions,
        wall_s: wall,
        unlisted_violations: unlisted.len() as u64,
        known_findings: known_lines.clone(),
    };
    let ev = evidence_json(&merged, &meta);
    let evdir = vdir.join("evidence");
    std::fs::create_dir_all(&evdir).ok();
    write_atomic(
        &evdir.join(format!("{}.json", prop.id)),
        &serde_json::to_vec_pretty(&ev).unwrap(),
    );
    println!(
        "{} {}: evaluations={} nontrivial={} states={} transitions={} traces={} outcomes={} violations={} (unlisted {}) wall={:.1}s",
        prop.id,
        tier.name(),
        merged.evaluations,
        merged.nontrivial,
        merged.states,
        merged.transitions,
        merged.traces,
        merged.outcomes.len(),
        merged.violation_count,
        unlisted.len(),
        wall
    );
    exit
}

fn write_atomic(path: &Path, bytes: &[u8]) {
    let tmp = path.with_extension("json.tmp");
    std::fs::write(&tmp, bytes).expect("write evidence");
    std::fs::rename(&tmp, path).expect("rename evidence");
}
