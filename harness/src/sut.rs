//! Thin wrappers around the real store / replica (the system under test).

use std::{cell::RefCell, future::Future, path::Path};

use iroh_docs::{
    store::{Query, Store},
    sync::{InsertError, SignedEntry, SyncOutcome},
    Author, AuthorId, Capability, ContentStatus, NamespaceId, ProtocolMessage,
};

use crate::universe::{ns_secret, Val};

/// Minimal thread-parking executor for futures that need no tokio context (replica futures,
/// channel sends, oneshot replies). Used when already inside a tokio runtime.
pub fn block_on_park<F: Future>(f: F) -> F::Output {
    use std::{
        sync::{
            atomic::{AtomicU32, Ordering},
            Arc,
        },
        task::{Context, Poll, Wake, Waker},
        time::{Duration, Instant},
    };
    struct Parker(std::thread::Thread);
    impl Wake for Parker {
        fn wake(self: Arc<Self>) {
            self.0.unpark();
        }
    }
    // Hang detector: every future driven here is a request to a store actor (or a handler that
    // awaits one) and normally completes in microseconds. If the actor thread died (a panic of
    // the system under test), a request that was already queued is never answered. The case is
    // then failed by a panic of the harness thread, which the per-case catch turns into a
    // violation. After a few such timeouts the deadline is shortened so that a broken tree
    // cannot stall the run.
    static TIMEOUTS: AtomicU32 = AtomicU32::new(0);
    // (60 s: on a machine loaded far beyond its cores a healthy actor was once seen to take more
    // than 10 s to answer, which made the detector itself raise an alarm in a thorough run)
    let deadline = if TIMEOUTS.load(Ordering::Relaxed) >= 3 {
        Duration::from_secs(5)
    } else {
        Duration::from_secs(60)
    };
    let start = Instant::now();
    let waker = Waker::from(Arc::new(Parker(std::thread::current())));
    let mut cx = Context::from_waker(&waker);
    let mut f = std::pin::pin!(f);
    loop {
        match f.as_mut().poll(&mut cx) {
            Poll::Ready(v) => return v,
            Poll::Pending => {
                if start.elapsed() > deadline {
                    TIMEOUTS.fetch_add(1, Ordering::Relaxed);
                    panic!("no reply from the store actor within {deadline:?} (actor thread dead after a panic, or deadlocked)");
                }
                std::thread::park_timeout(Duration::from_millis(50))
            }
        }
    }
}

pub fn block_on<F: Future>(f: F) -> F::Output {
    if tokio::runtime::Handle::try_current().is_ok() {
        return block_on_park(f);
    }
    thread_local! {
        static RT: RefCell<Option<tokio::runtime::Runtime>> = const { RefCell::new(None) };
    }
    RT.with(|rt| {
        let mut rt = rt.borrow_mut();
        if rt.is_none() {
            *rt = Some(
                tokio::runtime::Builder::new_current_thread()
                    .enable_all()
                    .build()
                    .expect("runtime"),
            );
        }
        // hang detector, see block_on_park
        rt.as_ref().unwrap().block_on(async {
            match tokio::time::timeout(std::time::Duration::from_secs(180), f).await {
                Ok(v) => v,
                Err(_) => panic!("future did not complete within 180 s (store actor dead after a panic, or deadlocked)"),
            }
        })
    })
}

/// Classified result of an insert-like operation.
#[derive(Debug, Clone, PartialEq, Eq, serde::Serialize)]
pub enum Outcome {
    Inserted(usize),
    Newer,
    EntryIsEmpty,
    ReadOnly,
    Closed,
    Invalid(String),
    StoreError(String),
}

impl Outcome {
    pub fn from(r: Result<usize, InsertError>) -> Self {
        match r {
            Ok(n) => Outcome::Inserted(n),
            Err(InsertError::NewerEntryExists) => Outcome::Newer,
            Err(InsertError::EntryIsEmpty) => Outcome::EntryIsEmpty,
            Err(InsertError::ReadOnly) => Outcome::ReadOnly,
            Err(InsertError::Closed) => Outcome::Closed,
            Err(InsertError::Validation(v)) => Outcome::Invalid(format!("{v:?}")),
            Err(InsertError::Store(e)) => Outcome::StoreError(format!("{e:#}")),
        }
    }
}

pub const PEER: [u8; 32] = [7u8; 32];

pub struct Sut {
    pub store: Store,
}

impl Sut {
    pub fn memory() -> Self {
        Sut {
            store: Store::memory(),
        }
    }
    pub fn persistent(path: &Path) -> anyhow::Result<Self> {
        Ok(Sut {
            store: Store::persistent(path)?,
        })
    }
    /// In-memory store with write capability for the given universe namespaces.
    pub fn memory_with(nss: &[u8]) -> Self {
        let mut s = Self::memory();
        for &i in nss {
            s.store
                .import_namespace(Capability::Write(ns_secret(i)))
                .expect("import");
        }
        s
    }
    pub fn persistent_with(path: &Path, nss: &[u8]) -> anyhow::Result<Self> {
        let mut s = Self::persistent(path)?;
        for &i in nss {
            s.store.import_namespace(Capability::Write(ns_secret(i)))?;
        }
        Ok(s)
    }

    pub fn dump(&mut self, ns: NamespaceId) -> Vec<SignedEntry> {
        self.store
            .get_many(ns, Query::all().include_empty())
            .expect("get_many")
            .collect::<anyhow::Result<Vec<_>>>()
            .expect("get_many item")
    }

    pub fn remote(&mut self, ns: NamespaceId, e: SignedEntry) -> Outcome {
        let mut r = match self.store.open_replica(&ns) {
            Ok(r) => r,
            Err(e) => return Outcome::StoreError(format!("open: {e}")),
        };
        let res = block_on(r.insert_remote_entry(e, PEER, ContentStatus::Missing));
        drop(r);
        self.store.close_replica(ns);
        Outcome::from(res)
    }

    pub fn local_insert(&mut self, ns: NamespaceId, author: &Author, key: &[u8], val: Val) -> Outcome {
        let mut r = match self.store.open_replica(&ns) {
            Ok(r) => r,
            Err(e) => return Outcome::StoreError(format!("open: {e}")),
        };
        let res = match val {
            Val::Del => block_on(r.delete_prefix(key, author)),
            v => {
                let (h, l) = v.hash_len();
                block_on(r.insert(key, author, h, l))
            }
        };
        drop(r);
        self.store.close_replica(ns);
        Outcome::from(res)
    }

    pub fn heads(&mut self, ns: NamespaceId) -> Vec<(AuthorId, u64, Vec<u8>)> {
        self.store
            .get_latest_for_each_author(ns)
            .expect("latest")
            .collect::<anyhow::Result<Vec<_>>>()
            .expect("latest item")
    }

    pub fn sync_initial(&mut self, ns: NamespaceId) -> anyhow::Result<ProtocolMessage> {
        let mut r = self.store.open_replica(&ns)?;
        let m = r.sync_initial_message();
        drop(r);
        self.store.close_replica(ns);
        m
    }

    pub fn sync_process(
        &mut self,
        ns: NamespaceId,
        msg: ProtocolMessage,
        from: [u8; 32],
        state: &mut SyncOutcome,
    ) -> anyhow::Result<Option<ProtocolMessage>> {
        self.sync_process_cb(ns, msg, from, state, None)
    }

    /// As `sync_process`, on a handle that reports the content status of outgoing entries through
    /// `cb` (what the store actor sets up for the replicas it opens).
    pub fn sync_process_cb(
        &mut self,
        ns: NamespaceId,
        msg: ProtocolMessage,
        from: [u8; 32],
        state: &mut SyncOutcome,
        cb: Option<iroh_docs::ContentStatusCallback>,
    ) -> anyhow::Result<Option<ProtocolMessage>> {
        let mut r = self.store.open_replica(&ns)?;
        if let Some(cb) = cb {
            iroh_docs::verif::replica_set_content_status_callback(&mut r, cb);
        }
        let m = block_on(r.sync_process_message(msg, from, state));
        drop(r);
        self.store.close_replica(ns);
        m
    }
}

/// Run a complete reconciliation session alice -> bob. Returns (outcome_a, outcome_b, messages,
/// transcript of serialized messages).
pub struct SessionResult {
    pub a: SyncOutcome,
    pub b: SyncOutcome,
    pub messages: usize,
    pub transcript: Vec<Vec<u8>>,
    pub terminated: bool,
}

pub fn run_session(
    alice: &mut Sut,
    bob: &mut Sut,
    ns: NamespaceId,
    max_messages: usize,
) -> anyhow::Result<SessionResult> {
    let mut a = SyncOutcome::default();
    let mut b = SyncOutcome::default();
    let mut transcript = vec![];
    let mut next = Some(alice.sync_initial(ns)?);
    let mut messages = 0usize;
    let mut to_bob = true;
    let mut terminated = true;
    // the initial message carries no entries, but count it as sent by alice like the codec does
    while let Some(msg) = next.take() {
        messages += 1;
        transcript.push(postcard::to_stdvec(&msg)?);
        if messages > max_messages {
            terminated = false;
            break;
        }
        next = if to_bob {
            bob.sync_process(ns, msg, [1u8; 32], &mut b)?
        } else {
            alice.sync_process(ns, msg, [2u8; 32], &mut a)?
        };
        to_bob = !to_bob;
    }
    Ok(SessionResult {
        a,
        b,
        messages,
        transcript,
        terminated,
    })
}

// ------------------------------------------------------------------------------------------
// store actor helpers
// ------------------------------------------------------------------------------------------

use iroh_docs::actor::SyncHandle;

/// `get_many` through the store actor; `Err` carries the error the actor streamed.
pub async fn handle_get_many(
    h: &SyncHandle,
    ns: NamespaceId,
    q: Query,
) -> Result<Vec<SignedEntry>, String> {
    let (tx, mut rx) = irpc::channel::mpsc::channel(1024);
    h.get_many(ns, q, tx).await.map_err(|e| format!("{e:#}"))?;
    let mut out = vec![];
    loop {
        match rx.recv().await {
            Ok(Some(Ok(e))) => out.push(e),
            Ok(Some(Err(e))) => return Err(format!("{e}")),
            Ok(None) => return Ok(out),
            Err(e) => return Err(format!("recv: {e}")),
        }
    }
}

pub async fn handle_dump(h: &SyncHandle, ns: NamespaceId) -> Result<Vec<SignedEntry>, String> {
    handle_get_many(h, ns, Query::all().include_empty().build()).await
}
