//! Reference models written from the property statements (not from the code).

use std::collections::BTreeMap;

use iroh_docs::{sync::SignedEntry, AuthorId};

pub type Value = (u64, [u8; 32]);

pub fn value_of(e: &SignedEntry) -> Value {
    (e.timestamp(), *e.content_hash().as_bytes())
}

pub fn id_of(e: &SignedEntry) -> ([u8; 32], Vec<u8>) {
    (e.author().to_bytes(), e.key().to_vec())
}

/// The replica of one document: an antichain under "same author, key prefix, not newer".
///
/// Order is (author bytes, key bytes) — which is also the order of the flat author-key listing.
#[derive(Debug, Clone, Default, PartialEq, Eq)]
pub struct ModelReplica {
    pub entries: BTreeMap<([u8; 32], Vec<u8>), SignedEntry>,
}

#[derive(Debug, Clone, Copy, PartialEq, Eq)]
pub enum PutOutcome {
    Inserted { removed: usize },
    Superseded,
}

impl ModelReplica {
    /// Offer a (valid) entry. Statement C02: kept iff no same-author entry at the same key or a
    /// prefix of it is newer (a tie goes to the existing / shorter key, see DESIGN C02); inserting
    /// removes the same-author entries whose key starts with its key and that are not newer.
    pub fn put(&mut self, e: &SignedEntry) -> PutOutcome {
        let (author, key) = id_of(e);
        let v = value_of(e);
        for ((a, k), other) in self.entries.iter() {
            if *a == author && key.starts_with(k) && value_of(other) >= v {
                return PutOutcome::Superseded;
            }
        }
        let doomed: Vec<_> = self
            .entries
            .iter()
            .filter(|((a, k), other)| *a == author && k.starts_with(&key) && value_of(other) <= v)
            .map(|(id, _)| id.clone())
            .collect();
        for id in &doomed {
            self.entries.remove(id);
        }
        self.entries.insert((author, key), e.clone());
        PutOutcome::Inserted {
            removed: doomed.len(),
        }
    }

    /// From-scratch definition: the subset of `offered` that survives.
    ///
    /// `e` survives iff there is no other offered entry `o` of the same author with
    /// (`o.key` == `e.key` and `o` newer) or (`o.key` a strict prefix of `e.key` and `o` not older).
    pub fn spec(offered: &[SignedEntry]) -> ModelReplica {
        let mut m = ModelReplica::default();
        for e in offered {
            let (author, key) = id_of(e);
            let v = value_of(e);
            let dominated = offered.iter().any(|o| {
                let (oa, ok) = id_of(o);
                if oa != author {
                    return false;
                }
                let ov = value_of(o);
                if ok == key {
                    ov > v
                } else {
                    key.starts_with(&ok) && ov >= v
                }
            });
            if !dominated {
                m.entries.insert((author, key), e.clone());
            }
        }
        m
    }

    pub fn dump(&self) -> Vec<SignedEntry> {
        self.entries.values().cloned().collect()
    }

    pub fn len(&self) -> usize {
        self.entries.len()
    }

    pub fn get(&self, author: &AuthorId, key: &[u8]) -> Option<&SignedEntry> {
        self.entries.get(&(author.to_bytes(), key.to_vec()))
    }

    /// Per-author head: max timestamp among the author's entries (C13).
    pub fn heads(&self) -> BTreeMap<[u8; 32], u64> {
        let mut h = BTreeMap::new();
        for ((a, _), e) in &self.entries {
            let t = h.entry(*a).or_insert(0u64);
            *t = (*t).max(e.timestamp());
        }
        h
    }

    /// Join of two replicas (merge under newest-wins + prefix deletion).
    pub fn join(a: &ModelReplica, b: &ModelReplica) -> ModelReplica {
        let mut all = a.dump();
        all.extend(b.dump());
        ModelReplica::spec(&all)
    }
}
