//! Explicit-state explorer where a state is the event history that reaches it.
//!
//! `exec(history)` builds a fresh system under test, replays the history on the real code while
//! checking the oracles against the reference model, and returns the canonical key of the state
//! reached (taken from the implementation's observable state) — or `None` if the last event was
//! not enabled. Identical keys are not expanded again. Work is split across worker processes by
//! the first `split_depth` events of the history (each worker de-duplicates on its own, which is
//! complete, only less economical).

use std::collections::{BTreeSet, VecDeque};

use crate::{report::Report, Ctx};

pub struct Outcome<K> {
    /// canonical key of the reached state
    pub key: K,
    /// short rendering of what was observed at the last step (for the distinct-outcome count)
    pub observed: String,
    /// optional: which events (by index into the event list) are enabled in the reached state;
    /// saves replaying a whole history only to find the last event disabled
    pub enabled: Option<Vec<bool>>,
}

pub struct Stats {
    pub states: u64,
    pub transitions: u64,
    pub max_depth: u64,
}

/// Breadth-first search up to `max_depth` events.
///
/// `exec` is called once per (state, event) edge with the full history; it reports violations
/// itself into the `Report` and returns `None` when the event is not enabled in that state.
pub fn bfs<E: Clone, K: Ord + Clone>(
    ctx: &Ctx,
    report: &mut Report,
    events: &[E],
    max_depth: usize,
    split_depth: usize,
    exec: impl FnMut(&[E], &mut Report, u64) -> Option<Outcome<K>>,
) -> Stats {
    bfs_nd(ctx, report, events, max_depth, split_depth, 0, exec)
}

/// As `bfs`, but a state reached by a history of at most `no_dedup_upto` events is expanded even
/// if its canonical key has been seen: every history of `no_dedup_upto + 1` enabled events is
/// executed whatever the keys say. The canonical key can only hold state the explorer knows how to
/// observe; a defect that keeps *additional* hidden state (a cache, a memo) makes two states look
/// equal that are not, and the de-duplication would prune exactly the history that exposes it.
/// Short histories are therefore explored as a plain tree, and merging starts below them.
pub fn bfs_nd<E: Clone, K: Ord + Clone>(
    ctx: &Ctx,
    report: &mut Report,
    events: &[E],
    max_depth: usize,
    split_depth: usize,
    no_dedup_upto: usize,
    mut exec: impl FnMut(&[E], &mut Report, u64) -> Option<Outcome<K>>,
) -> Stats {
    let mut seen: BTreeSet<K> = BTreeSet::new();
    let mut queue: VecDeque<(Vec<E>, Option<Vec<bool>>)> = VecDeque::new();
    let mut stats = Stats {
        states: 0,
        transitions: 0,
        max_depth: 0,
    };
    // the initial state
    let mut ordinal = 0u64;
    let mut first_enabled = None;
    if let Some(o) = exec(&[], report, 0) {
        seen.insert(o.key);
        stats.states += 1;
        first_enabled = o.enabled;
    }
    queue.push_back((vec![], first_enabled));
    let mut prefix_counter = 0u64;
    while let Some((h, enabled)) = queue.pop_front() {
        if crate::util::watch::stopped() {
            break;
        }
        if h.len() >= max_depth {
            continue;
        }
        for (ei, e) in events.iter().enumerate() {
            if let Some(en) = &enabled {
                if !en.get(ei).copied().unwrap_or(true) {
                    continue;
                }
            }
            let mut h2 = h.clone();
            h2.push(e.clone());
            // partition the tree below split_depth among the workers
            if h2.len() == split_depth.max(1) {
                prefix_counter += 1;
                if !ctx.mine(prefix_counter) {
                    continue;
                }
            }
            ordinal += 1;
            let owned = h2.len() >= split_depth.max(1) || ctx.shard == 0;
            let Some(o) = exec(&h2, report, ordinal) else {
                continue;
            };
            if owned {
                stats.transitions += 1;
                report.outcome(o.observed);
            }
            stats.max_depth = stats.max_depth.max(h2.len() as u64);
            let fresh = seen.insert(o.key);
            if fresh && owned {
                stats.states += 1;
            }
            if fresh || h2.len() <= no_dedup_upto {
                queue.push_back((h2, o.enabled));
            }
        }
    }
    report.states += stats.states;
    report.transitions += stats.transitions;
    report.traces += stats.transitions;
    report.max_depth = report.max_depth.max(stats.max_depth);
    stats
}
