//! Shared alphabets: namespaces, authors, keys, timestamps, values; cached signed entries.

use std::{cell::RefCell, collections::HashMap, fmt};

use iroh_blobs::Hash;
use iroh_docs::{
    sync::{Record, SignedEntry},
    Author, AuthorId, NamespaceId, NamespaceSecret,
};
use serde::{Deserialize, Serialize};

/// Base timestamp (µs since epoch); T0+1..T0+3 are the timestamps of the alphabet.
pub const T0: u64 = 1_700_000_000_000_000;
/// "now" pinned for validation unless a property moves it.
pub const NOW: u64 = T0 + 1_000_000;

pub fn ns_secret(i: u8) -> NamespaceSecret {
    let mut seed = [0x11u8; 32];
    seed[0] = 0xA0 + i;
    NamespaceSecret::from_bytes(&seed)
}
pub fn ns_id(i: u8) -> NamespaceId {
    // deriving the public key costs a curve multiplication: cache it
    static IDS: std::sync::OnceLock<Vec<NamespaceId>> = std::sync::OnceLock::new();
    IDS.get_or_init(|| (0..16u8).map(|i| ns_secret(i).id()).collect())[i as usize]
}
pub fn author(i: u8) -> Author {
    if i == EDGE_AUTHOR {
        return edge_author();
    }
    let mut seed = [0x22u8; 32];
    seed[0] = 0xB0 + i;
    Author::from_bytes(&seed)
}

/// Index of an author whose id ends in the byte 0xFF and whose second-to-last byte is not 0xFF
/// (found by a deterministic search over seeds): the exclusive end of its key space in the
/// (namespace, author, key) order needs a carry into the second-to-last byte of the author id.
pub const EDGE_AUTHOR: u8 = 15;

fn edge_author() -> Author {
    static SEED: std::sync::OnceLock<[u8; 32]> = std::sync::OnceLock::new();
    let seed = SEED.get_or_init(|| {
        for n in 0u32.. {
            let mut seed = [0x23u8; 32];
            seed[..4].copy_from_slice(&n.to_le_bytes());
            let id = Author::from_bytes(&seed).id().to_bytes();
            if id[31] == 0xff && id[30] != 0xff && id[30] != 0x00 {
                return seed;
            }
        }
        unreachable!()
    });
    Author::from_bytes(seed)
}
pub fn author_id(i: u8) -> AuthorId {
    static IDS: std::sync::OnceLock<Vec<AuthorId>> = std::sync::OnceLock::new();
    IDS.get_or_init(|| (0..16u8).map(|i| author(i).id()).collect())[i as usize]
}

/// Index of an author id among the first `n` universe authors.
pub fn author_index(id: &AuthorId, n: u8) -> Option<u8> {
    (0..n).find(|i| author_id(*i) == *id)
}

pub const K5: [&[u8]; 5] = [b"", b"a", b"a\xff", b"ab", b"b"];
pub const K7: [&[u8]; 7] = [b"", b"a", b"a\xff", b"ab", b"b", b"\xff", b"\xff\xff"];
/// K7 plus a key with a run of two 0xFF bytes after a non-0xFF byte (its prefix successor must
/// drop the whole run) and the key that a carrying increment would wrongly reach ("b\x00").
pub const K9: [&[u8]; 9] = [
    b"", b"a", b"a\xff", b"ab", b"b", b"\xff", b"\xff\xff", b"a\xff\xff", b"b\x00",
];

#[derive(Debug, Clone, Copy, PartialEq, Eq, Hash, PartialOrd, Ord, Serialize, Deserialize)]
pub enum Val {
    X,
    Y,
    Del,
}

pub const VALS: [Val; 3] = [Val::X, Val::Y, Val::Del];

impl Val {
    pub fn hash_len(self) -> (Hash, u64) {
        match self {
            Val::X => (Hash::new(b"x"), 1),
            Val::Y => (Hash::new(b"y"), 1),
            Val::Del => (Hash::EMPTY, 0),
        }
    }
    pub fn of(e: &SignedEntry) -> Option<Val> {
        VALS.into_iter().find(|v| {
            let (h, l) = v.hash_len();
            e.content_hash() == h && e.content_len() == l
        })
    }
}

/// A fully specified entry of the alphabet.
#[derive(Debug, Clone, PartialEq, Eq, Hash, PartialOrd, Ord, Serialize, Deserialize)]
pub struct Spec {
    pub ns: u8,
    pub author: u8,
    #[serde(with = "hexkey")]
    pub key: Vec<u8>,
    /// offset from T0
    pub ts: u64,
    pub val: Val,
}

pub mod hexkey {
    use serde::{Deserialize, Deserializer, Serializer};
    pub fn serialize<S: Serializer>(v: &Vec<u8>, s: S) -> Result<S::Ok, S::Error> {
        s.serialize_str(&super::show_key(v))
    }
    pub fn deserialize<'de, D: Deserializer<'de>>(d: D) -> Result<Vec<u8>, D::Error> {
        let s = String::deserialize(d)?;
        super::parse_key(&s).map_err(serde::de::Error::custom)
    }
}

/// Printable rendering of a byte key: printable ASCII as-is, others as \xNN.
pub fn show_key(k: &[u8]) -> String {
    let mut s = String::new();
    for &b in k {
        if b.is_ascii_alphanumeric() || b == b':' || b == b'/' {
            s.push(b as char);
        } else {
            s.push_str(&format!("\\x{b:02x}"));
        }
    }
    s
}

pub fn parse_key(s: &str) -> Result<Vec<u8>, String> {
    let b = s.as_bytes();
    let mut out = vec![];
    let mut i = 0;
    while i < b.len() {
        if b[i] == b'\\' {
            if i + 3 < b.len() + 0 && b[i + 1] == b'x' {
                let h = std::str::from_utf8(&b[i + 2..i + 4]).map_err(|e| e.to_string())?;
                out.push(u8::from_str_radix(h, 16).map_err(|e| e.to_string())?);
                i += 4;
            } else {
                return Err(format!("bad escape in {s}"));
            }
        } else {
            out.push(b[i]);
            i += 1;
        }
    }
    Ok(out)
}

impl fmt::Display for Spec {
    fn fmt(&self, f: &mut fmt::Formatter<'_>) -> fmt::Result {
        let v = match self.val {
            Val::X => "x",
            Val::Y => "y",
            Val::Del => "DEL",
        };
        write!(
            f,
            "N{}/A{}:\"{}\"@{}={}",
            self.ns,
            self.author,
            show_key(&self.key),
            self.ts,
            v
        )
    }
}

impl Spec {
    pub fn new(ns: u8, author: u8, key: &[u8], ts: u64, val: Val) -> Self {
        Spec {
            ns,
            author,
            key: key.to_vec(),
            ts,
            val,
        }
    }
    pub fn timestamp(&self) -> u64 {
        T0 + self.ts
    }
    pub fn record(&self) -> Record {
        let (h, l) = self.val.hash_len();
        Record::new(h, l, self.timestamp())
    }
    /// (timestamp, content hash bytes): the value order of the crate (`Ord for Record`).
    pub fn value(&self) -> (u64, [u8; 32]) {
        (self.timestamp(), *self.val.hash_len().0.as_bytes())
    }
    pub fn signed(&self) -> SignedEntry {
        thread_local! {
            static CACHE: RefCell<HashMap<Spec, SignedEntry>> = RefCell::new(HashMap::new());
        }
        CACHE.with(|c| {
            if let Some(e) = c.borrow().get(self) {
                return e.clone();
            }
            let e = SignedEntry::from_parts(
                &ns_secret(self.ns),
                &author(self.author),
                &self.key,
                self.record(),
            );
            c.borrow_mut().insert(self.clone(), e.clone());
            e
        })
    }
    /// Recover the spec of an entry of the alphabet (None if it is not one).
    pub fn of(e: &SignedEntry, n_ns: u8, n_authors: u8) -> Option<Spec> {
        let ns = (0..n_ns).find(|i| ns_id(*i) == e.namespace())?;
        let author = author_index(&e.author(), n_authors)?;
        let val = Val::of(e)?;
        let ts = e.timestamp().checked_sub(T0)?;
        Some(Spec {
            ns,
            author,
            key: e.key().to_vec(),
            ts,
            val,
        })
    }
}

/// Entries of one author over a key set × timestamps 1..=nts × all three values.
pub fn universe(ns: u8, authors: &[u8], keys: &[&[u8]], nts: u64) -> Vec<Spec> {
    let mut v = vec![];
    for &a in authors {
        for k in keys {
            for ts in 1..=nts {
                for val in VALS {
                    v.push(Spec::new(ns, a, k, ts, val));
                }
            }
        }
    }
    v
}

/// Render an arbitrary entry compactly (for diagnostics).
pub fn show_entry(e: &SignedEntry) -> String {
    match Spec::of(e, 4, 4) {
        Some(s) => s.to_string(),
        None => format!(
            "ns={} au={} key=\"{}\" ts={} len={} hash={}",
            e.namespace().fmt_short(),
            e.author().fmt_short(),
            show_key(e.key()),
            e.timestamp(),
            e.content_len(),
            &e.content_hash().to_hex()[..8]
        ),
    }
}

pub fn show_entries(es: &[SignedEntry]) -> String {
    let v: Vec<String> = es.iter().map(show_entry).collect();
    format!("[{}]", v.join(", "))
}
