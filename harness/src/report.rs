//! Per-run counters, violations, merging across shard workers, evidence and known findings.

use std::collections::{BTreeMap, BTreeSet};

use serde::{Deserialize, Serialize};
use serde_json::{json, Value};

#[derive(Debug, Clone, Serialize, Deserialize)]
pub struct Violation {
    /// Which oracle failed (stable identifier).
    pub oracle: String,
    /// Minimal facts describing the *mechanism* (used for known-finding matching and dedup).
    pub witness: Value,
    /// The concrete case (op list / state pair / schedule) — the replay.
    pub case: Value,
    /// Human readable: model vs implementation.
    pub detail: String,
    /// Global ordinal of the case in the enumeration (smaller = simpler).
    pub ordinal: u64,
}

#[derive(Debug, Clone, Default, Serialize, Deserialize)]
pub struct Report {
    pub evaluations: u64,
    pub nontrivial: u64,
    pub states: u64,
    pub transitions: u64,
    pub traces: u64,
    pub max_depth: u64,
    /// hashes / short renderings of distinct observed outcomes (capped)
    pub outcomes: BTreeSet<String>,
    pub samples: Vec<Value>,
    pub violations: Vec<Violation>,
    pub violation_count: u64,
    /// summable extra counters
    pub counters: BTreeMap<String, u64>,
    /// maxima
    pub maxima: BTreeMap<String, u64>,
    /// free-form facts (first writer wins on merge)
    pub facts: BTreeMap<String, Value>,
    pub caps_hit: Vec<String>,
    pub machinery_errors: Vec<String>,
}

const MAX_OUTCOMES: usize = 100_000;
const MAX_SAMPLES: usize = 6;
const MAX_VIOLATIONS_KEPT: usize = 64;

impl Report {
    pub fn count(&mut self, name: &str, n: u64) {
        *self.counters.entry(name.to_string()).or_default() += n;
    }
    pub fn maximum(&mut self, name: &str, v: u64) {
        let e = self.maxima.entry(name.to_string()).or_default();
        if v > *e {
            *e = v;
        }
    }
    pub fn fact(&mut self, name: &str, v: Value) {
        self.facts.entry(name.to_string()).or_insert(v);
    }
    pub fn outcome(&mut self, s: impl Into<String>) {
        if self.outcomes.len() < MAX_OUTCOMES {
            self.outcomes.insert(s.into());
        }
    }
    pub fn sample(&mut self, v: impl FnOnce() -> Value) {
        if self.samples.len() < MAX_SAMPLES {
            self.samples.push(v());
        }
    }
    pub fn violation(
        &mut self,
        oracle: &str,
        witness: Value,
        case: Value,
        detail: String,
        ordinal: u64,
    ) {
        self.violation_count += 1;
        crate::util::watch::note_violation(oracle, &witness);
        if let Some(v) = self
            .violations
            .iter_mut()
            .find(|v| v.oracle == oracle && v.witness == witness)
        {
            if ordinal < v.ordinal {
                v.case = case;
                v.detail = detail;
                v.ordinal = ordinal;
            }
            return;
        }
        if self.violations.len() < MAX_VIOLATIONS_KEPT {
            self.violations.push(Violation {
                oracle: oracle.to_string(),
                witness,
                case,
                detail,
                ordinal,
            });
        }
    }
    pub fn machinery_error(&mut self, s: impl Into<String>) {
        if self.machinery_errors.len() < 20 {
            self.machinery_errors.push(s.into());
        }
    }
    pub fn cap_hit(&mut self, s: impl Into<String>) {
        let s = s.into();
        if !self.caps_hit.contains(&s) {
            self.caps_hit.push(s);
        }
    }

    pub fn merge(&mut self, o: Report) {
        self.evaluations += o.evaluations;
        self.nontrivial += o.nontrivial;
        self.states += o.states;
        self.transitions += o.transitions;
        self.traces += o.traces;
        self.max_depth = self.max_depth.max(o.max_depth);
        for s in o.outcomes {
            if self.outcomes.len() < MAX_OUTCOMES {
                self.outcomes.insert(s);
            }
        }
        for s in o.samples {
            if self.samples.len() < MAX_SAMPLES {
                self.samples.push(s);
            }
        }
        self.violation_count += o.violation_count;
        for v in o.violations {
            if let Some(mine) = self
                .violations
                .iter_mut()
                .find(|m| m.oracle == v.oracle && m.witness == v.witness)
            {
                if v.ordinal < mine.ordinal {
                    *mine = v;
                }
            } else if self.violations.len() < MAX_VIOLATIONS_KEPT {
                self.violations.push(v);
            }
        }
        for (k, v) in o.counters {
            *self.counters.entry(k).or_default() += v;
        }
        for (k, v) in o.maxima {
            let e = self.maxima.entry(k).or_default();
            if v > *e {
                *e = v;
            }
        }
        for (k, v) in o.facts {
            self.facts.entry(k).or_insert(v);
        }
        for c in o.caps_hit {
            self.cap_hit(c);
        }
        for e in o.machinery_errors {
            self.machinery_error(e);
        }
    }
}

// ------------------------------------------------------------------------------------------
// known findings
// ------------------------------------------------------------------------------------------

#[derive(Debug, Clone, Deserialize)]
pub struct KnownFinding {
    pub property: String,
    pub oracle: String,
    #[serde(default)]
    pub witness: Value,
    pub what: String,
}

#[derive(Debug, Clone, Default, Deserialize)]
pub struct KnownFindings {
    #[serde(default)]
    pub findings: Vec<KnownFinding>,
    #[serde(default)]
    pub fixed: Vec<Value>,
}

impl KnownFindings {
    pub fn load(path: &std::path::Path) -> anyhow::Result<Self> {
        if !path.exists() {
            return Ok(Self::default());
        }
        let s = std::fs::read_to_string(path)?;
        Ok(serde_json::from_str(&s)?)
    }

    /// A finding matches when property and oracle are equal and every fact listed in the
    /// finding's witness is present with the same value in the violation's witness.
    pub fn matching(&self, property: &str, v: &Violation) -> Option<&KnownFinding> {
        self.findings.iter().find(|f| {
            f.property == property
                && f.oracle == v.oracle
                && match (&f.witness, &v.witness) {
                    (Value::Null, _) => true,
                    (Value::Object(fw), Value::Object(vw)) => {
                        fw.iter().all(|(k, val)| vw.get(k) == Some(val))
                    }
                    (Value::Object(fw), _) => fw.is_empty(),
                    (a, b) => a == b,
                }
        })
    }
}

// ------------------------------------------------------------------------------------------
// evidence
// ------------------------------------------------------------------------------------------

pub struct EvidenceMeta<'a> {
    pub property: &'a str,
    pub tier: &'a str,
    pub seed: i64,
    pub level: &'a str,
    pub rule: &'a str,
    pub bound: Value,
    pub assumptions: &'a [&'a str],
    pub wall_s: f64,
    pub unlisted_violations: u64,
    pub known_findings: Vec<String>,
}

pub fn evidence_json(r: &Report, m: &EvidenceMeta) -> Value {
    let exhaustive = r.caps_hit.is_empty() && r.machinery_errors.is_empty();
    let mut coverage = serde_json::Map::new();
    coverage.insert("evaluations".into(), json!(r.evaluations));
    coverage.insert("distinct_nontrivial".into(), json!(r.nontrivial));
    coverage.insert("rule".into(), json!(m.rule));
    coverage.insert("samples".into(), json!(r.samples));
    if m.level == "model_checking" {
        coverage.insert("states".into(), json!(r.states));
        coverage.insert("transitions".into(), json!(r.transitions));
        coverage.insert("traces_validated_against_impl".into(), json!(r.traces));
        coverage.insert("max_depth".into(), json!(r.max_depth));
    }
    coverage.insert("distinct_outcomes".into(), json!(r.outcomes.len()));
    coverage.insert("bound".into(), m.bound.clone());
    coverage.insert("exhaustive".into(), json!(exhaustive));
    coverage.insert("caps_hit".into(), json!(r.caps_hit));
    coverage.insert("counters".into(), json!(r.counters));
    coverage.insert("maxima".into(), json!(r.maxima));
    coverage.insert("facts".into(), json!(r.facts));
    coverage.insert("violations_total".into(), json!(r.violation_count));
    coverage.insert("known_findings_reported".into(), json!(m.known_findings));
    coverage.insert("machinery_errors".into(), json!(r.machinery_errors));
    json!({
        "property_id": m.property,
        "tier": m.tier,
        "seed": m.seed,
        "level": m.level,
        "coverage": Value::Object(coverage),
        "assumptions": m.assumptions,
        "wall_s": m.wall_s,
        "violations": m.unlisted_violations,
    })
}
