//! Small helpers: panic capture, memory cap, combinatorics.

use std::any::Any;

pub fn panic_message(p: &Box<dyn Any + Send>) -> String {
    if let Some(s) = p.downcast_ref::<&str>() {
        s.to_string()
    } else if let Some(s) = p.downcast_ref::<String>() {
        s.clone()
    } else {
        "<non-string panic>".to_string()
    }
}

/// Run `f`, catching a panic of the system under test; the default panic hook is silenced while
/// the closure runs (the message is returned instead).
pub fn catch<T>(f: impl FnOnce() -> T) -> Result<T, String> {
    std::panic::catch_unwind(std::panic::AssertUnwindSafe(f)).map_err(|p| panic_message(&p))
}

pub fn silence_panics() {
    std::panic::set_hook(Box::new(|_| {}));
}

/// Per-worker address-space cap (engine-internal RSS cap): 32 GiB of address space.
pub fn limit_memory() {
    let lim = libc::rlimit {
        rlim_cur: 32 << 30,
        rlim_max: 32 << 30,
    };
    unsafe {
        libc::setrlimit(libc::RLIMIT_AS, &lim);
    }
}

/// All subsets of {0..n} of size <= k, in order of size then lexicographic.
pub fn subsets_up_to(n: usize, k: usize) -> Vec<Vec<usize>> {
    let mut out = vec![vec![]];
    fn rec(start: usize, n: usize, left: usize, cur: &mut Vec<usize>, out: &mut Vec<Vec<usize>>) {
        if left == 0 {
            out.push(cur.clone());
            return;
        }
        for i in start..n {
            cur.push(i);
            rec(i + 1, n, left - 1, cur, out);
            cur.pop();
        }
    }
    for size in 1..=k.min(n) {
        let mut cur = vec![];
        rec(0, n, size, &mut cur, &mut out);
    }
    out
}

/// Visit all sequences over {0..n} of length exactly `len`, in lexicographic order.
pub fn for_each_sequence(n: usize, len: usize, mut f: impl FnMut(&[usize])) {
    let mut cur = vec![0usize; len];
    if n == 0 && len > 0 {
        return;
    }
    loop {
        f(&cur);
        let mut i = len;
        loop {
            if i == 0 {
                return;
            }
            i -= 1;
            cur[i] += 1;
            if cur[i] < n {
                break;
            }
            cur[i] = 0;
        }
    }
}

pub fn fnv(s: &[u8]) -> u64 {
    let mut h: u64 = 0xcbf29ce484222325;
    for b in s {
        h ^= *b as u64;
        h = h.wrapping_mul(0x100000001b3);
    }
    h
}

/// Watchdog for single cases: code of the system under test that never returns, or that
/// allocates without bound, must become a verdict about *that case* instead of taking the
/// worker (and the machine) down.
///
/// A check wraps the execution of one case in `watch::enter(case)`; a background thread of the
/// worker looks every 100 ms at how long the current case has been running and how much the
/// resident set has grown since it was entered. When a bound is exceeded it writes a report
/// holding one violation (`case_terminates_within_resource_bounds`, with the case as replay)
/// and ends the process. In replay mode it prints the verdict instead.
pub mod watch {
    use std::{
        path::PathBuf,
        sync::Mutex,
        time::{Duration, Instant},
    };

    use serde_json::{json, Value};

    struct Current {
        case: Value,
        what: String,
        since: Instant,
        rss_at_entry: u64,
        max_secs: u64,
    }

    static CURRENT: Mutex<Option<Current>> = Mutex::new(None);

    /// Fail-fast: once a worker has recorded a violation and has used up its budget, it stops
    /// enumerating further cases (the run is a counterexample then, not a coverage statement;
    /// the report says so). Never triggers on a tree without violations.
    static VIOLATIONS: std::sync::atomic::AtomicU64 = std::sync::atomic::AtomicU64::new(0);
    static STOP: std::sync::atomic::AtomicBool = std::sync::atomic::AtomicBool::new(false);

    /// (property id, known findings): violations that match a listed known finding do not count
    /// towards fail-fast (the run goes on and still covers everything).
    static KNOWN: Mutex<Option<(String, crate::report::KnownFindings)>> = Mutex::new(None);

    pub fn set_known(property: &str, known: crate::report::KnownFindings) {
        *KNOWN.lock().unwrap_or_else(|e| e.into_inner()) = Some((property.to_string(), known));
    }

    pub fn note_violation(oracle: &str, witness: &Value) {
        if let Some((prop, known)) = KNOWN.lock().unwrap_or_else(|e| e.into_inner()).as_ref() {
            let v = crate::report::Violation {
                oracle: oracle.to_string(),
                witness: witness.clone(),
                case: Value::Null,
                detail: String::new(),
                ordinal: 0,
            };
            if known.matching(prop, &v).is_some() {
                return;
            }
        }
        VIOLATIONS.fetch_add(1, std::sync::atomic::Ordering::Relaxed);
    }

    /// True once the fail-fast condition holds; enumerators skip the remaining cases.
    pub fn stopped() -> bool {
        STOP.load(std::sync::atomic::Ordering::Relaxed)
    }

    pub struct Guard;

    impl Drop for Guard {
        fn drop(&mut self) {
            *CURRENT.lock().unwrap_or_else(|e| e.into_inner()) = None;
        }
    }

    /// Mark the start of one case (the returned guard marks its end). Cases of the checks that
    /// use this complete in milliseconds; the default bound is 30 s (VP_CASE_SECONDS).
    pub fn enter(what: &str, case: Value) -> Guard {
        enter_secs(what, case, env_u64("VP_CASE_SECONDS", 30))
    }

    /// Same with an explicit time bound (for cases that legitimately wait, e.g. on deadlines).
    pub fn enter_secs(what: &str, case: Value, max_secs: u64) -> Guard {
        *CURRENT.lock().unwrap_or_else(|e| e.into_inner()) = Some(Current {
            case,
            what: what.to_string(),
            since: Instant::now(),
            rss_at_entry: rss_bytes(),
            max_secs,
        });
        Guard
    }

    pub fn rss_bytes() -> u64 {
        std::fs::read_to_string("/proc/self/statm")
            .ok()
            .and_then(|s| s.split_whitespace().nth(1).and_then(|p| p.parse::<u64>().ok()))
            .map(|pages| pages * 4096)
            .unwrap_or(0)
    }

    fn env_u64(name: &str, default: u64) -> u64 {
        std::env::var(name).ok().and_then(|s| s.parse().ok()).unwrap_or(default)
    }

    pub enum Mode {
        /// write a one-violation report to this path and exit 0 (the parent merges it); the
        /// number is the fail-fast budget in seconds
        Worker(PathBuf, u64),
        /// print the verdict for this replay file and exit 1
        Replay { prop: String, file: String },
    }

    pub fn start(mode: Mode) {
        let max_growth = env_u64("VP_CASE_RSS_MB", 3072) << 20;
        let started = Instant::now();
        std::thread::spawn(move || loop {
            std::thread::sleep(Duration::from_millis(100));
            if let Mode::Worker(_, budget) = &mode {
                if VIOLATIONS.load(std::sync::atomic::Ordering::Relaxed) > 0 && started.elapsed().as_secs() >= *budget {
                    STOP.store(true, std::sync::atomic::Ordering::Relaxed);
                }
            }
            let hit = {
                let cur = CURRENT.lock().unwrap_or_else(|e| e.into_inner());
                match cur.as_ref() {
                    None => None,
                    Some(c) => {
                        let secs = c.since.elapsed().as_secs();
                        let growth = rss_bytes().saturating_sub(c.rss_at_entry);
                        if secs >= c.max_secs {
                            Some((c.case.clone(), c.what.clone(), "time", format!("still running after {secs} s")))
                        } else if growth >= max_growth {
                            Some((c.case.clone(), c.what.clone(), "memory", format!("resident memory grew by {} MiB inside this one case (after {} ms)", growth >> 20, c.since.elapsed().as_millis())))
                        } else {
                            None
                        }
                    }
                }
            };
            if let Some((case, what, kind, detail)) = hit {
                let detail = format!("{what}: {detail}; the case was abandoned by the watchdog (a case of this size completes in milliseconds)");
                match &mode {
                    Mode::Worker(out, _) => {
                        let mut r = crate::report::Report::default();
                        r.violation(
                            "case_terminates_within_resource_bounds",
                            json!({"exceeded": kind}),
                            case,
                            detail,
                            0,
                        );
                        r.count("workers_stopped_by_the_case_watchdog", 1);
                        let _ = std::fs::write(out, serde_json::to_vec(&r).unwrap());
                        std::process::exit(0);
                    }
                    Mode::Replay { prop, file } => {
                        println!("FAILED case_terminates_within_resource_bounds: {detail}");
                        println!("VIOLATION property={prop} replay={file}");
                        std::process::exit(1);
                    }
                }
            }
        });
    }
}
