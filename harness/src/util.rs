//! Small helpers: panic capture, memory cap, combinatorics.

use std::any::Any;

pub fn panic_message(p: &Box<dyn Any + Send>) -> String {
    if let Some(s) = p.downcast_ref::<&str>() {
        s.to_string()
    } else if let Some(s) = p.downcast_ref::<String>() {
        s.clone()
    } else {
        "<non-string panic>".to_string()
    }
}

/// Run `f`, catching a panic of the system under test; the default panic hook is silenced while
/// the closure runs (the message is returned instead).
pub fn catch<T>(f: impl FnOnce() -> T) -> Result<T, String> {
    std::panic::catch_unwind(std::panic::AssertUnwindSafe(f)).map_err(|p| panic_message(&p))
}

pub fn silence_panics() {
    std::panic::set_hook(Box::new(|_| {}));
}

/// Per-worker address-space cap (engine-internal RSS cap): 32 GiB of address space.
pub fn limit_memory() {
    let lim = libc::rlimit {
        rlim_cur: 32 << 30,
        rlim_max: 32 << 30,
    };
    unsafe {
        libc::setrlimit(libc::RLIMIT_AS, &lim);
    }
}

/// All subsets of {0..n} of size <= k, in order of size then lexicographic.
pub fn subsets_up_to(n: usize, k: usize) -> Vec<Vec<usize>> {
    let mut out = vec![vec![]];
    fn rec(start: usize, n: usize, left: usize, cur: &mut Vec<usize>, out: &mut Vec<Vec<usize>>) {
        if left == 0 {
            out.push(cur.clone());
            return;
        }
        for i in start..n {
            cur.push(i);
            rec(i + 1, n, left - 1, cur, out);
            cur.pop();
        }
    }
    for size in 1..=k.min(n) {
        let mut cur = vec![];
        rec(0, n, size, &mut cur, &mut out);
    }
    out
}

/// Visit all sequences over {0..n} of length exactly `len`, in lexicographic order.
pub fn for_each_sequence(n: usize, len: usize, mut f: impl FnMut(&[usize])) {
    let mut cur = vec![0usize; len];
    if n == 0 && len > 0 {
        return;
    }
    loop {
        f(&cur);
        let mut i = len;
        loop {
            if i == 0 {
                return;
            }
            i -= 1;
            cur[i] += 1;
            if cur[i] < n {
                break;
            }
            cur[i] = 0;
        }
    }
}

pub fn fnv(s: &[u8]) -> u64 {
    let mut h: u64 = 0xcbf29ce484222325;
    for b in s {
        h ^= *b as u64;
        h = h.wrapping_mul(0x100000001b3);
    }
    h
}
