//! Independent, hand-written byte layouts of the wire types (postcard) and of the canonical
//! signing encoding. Nothing in here uses the crate's serde derives.

use iroh_docs::sync::SignedEntry;

pub fn put_varint(out: &mut Vec<u8>, mut v: u64) {
    loop {
        let b = (v & 0x7f) as u8;
        v >>= 7;
        if v == 0 {
            out.push(b);
            return;
        }
        out.push(b | 0x80);
    }
}

pub fn get_varint(b: &[u8], pos: &mut usize) -> Option<u64> {
    let mut v: u64 = 0;
    for i in 0..10 {
        let byte = *b.get(*pos)?;
        *pos += 1;
        if i == 9 && byte > 1 {
            return None;
        }
        v |= ((byte & 0x7f) as u64) << (7 * i);
        if byte & 0x80 == 0 {
            return Some(v);
        }
    }
    None
}

/// Raw fields of a signed entry as they appear on the wire.
#[derive(Debug, Clone, PartialEq, Eq)]
pub struct RawSigned {
    pub author_sig: [u8; 64],
    pub ns_sig: [u8; 64],
    /// namespace ‖ author ‖ key (may be shorter than 64 bytes in hostile input)
    pub id: Vec<u8>,
    pub len: u64,
    pub hash: [u8; 32],
    pub ts: u64,
}

impl RawSigned {
    /// postcard layout of `SignedEntry { signature: { author_signature, namespace_signature },
    /// entry: { id: bytes, record: { len, hash, timestamp } } }`
    pub fn encode(&self) -> Vec<u8> {
        let mut out = Vec::with_capacity(256);
        out.extend_from_slice(&self.author_sig);
        out.extend_from_slice(&self.ns_sig);
        put_varint(&mut out, self.id.len() as u64);
        out.extend_from_slice(&self.id);
        put_varint(&mut out, self.len);
        out.extend_from_slice(&self.hash);
        put_varint(&mut out, self.ts);
        out
    }

    /// Parse; returns the fields and the number of bytes consumed.
    pub fn parse(b: &[u8]) -> Option<(RawSigned, usize)> {
        let mut pos = 0;
        let author_sig: [u8; 64] = b.get(0..64)?.try_into().ok()?;
        let ns_sig: [u8; 64] = b.get(64..128)?.try_into().ok()?;
        pos += 128;
        let n = get_varint(b, &mut pos)? as usize;
        let id = b.get(pos..pos.checked_add(n)?)?.to_vec();
        pos += n;
        let len = get_varint(b, &mut pos)?;
        let hash: [u8; 32] = b.get(pos..pos + 32)?.try_into().ok()?;
        pos += 32;
        let ts = get_varint(b, &mut pos)?;
        Some((
            RawSigned {
                author_sig,
                ns_sig,
                id,
                len,
                hash,
                ts,
            },
            pos,
        ))
    }

    pub fn of(e: &SignedEntry) -> RawSigned {
        let bytes = postcard::to_stdvec(e).expect("encode");
        let (raw, used) = RawSigned::parse(&bytes).expect("layout");
        assert_eq!(used, bytes.len(), "layout consumed everything");
        raw
    }

    /// canonical signing bytes: id ‖ len_be ‖ hash ‖ ts_be
    pub fn signing_bytes(&self) -> Vec<u8> {
        let mut out = self.id.clone();
        out.extend_from_slice(&self.len.to_be_bytes());
        out.extend_from_slice(&self.hash);
        out.extend_from_slice(&self.ts.to_be_bytes());
        out
    }

    pub fn namespace(&self) -> Option<[u8; 32]> {
        self.id.get(0..32)?.try_into().ok()
    }
    pub fn author(&self) -> Option<[u8; 32]> {
        self.id.get(32..64)?.try_into().ok()
    }
    pub fn key(&self) -> Option<&[u8]> {
        self.id.get(64..)
    }

    /// Decode through the crate's public serde encoding (None if the crate rejects the bytes).
    pub fn to_signed(&self) -> Option<SignedEntry> {
        postcard::from_bytes(&self.encode()).ok()
    }
}

pub const EMPTY_HASH: [u8; 32] = [
    0xaf, 0x13, 0x49, 0xb9, 0xf5, 0xf9, 0xa1, 0xa6, 0xa0, 0x40, 0x4d, 0xea, 0x36, 0xdc, 0xc9, 0x49,
    0x9b, 0xcb, 0x25, 0xc9, 0xad, 0xc1, 0x12, 0xb7, 0xcc, 0x9a, 0x93, 0xca, 0xe4, 0x1f, 0x32, 0x62,
];

/// One part of a reconciliation message (hand-assembled).
#[derive(Debug, Clone)]
pub enum RawPart {
    Fingerprint {
        x: Vec<u8>,
        y: Vec<u8>,
        fp: [u8; 32],
    },
    Item {
        x: Vec<u8>,
        y: Vec<u8>,
        /// (encoded entry bytes, content status discriminant)
        values: Vec<(Vec<u8>, u8)>,
        have_local: bool,
    },
}

/// postcard layout of `Message { parts: Vec<MessagePart> }`.
pub fn encode_message(parts: &[RawPart]) -> Vec<u8> {
    let mut out = vec![];
    put_varint(&mut out, parts.len() as u64);
    for p in parts {
        match p {
            RawPart::Fingerprint { x, y, fp } => {
                put_varint(&mut out, 0);
                put_varint(&mut out, x.len() as u64);
                out.extend_from_slice(x);
                put_varint(&mut out, y.len() as u64);
                out.extend_from_slice(y);
                out.extend_from_slice(fp);
            }
            RawPart::Item {
                x,
                y,
                values,
                have_local,
            } => {
                put_varint(&mut out, 1);
                put_varint(&mut out, x.len() as u64);
                out.extend_from_slice(x);
                put_varint(&mut out, y.len() as u64);
                out.extend_from_slice(y);
                put_varint(&mut out, values.len() as u64);
                for (e, cs) in values {
                    out.extend_from_slice(e);
                    put_varint(&mut out, *cs as u64);
                }
                out.push(*have_local as u8);
            }
        }
    }
    out
}
