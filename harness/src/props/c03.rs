//! C03 — only authentic, well-formed, in-namespace, non-future entries are accepted.

use iroh_docs::{
    sync::{Event, Record, SignedEntry, SyncOutcome, MAX_TIMESTAMP_FUTURE_SHIFT},
    ContentStatus, ProtocolMessage,
};
use serde_json::{json, Value};

use super::common::{set_clock, snapshot, Snapshot};
use crate::{
    mirror::{encode_message, RawPart, RawSigned, EMPTY_HASH},
    refmodel::{ModelReplica, PutOutcome},
    report::Report,
    sut::{block_on, Sut, PEER},
    universe::{author, ns_id, ns_secret, show_entries, Spec, Val, NOW, T0},
    util::catch,
    Ctx, PropDef, Tier,
};

pub fn def() -> PropDef {
    PropDef {
        id: "C03",
        level: "exploration",
        rule: "for each validly signed base entry: every single-byte alteration (each byte position of its wire encoding x {xor 0x01, xor 0x80, :=0x00, :=0xff}) that the crate still decodes, the two signatures swapped, signatures taken from another entry (other key / other author / other namespace), a validly signed entry of a foreign namespace, an entry claiming our namespace signed with a foreign namespace secret and entries naming a foreign / an unknown namespace signed with our namespace secret, author/namespace ids that are not curve points, timestamps now+10min-1/+0/+1 and the four emptiness combinations; each candidate is presented as a single remote insert to a replica that already holds the untampered original (signatures it has seen before), as a single remote insert and inside a hand-assembled reconciliation message at every position of every part (1..3 parts, 1..2 entries per part) among valid filler entries; the verdict is compared with an independent acceptance predicate; one message layout (the candidate between two valid entries) is also handed to the store actor (SyncHandle::sync_process_message); one family runs on the machine's own clock (no clock hook): entries stamped five seconds inside / outside the ten-minute bound on both ingress paths, and a local write must carry the machine's time; family G: a real node (Docs engine, gossip receive loop, store actor) syncs the document and an endpoint of the harness, joined to the document's gossip topic as its neighbour, broadcasts the candidates (byte alterations thinned to every 11th, thorough 5th, position) as Put operations, each followed by a validly signed probe: when the probe has entered, the replica holds the candidate exactly when the predicate allows it, reception has not stopped, and a subscriber of the docs API was told about exactly the entries that entered; non-trivial = distinct candidates that the crate decodes and that differ from the base entry",
        assumptions: &[
            "ed25519 itself (unforgeability, strictness) is trusted: the predicate asks the same library routine with an independently computed message and keys",
            "candidates are single-fault: one altered byte or one substituted field per entry",
        ],
        bound: |t| match t {
            Tier::Quick => json!({"bases": 4, "message_layouts": "1..2 parts (15 layouts)"}),
            Tier::Thorough => json!({"bases": 12, "message_layouts": "1..3 parts (51 layouts)"}),
        },
        run,
        replay,
        shards: |_| 16,
    }
}

fn bases(tier: Tier) -> Vec<Spec> {
    let mut v = vec![
        Spec::new(0, 0, b"a", 2, Val::X),
        Spec::new(0, 0, b"ab", 1, Val::Del),
        Spec::new(0, 1, b"", 3, Val::Y),
        Spec::new(0, 0, b"a\xff", 2, Val::X),
    ];
    if tier == Tier::Thorough {
        v.extend([
            Spec::new(0, 0, b"", 1, Val::Del),
            Spec::new(0, 1, b"a", 1, Val::X),
            Spec::new(0, 0, b"b", 3, Val::Y),
            Spec::new(0, 1, b"\xff\xff", 2, Val::Del),
            Spec::new(0, 0, b"abc", 2, Val::X),
            Spec::new(0, 1, b"b", 2, Val::Y),
            Spec::new(0, 0, b"\xff", 1, Val::X),
            Spec::new(0, 1, b"ab", 3, Val::Del),
        ]);
    }
    v
}

fn fillers() -> Vec<SignedEntry> {
    // valid entries at keys unrelated to any candidate key
    [b"p", b"q", b"r", b"s", b"t", b"u"]
        .iter()
        .map(|k| Spec::new(0, 1, *k, 1, Val::X).signed())
        .collect()
}

#[derive(Debug, Clone)]
struct Candidate {
    label: String,
    bytes: Vec<u8>,
}

fn not_a_point() -> [u8; 32] {
    for i in 0u8..=255 {
        let b = [i; 32];
        if iroh::PublicKey::from_bytes(&b).is_err() {
            return b;
        }
    }
    panic!("no non-point found");
}

fn candidates(base: &Spec) -> Vec<Candidate> {
    let e = base.signed();
    let bytes = postcard::to_stdvec(&e).unwrap();
    let raw = RawSigned::of(&e);
    let mut v = vec![Candidate {
        label: "unmodified".into(),
        bytes: bytes.clone(),
    }];
    for pos in 0..bytes.len() {
        for (name, f) in [
            ("xor01", (|b: u8| b ^ 0x01) as fn(u8) -> u8),
            ("xor80", |b| b ^ 0x80),
            ("zero", |_| 0x00),
            ("ff", |_| 0xff),
        ] {
            let mut b = bytes.clone();
            let nb = f(b[pos]);
            if nb == b[pos] {
                continue;
            }
            b[pos] = nb;
            v.push(Candidate {
                label: format!("byte{pos}:{name}"),
                bytes: b,
            });
        }
    }
    // signatures swapped with each other
    let mut r = raw.clone();
    std::mem::swap(&mut r.author_sig, &mut r.ns_sig);
    v.push(Candidate {
        label: "signatures_swapped".into(),
        bytes: r.encode(),
    });
    // signatures from another entry
    let others = [
        ("sig_from_other_key", Spec::new(base.ns, base.author, b"zz", base.ts, base.val)),
        ("sig_from_other_author", Spec::new(base.ns, 1 - base.author, &base.key, base.ts, base.val)),
        ("sig_from_other_namespace", Spec::new(1, base.author, &base.key, base.ts, base.val)),
        ("sig_from_other_timestamp", Spec::new(base.ns, base.author, &base.key, base.ts + 1, base.val)),
    ];
    for (label, o) in &others {
        let or = RawSigned::of(&o.signed());
        let mut r = raw.clone();
        r.author_sig = or.author_sig;
        r.ns_sig = or.ns_sig;
        v.push(Candidate {
            label: label.to_string(),
            bytes: r.encode(),
        });
        let mut r = raw.clone();
        r.author_sig = or.author_sig;
        v.push(Candidate {
            label: format!("author_{label}"),
            bytes: r.encode(),
        });
        let mut r = raw.clone();
        r.ns_sig = or.ns_sig;
        v.push(Candidate {
            label: format!("namespace_{label}"),
            bytes: r.encode(),
        });
    }
    // validly signed entry of a foreign namespace
    v.push(Candidate {
        label: "foreign_namespace_valid".into(),
        bytes: postcard::to_stdvec(&others[2].1.signed()).unwrap(),
    });
    // namespace signed by the foreign namespace key but claiming our namespace id
    {
        let id = iroh_docs::sync::RecordIdentifier::new(ns_id(0), author(base.author).id(), &base.key);
        let entry = iroh_docs::sync::Entry::new(id, base.record());
        let forged = SignedEntry::from_entry(entry, &ns_secret(1), &author(base.author));
        v.push(Candidate {
            label: "signed_with_foreign_namespace_secret".into(),
            bytes: postcard::to_stdvec(&forged).unwrap(),
        });
    }
    // the mirror image: the identifier names a foreign document (an existing one and one nobody
    // holds), the namespace signature is made with *our* document's secret (a peer with write
    // access to our document can produce this)
    for (label, foreign) in [("foreign_namespace_id_signed_with_our_secret", ns_id(1)), ("unknown_namespace_id_signed_with_our_secret", iroh_docs::NamespaceSecret::from_bytes(&[0xd7; 32]).id())] {
        let id = iroh_docs::sync::RecordIdentifier::new(foreign, author(base.author).id(), &base.key);
        let entry = iroh_docs::sync::Entry::new(id, base.record());
        let forged = SignedEntry::from_entry(entry, &ns_secret(0), &author(base.author));
        v.push(Candidate {
            label: label.into(),
            bytes: postcard::to_stdvec(&forged).unwrap(),
        });
    }
    // record identifiers cut short: no key, no author, half an author, ... (64 bytes are the
    // minimum: namespace id and author id)
    for n in [0usize, 1, 31, 32, 33, 48, 63] {
        let mut r = raw.clone();
        r.id.truncate(n);
        v.push(Candidate {
            label: format!("id_cut_to_{n}_bytes"),
            bytes: r.encode(),
        });
    }
    // ids that are not curve points
    let np = not_a_point();
    let mut r = raw.clone();
    r.id[32..64].copy_from_slice(&np);
    v.push(Candidate {
        label: "author_not_a_point".into(),
        bytes: r.encode(),
    });
    let mut r = raw.clone();
    r.id[0..32].copy_from_slice(&np);
    v.push(Candidate {
        label: "namespace_not_a_point".into(),
        bytes: r.encode(),
    });
    // future bound
    for (label, ts) in [
        ("future_minus_1", NOW + MAX_TIMESTAMP_FUTURE_SHIFT - 1),
        ("future_exact", NOW + MAX_TIMESTAMP_FUTURE_SHIFT),
        ("future_plus_1", NOW + MAX_TIMESTAMP_FUTURE_SHIFT + 1),
        ("far_future", u64::MAX),
    ] {
        let (h, l) = base.val.hash_len();
        let e = SignedEntry::from_parts(
            &ns_secret(base.ns),
            &author(base.author),
            &base.key,
            Record::new(h, l, ts),
        );
        v.push(Candidate {
            label: label.into(),
            bytes: postcard::to_stdvec(&e).unwrap(),
        });
    }
    // emptiness combinations, validly signed
    let xh = *Val::X.hash_len().0.as_bytes();
    for (label, hash, len) in [
        ("empty_hash_len0", EMPTY_HASH, 0u64),
        ("empty_hash_len5", EMPTY_HASH, 5),
        ("nonempty_hash_len0", xh, 0),
        ("nonempty_hash_len5", xh, 5),
    ] {
        let mut r = raw.clone();
        r.hash = hash;
        r.len = len;
        let msg = r.signing_bytes();
        r.author_sig = author(base.author).sign(&msg).to_bytes();
        r.ns_sig = ns_secret(base.ns).sign(&msg).to_bytes();
        v.push(Candidate {
            label: label.into(),
            bytes: r.encode(),
        });
    }
    v
}

/// Independent acceptance predicate over the raw wire fields.
fn acceptable(raw: &RawSigned) -> bool {
    let (Some(ns), Some(au)) = (raw.namespace(), raw.author()) else {
        return false;
    };
    if ns != ns_id(0).to_bytes() {
        return false;
    }
    let (Ok(nk), Ok(ak)) = (iroh::PublicKey::from_bytes(&ns), iroh::PublicKey::from_bytes(&au))
    else {
        return false;
    };
    let msg = raw.signing_bytes();
    if nk
        .verify(&msg, &iroh::Signature::from_bytes(&raw.ns_sig))
        .is_err()
        || ak
            .verify(&msg, &iroh::Signature::from_bytes(&raw.author_sig))
            .is_err()
    {
        return false;
    }
    if raw.ts > NOW + MAX_TIMESTAMP_FUTURE_SHIFT {
        return false;
    }
    (raw.hash == EMPTY_HASH) == (raw.len == 0)
}

#[derive(Debug, Clone, PartialEq, Eq)]
struct Full {
    snap: Snapshot,
    hashes: Vec<[u8; 32]>,
}

fn full(sut: &mut Sut) -> Full {
    let snap = snapshot(sut, ns_id(0));
    let mut hashes: Vec<[u8; 32]> = sut
        .store
        .content_hashes()
        .expect("content_hashes")
        .map(|h| *h.expect("hash").as_bytes())
        .collect();
    hashes.sort();
    Full { snap, hashes }
}

fn drain(rx: &async_channel::Receiver<Event>) -> Vec<SignedEntry> {
    let mut v = vec![];
    while let Ok(ev) = rx.try_recv() {
        match ev {
            Event::RemoteInsert { entry, .. } | Event::LocalInsert { entry, .. } => v.push(entry),
        }
    }
    v
}

/// Direct path. Returns violations.
/// `held`: the untampered original the candidate was derived from is already in the replica (a
/// forgery that reuses signatures the replica has seen before must fare no better than on a
/// replica that has never seen them).
fn present_direct(cand: &SignedEntry, ok: bool, held: Option<&SignedEntry>) -> Vec<(&'static str, String)> {
    let ns = ns_id(0);
    let mut bad = vec![];
    let mut sut = Sut::memory_with(&[0]);
    let mut model = ModelReplica::default();
    for f in fillers().iter().take(2) {
        let _ = sut.remote(ns, f.clone());
        model.put(f);
    }
    if let Some(h) = held {
        let _ = sut.remote(ns, h.clone());
        model.put(h);
    }
    let before = full(&mut sut);
    let (tx, rx) = async_channel::unbounded();
    let res = {
        let mut r = sut.store.open_replica(&ns).expect("open");
        iroh_docs::verif::replica_subscribe(&mut r, tx);
        let res = block_on(r.insert_remote_entry(cand.clone(), PEER, ContentStatus::Missing));
        drop(r);
        sut.store.close_replica(ns);
        res
    };
    let events = drain(&rx);
    let after = full(&mut sut);
    if ok {
        let inserted = matches!(model.put(cand), PutOutcome::Inserted { .. });
        if res.is_ok() != inserted {
            bad.push((
                "valid_entry_accepted",
                format!("insert_remote_entry returned {res:?} for a valid entry"),
            ));
        }
        if after.snap.dump != model.dump() {
            bad.push((
                "valid_entry_stored",
                format!(
                    "impl={} model={}",
                    show_entries(&after.snap.dump),
                    show_entries(&model.dump())
                ),
            ));
        }
        if inserted && events != vec![cand.clone()] {
            bad.push((
                "one_event_for_accepted",
                format!("{} events for one accepted entry", events.len()),
            ));
        }
    } else {
        if res.is_ok() {
            bad.push((
                "invalid_entry_rejected",
                "insert_remote_entry returned Ok for an entry the predicate rejects".to_string(),
            ));
        }
        if after != before {
            bad.push((
                "rejected_leaves_state_unchanged",
                format!(
                    "before={} after={}",
                    show_entries(&before.snap.dump),
                    show_entries(&after.snap.dump)
                ),
            ));
        }
        if !events.is_empty() {
            bad.push((
                "no_event_for_rejected",
                format!("{} events for a rejected entry", events.len()),
            ));
        }
    }
    bad
}

/// A message layout: per part the slot kinds (true = candidate).
fn layouts(max_parts: usize) -> Vec<Vec<Vec<bool>>> {
    let mut out = vec![];
    for nparts in 1..=max_parts {
        // sizes in {1,2}^nparts
        for mask in 0..(1u32 << nparts) {
            let sizes: Vec<usize> = (0..nparts).map(|i| 1 + (mask >> i & 1) as usize).collect();
            let total: usize = sizes.iter().sum();
            for cpos in 0..total {
                let mut l = vec![];
                let mut k = 0;
                for s in &sizes {
                    let mut part = vec![];
                    for _ in 0..*s {
                        part.push(k == cpos);
                        k += 1;
                    }
                    l.push(part);
                }
                out.push(l);
            }
        }
    }
    out
}

/// Assemble the message bytes for a layout; `cand = None` leaves the candidate slot out.
fn assemble(layout: &[Vec<bool>], cand: Option<&[u8]>, have_local: bool) -> (Vec<u8>, Vec<SignedEntry>) {
    let fill = fillers();
    let mut fi = 0;
    let mut used = vec![];
    let x = iroh_docs::sync::RecordIdentifier::default().as_bytes().to_vec();
    let mut parts = vec![];
    for part in layout {
        let mut values = vec![];
        for &is_c in part {
            if is_c {
                if let Some(c) = cand {
                    values.push((c.to_vec(), 2u8));
                }
            } else {
                let f = fill[fi % fill.len()].clone();
                fi += 1;
                values.push((postcard::to_stdvec(&f).unwrap(), 2u8));
                used.push(f);
            }
        }
        parts.push(RawPart::Item {
            x: x.clone(),
            y: x.clone(),
            values,
            have_local,
        });
    }
    (encode_message(&parts), used)
}

fn process(bytes: &[u8]) -> Option<Result<(Full, Vec<SignedEntry>, SyncOutcome), String>> {
    let msg: ProtocolMessage = postcard::from_bytes(bytes).ok()?;
    let ns = ns_id(0);
    let mut sut = Sut::memory_with(&[0]);
    let (tx, rx) = async_channel::unbounded();
    let mut state = SyncOutcome::default();
    let res = {
        let mut r = sut.store.open_replica(&ns).expect("open");
        iroh_docs::verif::replica_subscribe(&mut r, tx);
        let res = block_on(r.sync_process_message(msg, PEER, &mut state));
        drop(r);
        sut.store.close_replica(ns);
        res
    };
    Some(match res {
        Err(e) => Err(format!("{e:#}")),
        Ok(_) => Ok((full(&mut sut), drain(&rx), state)),
    })
}

/// The same message handed to the store actor (`SyncHandle::sync_process_message`), the way a
/// session of a node hands it over: what the actor adds in front of the replica must not change
/// the verdict on any entry, nor keep the rest of the message from being processed.
fn process_via_actor(bytes: &[u8]) -> Option<Result<(Vec<SignedEntry>, Vec<SignedEntry>), String>> {
    use crate::sut::block_on_park;
    use iroh_docs::actor::{OpenOpts, SyncHandle};
    let msg: ProtocolMessage = postcard::from_bytes(bytes).ok()?;
    let ns = ns_id(0);
    let sut = Sut::memory_with(&[0]);
    let h = SyncHandle::spawn(sut.store, None, "c03".into());
    let (tx, rx) = async_channel::unbounded();
    block_on_park(h.open(ns, OpenOpts::default().sync().subscribe(tx))).expect("open");
    let res = block_on_park(h.sync_process_message(ns, msg, PEER, SyncOutcome::default()));
    let out = match res {
        Err(e) => Err(format!("{e:#}")),
        Ok(_) => match block_on_park(crate::sut::handle_dump(&h, ns)) {
            Ok(d) => Ok((d, drain(&rx))),
            Err(e) => Err(format!("dump: {e}")),
        },
    };
    let _ = block_on_park(h.shutdown());
    Some(out)
}

/// The single remote insert through the store actor (`SyncHandle::insert_remote`, what the gossip
/// receive loop calls): verdict, replica content, subscriber events and the node's own count of
/// entries received from peers.
fn present_direct_via_actor(cand: &SignedEntry, ok: bool) -> Vec<(&'static str, String)> {
    use crate::sut::block_on_park;
    use iroh_docs::actor::{OpenOpts, SyncHandle};
    let mut bad = vec![];
    let ns = ns_id(0);
    let sut = Sut::memory_with(&[0]);
    let h = SyncHandle::spawn(sut.store, None, "c03".into());
    let (tx, rx) = async_channel::unbounded();
    block_on_park(h.open(ns, OpenOpts::default().sync().subscribe(tx))).expect("open");
    let before = h.metrics().new_entries_remote.get();
    let res = block_on_park(h.insert_remote(ns, cand.clone(), PEER, ContentStatus::Missing));
    let counted = h.metrics().new_entries_remote.get() - before;
    let dump = block_on_park(crate::sut::handle_dump(&h, ns)).unwrap_or_default();
    let events = drain(&rx);
    if res.is_ok() != ok {
        bad.push(("accepted_iff_predicate", format!("SyncHandle::insert_remote: {} but the predicate says {}", if res.is_ok() { "accepted" } else { "refused" }, if ok { "acceptable" } else { "not acceptable" })));
    }
    let want: Vec<SignedEntry> = if ok { vec![cand.clone()] } else { vec![] };
    if dump != want {
        bad.push((if ok { "valid_entry_stored" } else { "invalid_entry_not_stored" }, format!("through the store actor: the replica holds {}", show_entries(&dump))));
    }
    if events != want {
        bad.push(("events_exactly_for_applied_entries", format!("through the store actor: events={}", show_entries(&events))));
    }
    if counted != want.len() as u64 {
        bad.push(("counted_iff_inserted", format!("through the store actor: the node counts {counted} entries received from peers, {} entered", want.len())));
    }
    let _ = block_on_park(h.shutdown());
    bad
}

fn present_in_message_via_actor(cand_bytes: &[u8], cand: &SignedEntry, ok: bool, layout: &[Vec<bool>]) -> Option<Vec<(&'static str, String)>> {
    let mut bad = vec![];
    let (bytes, _fill) = assemble(layout, Some(cand_bytes), false);
    let (dump, events) = match process_via_actor(&bytes)? {
        Err(e) => return Some(vec![("message_with_candidate_is_processed", format!("SyncHandle::sync_process_message failed: {e}"))]),
        Ok(x) => x,
    };
    let mut expected_events = vec![];
    let mut model = ModelReplica::default();
    let fill = fillers();
    let mut fi = 0;
    for part in layout {
        for &is_c in part {
            let e = if is_c {
                if !ok {
                    continue;
                }
                cand.clone()
            } else {
                let f = fill[fi % fill.len()].clone();
                fi += 1;
                f
            };
            if matches!(model.put(&e), PutOutcome::Inserted { .. }) {
                expected_events.push(e);
            }
        }
    }
    if dump != model.dump() {
        bad.push((if ok { "valid_entry_stored_from_message" } else { "invalid_entry_not_stored_from_message" }, format!("through the store actor: impl={} model={}", show_entries(&dump), show_entries(&model.dump()))));
    }
    if events != expected_events {
        bad.push(("events_exactly_for_applied_entries", format!("through the store actor: events={} expected={}", show_entries(&events), show_entries(&expected_events))));
    }
    Some(bad)
}

fn present_in_message(
    cand_bytes: &[u8],
    cand: &SignedEntry,
    ok: bool,
    layout: &[Vec<bool>],
    have_local: bool,
) -> Option<Vec<(&'static str, String)>> {
    let mut bad = vec![];
    let (bytes, _fill) = assemble(layout, Some(cand_bytes), have_local);
    let with = process(&bytes)?;
    let (with_full, with_events, _st) = match with {
        Err(e) => {
            return Some(vec![(
                "message_with_candidate_is_processed",
                format!("sync_process_message failed: {e}"),
            )])
        }
        Ok(x) => x,
    };
    // expected application order = message order
    let mut expected_events = vec![];
    let mut model = ModelReplica::default();
    let fill = fillers();
    let mut fi = 0;
    for part in layout {
        for &is_c in part {
            let e = if is_c {
                if !ok {
                    continue;
                }
                cand.clone()
            } else {
                let f = fill[fi % fill.len()].clone();
                fi += 1;
                f
            };
            if matches!(model.put(&e), PutOutcome::Inserted { .. }) {
                expected_events.push(e);
            }
        }
    }
    if with_full.snap.dump != model.dump() {
        bad.push((
            if ok {
                "valid_entry_stored_from_message"
            } else {
                "invalid_entry_not_stored_from_message"
            },
            format!(
                "impl={} model={}",
                show_entries(&with_full.snap.dump),
                show_entries(&model.dump())
            ),
        ));
    }
    if with_events != expected_events {
        bad.push((
            "events_exactly_for_applied_entries",
            format!(
                "events={} expected={}",
                show_entries(&with_events),
                show_entries(&expected_events)
            ),
        ));
    }
    if !ok {
        // differential: identical to processing the same message without the candidate
        let (bytes2, _) = assemble(layout, None, have_local);
        if let Some(Ok((without_full, _, _))) = process(&bytes2) {
            if without_full != with_full {
                bad.push((
                    "rejected_leaves_indexes_unchanged",
                    "state after the message differs from the state after the same message without the rejected entry (records / by-key / heads / content hashes)".to_string(),
                ));
            }
        }
    }
    Some(bad)
}

fn check_candidate(
    c: &Candidate,
    base: &Spec,
    lays: &[Vec<Vec<bool>>],
    report: &mut Report,
    ordinal: u64,
) {
    set_clock(NOW);
    let case = |path: &str, layout: Option<&Vec<Vec<bool>>>, have_local: bool| {
        json!({"base": base, "label": c.label, "bytes": hex::encode(&c.bytes), "path": path, "layout": layout, "have_local": have_local})
    };
    let decoded: Option<SignedEntry> = postcard::from_bytes(&c.bytes).ok();
    let raw = RawSigned::parse(&c.bytes).map(|x| x.0);
    report.evaluations += 1;
    let Some(cand) = decoded else {
        report.count("undecodable_candidates", 1);
        return;
    };
    let Some(raw) = raw else {
        report.machinery_error(format!(
            "candidate {} decodes in the crate but not in the mirror layout",
            c.label
        ));
        return;
    };
    let ok = acceptable(&raw);
    report.count(if ok { "acceptable" } else { "unacceptable" }, 1);
    if c.label != "unmodified" {
        report.nontrivial += 1;
    }
    let wit = |path: &str| {
        json!({"path": path, "class": classify(&c.label), "id_shorter_than_64": raw.id.len() < 64, "predicate": ok})
    };
    // (a) direct
    report.count("presentations", 1);
    let _watch = crate::util::watch::enter("candidate as a single remote insert", case("direct", None, false));
    match catch(|| present_direct(&cand, ok, None)) {
        Err(p) => report.violation(
            "no_panic",
            wit("direct"),
            case("direct", None, false),
            format!("panic in insert_remote_entry: {p}"),
            ordinal,
        ),
        Ok(bad) => {
            for (o, d) in bad {
                report.violation(o, wit("direct"), case("direct", None, false), format!("{}: {d}", c.label), ordinal);
            }
        }
    }
    // (a') direct, to a replica that already holds the untampered original
    report.count("presentations", 1);
    let original = base.signed();
    match catch(|| present_direct(&cand, ok, Some(&original))) {
        Err(p) => report.violation(
            "no_panic",
            wit("direct, original held"),
            case("direct_held", None, false),
            format!("panic in insert_remote_entry: {p}"),
            ordinal,
        ),
        Ok(bad) => {
            for (o, d) in bad {
                report.violation(o, wit("direct, original held"), case("direct_held", None, false), format!("{} (the replica already holds the original): {d}", c.label), ordinal);
            }
        }
    }
    // (b) in a message
    for (li, l) in lays.iter().enumerate() {
        let have_local = li % 2 == 0;
        report.count("presentations", 1);
        let canonical = raw.encode();
        let _watch = crate::util::watch::enter("candidate inside a reconciliation message", case("message", Some(l), have_local));
        match catch(|| present_in_message(&canonical, &cand, ok, l, have_local)) {
            Err(p) => report.violation(
                "no_panic",
                wit("message"),
                case("message", Some(l), have_local),
                format!("panic in sync_process_message: {p}"),
                ordinal,
            ),
            Ok(None) => report.count("undecodable_messages", 1),
            Ok(Some(bad)) => {
                for (o, d) in bad {
                    report.violation(
                        o,
                        wit("message"),
                        case("message", Some(l), have_local),
                        format!("{}: {d}", c.label),
                        ordinal,
                    );
                }
            }
        }
    }
    // (c) the same through the store actor, for the first layout that puts the candidate between
    // two valid entries (byte alterations: every 5th position)
    let thinned = c.label.strip_prefix("byte").and_then(|r| r.split(':').next()).and_then(|p| p.parse::<usize>().ok()).map(|p| p % 5 != 0).unwrap_or(false);
    if !thinned {
        if let Some(l) = lays.iter().find(|l| l.iter().map(|p| p.len()).sum::<usize>() >= 3 && l.iter().flatten().filter(|c| **c).count() == 1 && !l[0][0] && !*l.last().unwrap().last().unwrap()) {
            report.count("presentations", 2);
            report.count("presentations_through_the_store_actor", 2);
            match catch(|| present_direct_via_actor(&cand, ok)) {
                Err(p) => report.violation("no_panic", wit("direct via actor"), case("direct_actor", None, false), format!("panic: {p}"), ordinal),
                Ok(bad) => {
                    for (o, d) in bad {
                        report.violation(o, wit("direct via actor"), case("direct_actor", None, false), format!("{}: {d}", c.label), ordinal);
                    }
                }
            }
            let canonical = raw.encode();
            let _watch = crate::util::watch::enter("candidate inside a reconciliation message, through the store actor", case("message_actor", Some(l), false));
            match catch(|| present_in_message_via_actor(&canonical, &cand, ok, l)) {
                Err(p) => report.violation("no_panic", wit("message via actor"), case("message_actor", Some(l), false), format!("panic: {p}"), ordinal),
                Ok(None) => {}
                Ok(Some(bad)) => {
                    for (o, d) in bad {
                        report.violation(o, wit("message via actor"), case("message_actor", Some(l), false), format!("{}: {d}", c.label), ordinal);
                    }
                }
            }
        }
    }
    report.outcome(format!("{}:{}", classify(&c.label), ok));
}

fn classify(label: &str) -> String {
    if label.starts_with("byte") {
        "byte_tamper".to_string()
    } else {
        label.to_string()
    }
}

// ---------------------------------------------------------------------------------------
// Family G: the single remote insert as it happens in a deployed node — a hostile gossip
// neighbour. A real node (Docs engine, gossip receive loop, store actor) syncs the document; a
// second endpoint of the harness joins the document's gossip topic as its neighbour and
// broadcasts, as `Put` operations, the candidates of the tamper alphabet (those that decode),
// each followed by a validly signed probe entry. When the probe has entered the node's replica
// the candidate before it has been dealt with: the replica must hold it exactly when the
// acceptance predicate allows it (and it is not superseded), and a subscriber of the docs API
// must have been told about exactly the entries that entered.
// ---------------------------------------------------------------------------------------

type Row = ([u8; 32], Vec<u8>, u64, [u8; 32], u64);

fn row_of(e: &SignedEntry) -> Row {
    (e.author().to_bytes(), e.key().to_vec(), e.timestamp(), *e.content_hash().as_bytes(), e.content_len())
}

fn put_op(entry_bytes: &[u8]) -> bytes::Bytes {
    // postcard: enum variant 0 (`Op::Put`) followed by the signed entry
    let mut v = vec![0u8];
    v.extend_from_slice(entry_bytes);
    v.into()
}

async fn gossip_cases(cands: &[(Spec, Candidate)]) -> anyhow::Result<Vec<(usize, &'static str, String)>> {
    use iroh::endpoint::presets;
    use n0_future::StreamExt;
    let mut bad = vec![];
    set_clock(NOW);
    let node = super::live::live_node(0x61).await?;
    let api = node.docs.api();
    let doc = api.import_namespace(iroh_docs::Capability::Write(ns_secret(0))).await?;
    doc.start_sync(vec![]).await?;
    // what a subscriber of the docs API is told
    let told: std::sync::Arc<std::sync::Mutex<Vec<Row>>> = Default::default();
    let told2 = told.clone();
    let mut events = doc.subscribe().await?;
    let listener = tokio::spawn(async move {
        while let Some(ev) = events.next().await {
            if let Ok(iroh_docs::engine::LiveEvent::InsertRemote { entry, .. }) = ev {
                told2.lock().unwrap().push((entry.author().to_bytes(), entry.key().to_vec(), entry.timestamp(), *entry.content_hash().as_bytes(), entry.content_len()));
            }
        }
    });
    // the hostile neighbour
    let ep = iroh::Endpoint::builder(presets::Minimal).secret_key(iroh::SecretKey::from_bytes(&[0x62; 32])).bind().await.map_err(|e| anyhow::anyhow!("bind: {e}"))?;
    let lookup = iroh::address_lookup::memory::MemoryLookup::new();
    ep.address_lookup().map_err(|e| anyhow::anyhow!("lookup: {e}"))?.add(lookup.clone());
    lookup.add_endpoint_info(node.router.endpoint().addr());
    let gossip = iroh_gossip::net::Gossip::builder().spawn(ep.clone());
    let router = iroh::protocol::Router::builder(ep.clone()).accept(iroh_gossip::ALPN, gossip.clone()).spawn();
    let topic = gossip
        .subscribe_with_opts(ns_id(0).into(), iroh_gossip::api::JoinOptions::with_bootstrap(vec![node.router.endpoint().id()]))
        .await
        .map_err(|e| anyhow::anyhow!("subscribe: {e}"))?;
    let (sender, mut receiver) = topic.split();
    tokio::time::timeout(std::time::Duration::from_secs(90), receiver.joined()).await.map_err(|_| anyhow::anyhow!("the hostile endpoint did not become a gossip neighbour within 90 s"))?.map_err(|e| anyhow::anyhow!("joined: {e}"))?;
    let drain = tokio::spawn(async move { while receiver.next().await.is_some() {} });
    let probe_author = iroh_docs::Author::from_bytes(&[0x77; 32]);
    let mut model = crate::refmodel::ModelReplica::default();
    let mut expected_told: Vec<Row> = vec![];
    let dump = |doc: iroh_docs::api::Doc| async move {
        let st = doc.get_many(iroh_docs::store::Query::all().include_empty()).await.map_err(|e| format!("{e:#}"))?;
        tokio::pin!(st);
        let mut out = vec![];
        while let Some(item) = st.next().await {
            let e = item.map_err(|e| format!("{e:#}"))?;
            out.push((e.author().to_bytes(), e.key().to_vec(), e.timestamp(), *e.content_hash().as_bytes(), e.content_len()));
        }
        Ok::<Vec<Row>, String>(out)
    };
    for (i, (_base, c)) in cands.iter().enumerate() {
        let Ok(cand) = postcard::from_bytes::<SignedEntry>(&c.bytes) else { continue };
        let Some((raw, _)) = RawSigned::parse(&c.bytes) else { continue };
        let ok = acceptable(&raw);
        let enters = ok && matches!(model.put(&cand), crate::refmodel::PutOutcome::Inserted { .. });
        if enters {
            expected_told.push(row_of(&cand));
        }
        sender.broadcast(put_op(&c.bytes)).await.map_err(|e| anyhow::anyhow!("broadcast: {e}"))?;
        let probe_key = format!("probe{i:05}");
        let (h, l) = Val::X.hash_len();
        let probe = SignedEntry::from_parts(&ns_secret(0), &probe_author, probe_key.as_bytes(), Record::new(h, l, T0 + 1));
        sender.broadcast(put_op(&postcard::to_stdvec(&probe).unwrap())).await.map_err(|e| anyhow::anyhow!("broadcast: {e}"))?;
        // wait for the probe
        let start = std::time::Instant::now();
        let mut arrived = false;
        while start.elapsed() < std::time::Duration::from_secs(45) {
            match doc.get_exact(probe_author.id(), probe_key.as_bytes(), false).await {
                Ok(Some(_)) => {
                    arrived = true;
                    break;
                }
                Ok(None) => tokio::time::sleep(std::time::Duration::from_millis(2)).await,
                Err(e) => {
                    bad.push((i, "node_survives_forged_entry", format!("after the gossip neighbour sent candidate {}: the node's document no longer answers: {e:#}", c.label)));
                    break;
                }
            }
        }
        if !arrived {
            bad.push((i, "forged_entry_does_not_stop_reception", format!("after the gossip neighbour sent candidate {} (predicate: {}), a validly signed entry sent next never entered the replica (45 s)", c.label, if ok { "acceptable" } else { "not acceptable" })));
            break;
        }
        // the replica (without the probes)
        match dump(doc.clone()).await {
            Ok(rows) => {
                let got: Vec<Row> = rows.into_iter().filter(|r| r.0 != probe_author.id().to_bytes()).collect();
                let want: Vec<Row> = model.dump().iter().map(row_of).collect();
                if got != want {
                    bad.push((i, "accepted_iff_predicate", format!("gossip neighbour sent candidate {} (predicate: {}): the replica holds {} entries {:?}, the reference {} {:?}", c.label, if ok { "acceptable" } else { "not acceptable" }, got.len(), got.iter().map(|r| (String::from_utf8_lossy(&r.1).to_string(), r.2 as i64 - T0 as i64)).collect::<Vec<_>>(), want.len(), want.iter().map(|r| (String::from_utf8_lossy(&r.1).to_string(), r.2 as i64 - T0 as i64)).collect::<Vec<_>>())));
                    // resynchronise the reference so that one defect is reported once per candidate
                    break;
                }
            }
            Err(e) => bad.push((i, "node_survives_forged_entry", format!("dump: {e}"))),
        }
    }
    // events: exactly the entries that entered, in order (probes left out)
    tokio::time::sleep(std::time::Duration::from_millis(100)).await;
    let told_rows: Vec<Row> = told.lock().unwrap().iter().filter(|r| r.0 != probe_author.id().to_bytes()).cloned().collect();
    if bad.is_empty() && told_rows != expected_told {
        let surplus: Vec<_> = told_rows.iter().filter(|r| !expected_told.contains(r)).map(|r| (hex::encode(&r.0[..2]), String::from_utf8_lossy(&r.1).to_string())).collect();
        bad.push((usize::MAX, "rejected_entry_produces_no_event", format!("a subscriber of the docs API was told about {} remote entries, {} entered the replica; announced without having entered: {:?}", told_rows.len(), expected_told.len(), surplus)));
    }
    listener.abort();
    drain.abort();
    let _ = doc.leave().await;
    let _ = tokio::time::timeout(std::time::Duration::from_secs(5), router.shutdown()).await;
    let _ = tokio::time::timeout(std::time::Duration::from_secs(5), node.router.shutdown()).await;
    Ok(bad)
}

fn gossip_share(ctx: &Ctx) -> Vec<(Spec, Candidate)> {
    let mut out = vec![];
    let mut ordinal = 1u64 << 43;
    for base in bases(ctx.tier) {
        for c in candidates(&base) {
            // the byte alterations are thinned (every 5th position, quick: every 11th)
            if let Some(rest) = c.label.strip_prefix("byte") {
                let pos: usize = rest.split(':').next().and_then(|p| p.parse().ok()).unwrap_or(0);
                if pos % (if ctx.quick() { 11 } else { 5 }) != 0 {
                    continue;
                }
            }
            ordinal += 1;
            if ctx.mine(ordinal) {
                out.push((base.clone(), c));
            }
        }
    }
    out
}

fn run_gossip_family(ctx: &Ctx, report: &mut Report) {
    let share = gossip_share(ctx);
    if share.is_empty() {
        return;
    }
    let rt = super::live::runtime();
    let res = rt.block_on(gossip_cases(&share));
    drop(rt);
    match res {
        Err(e) => report.machinery_error(format!("gossip family: {e:#}")),
        Ok(bad) => {
            report.evaluations += share.len() as u64;
            report.count("candidates_sent_by_a_gossip_neighbour", share.len() as u64);
            for (i, o, d) in bad {
                let labels: Vec<String> = share.iter().map(|(_, c)| c.label.clone()).collect();
                let case = json!({"gossip": {"shard": ctx.shard, "of": ctx.of, "quick": ctx.quick(), "first_bad": if i == usize::MAX { Value::Null } else { json!(labels[i]) }}});
                report.violation(o, json!({"path": "gossip"}), case, d, 1 << 43);
            }
        }
    }
}

/// The future bound against the machine's own clock (every other family pins the clock through
/// the hook): entries stamped now + 10 min - 5 s are accepted, now + 10 min + 5 s are not, on both
/// ingress paths; and a local write is stamped with the machine's time.
fn real_clock_bound() -> Vec<(&'static str, String)> {
    let mut bad = vec![];
    iroh_docs::verif::set_clock_micros(None);
    let now = || std::time::SystemTime::now().duration_since(std::time::UNIX_EPOCH).unwrap().as_micros() as u64;
    let (h, l) = Val::X.hash_len();
    for (label, offset, want_ok) in [("ten minutes minus five seconds ahead", MAX_TIMESTAMP_FUTURE_SHIFT as i64 - 5_000_000, true), ("ten minutes plus five seconds ahead", MAX_TIMESTAMP_FUTURE_SHIFT as i64 + 5_000_000, false), ("an hour ago", -3_600_000_000i64, true)] {
        let ts = (now() as i64 + offset) as u64;
        let e = SignedEntry::from_parts(&ns_secret(0), &author(0), format!("rc{offset}").as_bytes(), Record::new(h, l, ts));
        // single remote insert
        let mut sut = Sut::memory_with(&[0]);
        let got = sut.remote(ns_id(0), e.clone());
        let ok = matches!(got, crate::sut::Outcome::Inserted(_));
        if ok != want_ok {
            bad.push(("future_bound_against_the_real_clock", format!("single remote insert of an entry stamped {label} of the machine's clock: {got:?}")));
        }
        // inside a message
        let x = iroh_docs::sync::RecordIdentifier::default().as_bytes().to_vec();
        let msg = encode_message(&[RawPart::Item { x: x.clone(), y: x, values: vec![(postcard::to_stdvec(&e).unwrap(), 2u8)], have_local: true }]);
        if let Some(Ok((full, _, _))) = process(&msg) {
            let held = full.snap.dump.contains(&e);
            if held != want_ok {
                bad.push(("future_bound_against_the_real_clock", format!("reconciliation message carrying an entry stamped {label} of the machine's clock: stored = {held}")));
            }
        }
    }
    // a local write carries the machine's time
    {
        let mut sut = Sut::memory_with(&[0]);
        sut.store.import_author(author(0)).expect("author");
        let before = now();
        let _ = sut.local_insert(ns_id(0), &author(0), b"local", Val::X);
        let after = now();
        match sut.dump(ns_id(0)).first().map(|e| e.timestamp()) {
            Some(t) if t >= before && t <= after => {}
            other => bad.push(("local_write_is_stamped_with_the_clock", format!("local write between {before} and {after} (microseconds of the machine's clock) is stamped {other:?}"))),
        }
    }
    set_clock(NOW);
    bad
}

fn run(ctx: &Ctx, report: &mut Report) {
    crate::util::silence_panics();
    if ctx.shard == 9 % ctx.of {
        report.evaluations += 7;
        report.count("real_clock_cases", 7);
        let case = json!({"real_clock": true});
        match catch(real_clock_bound) {
            Err(p) => {
                set_clock(NOW);
                report.violation("no_panic", json!({"real_clock": true}), case, format!("panic: {p}"), 0)
            }
            Ok(bad) => {
                for (o, d) in bad {
                    report.violation(o, json!({"real_clock": true}), case.clone(), d, 0);
                }
            }
        }
    }
    run_gossip_family(ctx, report);
    let lays = layouts(if ctx.quick() { 2 } else { 3 });
    report.fact("layouts", json!(lays.len()));
    let mut ordinal = 0u64;
    for base in bases(ctx.tier) {
        for c in candidates(&base) {
            ordinal += 1;
            if !ctx.mine(ordinal) {
                continue;
            }
            check_candidate(&c, &base, &lays, report, ordinal);
            if c.label == "byte130:xor01" || c.label == "empty_hash_len5" {
                report.sample(|| json!({"base": base.to_string(), "candidate": c.label, "bytes": hex::encode(&c.bytes), "presentations": 1 + lays.len()}));
            }
        }
    }
    let _ = T0;
}

fn replay(case: &Value) -> anyhow::Result<(bool, String)> {
    set_clock(NOW);
    if case.get("real_clock").is_some() {
        return match catch(real_clock_bound) {
            Err(p) => Ok((true, format!("panic: {p}"))),
            Ok(bad) => {
                let names: std::collections::BTreeSet<&str> = bad.iter().map(|(o, _)| *o).collect();
                for (o, d) in &bad {
                    eprintln!("detail: {o}: {d}");
                }
                Ok((!bad.is_empty(), format!("the machine's own clock\n{}", names.iter().map(|o| format!("FAILED {o}\n")).collect::<String>())))
            }
        };
    }
    if let Some(g) = case.get("gossip") {
        let ctx = Ctx { tier: if g["quick"].as_bool().unwrap_or(true) { Tier::Quick } else { Tier::Thorough }, shard: g["shard"].as_u64().unwrap_or(0), of: g["of"].as_u64().unwrap_or(16), seed: 0 };
        let share = gossip_share(&ctx);
        let rt = super::live::runtime();
        let bad = rt.block_on(gossip_cases(&share))?;
        drop(rt);
        let names: std::collections::BTreeSet<&str> = bad.iter().map(|(_, o, _)| *o).collect();
        for (_, o, d) in &bad {
            eprintln!("detail: {o}: {d}");
        }
        let out: String = names.iter().map(|o| format!("FAILED {o}\n")).collect();
        return Ok((!bad.is_empty(), format!("hostile gossip neighbour, {} candidates\n{out}", share.len())));
    }
    let bytes = hex::decode(case["bytes"].as_str().unwrap_or(""))?;
    let path = case["path"].as_str().unwrap_or("direct");
    let cand: SignedEntry = postcard::from_bytes(&bytes)?;
    let raw = RawSigned::parse(&bytes)
        .ok_or_else(|| anyhow::anyhow!("mirror parse"))?
        .0;
    let ok = acceptable(&raw);
    let mut out = format!(
        "candidate {} predicate={ok} id_len={}\n",
        case["label"], raw.id.len()
    );
    let res = if path == "direct" {
        catch(|| present_direct(&cand, ok, None))
    } else if path == "direct_held" {
        let base: Spec = serde_json::from_value(case["base"].clone())?;
        let original = base.signed();
        catch(|| present_direct(&cand, ok, Some(&original)))
    } else if path == "direct_actor" {
        catch(|| present_direct_via_actor(&cand, ok))
    } else if path == "message_actor" {
        let layout: Vec<Vec<bool>> = serde_json::from_value(case["layout"].clone())?;
        catch(|| present_in_message_via_actor(&bytes, &cand, ok, &layout).unwrap_or_default())
    } else {
        let layout: Vec<Vec<bool>> = serde_json::from_value(case["layout"].clone())?;
        let have_local = case["have_local"].as_bool().unwrap_or(true);
        catch(|| present_in_message(&bytes, &cand, ok, &layout, have_local).unwrap_or_default())
    };
    match res {
        Err(p) => {
            out.push_str(&format!("panic: {p}\n"));
            Ok((true, out))
        }
        Ok(bad) => {
            for (o, d) in &bad {
                out.push_str(&format!("FAILED {o}: {d}\n"));
            }
            Ok((!bad.is_empty(), out))
        }
    }
}
