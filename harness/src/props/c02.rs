//! C02 — replica state is an order-independent function of the entries offered.

use serde_json::{json, Value};

use super::common::*;
use crate::{
    refmodel::ModelReplica,
    report::Report,
    sut::{Outcome, Sut},
    universe::{ns_id, show_entries, universe, Spec, Val, K5, K7, K9},
    util::{catch, fnv, for_each_sequence},
    Ctx, PropDef, Tier,
};

pub fn def() -> PropDef {
    PropDef {
        id: "C02",
        level: "model_checking",
        rule: "life cycle: every sequence of <= 3 (thorough 4) steps over an 18-entry universe plus {remove and re-create the document, ask every question the explorer asks at the end} that contains one of the two; every sequence (with repetition) of length <= d of (ingress path, entry) steps over the entry universe, each applied to a fresh real replica pre-populated with three bystander entries of a second author; after the last step the full observable state is compared with the reference model and with the from-scratch definition spec(set(sequence)); a further family N places raw entries of four author ids that are byte-order neighbours of a writer whose id ends in 0xFF (just below, at the exact end of its key space, inside the range a lost carry would cover, and beyond) and runs every sequence of <= 2 writes of that writer over keys {'', 0xFF, a} x 2 timestamps x {x, y, DEL} on both ingress paths: the neighbours' entries must be untouched and the removed counts must equal the model; non-trivial = the sequence contains two steps of the same author whose keys are prefix-related (incl. equal)",
        assumptions: &[
            "entries differing only in `len` (same hash and timestamp) are outside the alphabet",
            "ed25519 signing is deterministic, so a local insert with the pinned clock yields byte-identical entries to the pre-signed remote entry",
            "ties between an entry and an equal-valued entry at a strict prefix go to the prefix (the only order-independent reading of the statement)",
        ],
        bound: |t| match t {
            Tier::Quick => json!({"families": ["U45(A1,K5,ts1..3,x|y|DEL) depth<=3 remote path", "U45 depth<=2 all path assignments {remote,local}", "U30(A1,{a\\xff\\xff,a\\xff,b,b\\x00,a},ts1..2) depth<=3 remote path"]}),
            Tier::Thorough => json!({"families": ["U24(A1,{'',a,ab,b},ts1..2) depth<=4 remote", "U63(A1,K7,ts1..3) depth<=3 all path assignments", "U45 depth<=3 all path assignments"]}),
        },
        run,
        replay,
        shards: |_| 16,
    }
}

fn bystanders() -> Vec<Spec> {
    vec![
        Spec::new(0, 1, b"a", 2, Val::X),
        Spec::new(0, 1, b"ab", 3, Val::Y),
        Spec::new(0, 1, b"b", 1, Val::Del),
    ]
}

struct Family {
    universe: Vec<Spec>,
    max_depth: usize,
    all_paths: bool,
}

fn families(tier: Tier) -> Vec<Family> {
    match tier {
        Tier::Quick => vec![
            Family {
                universe: universe(0, &[0], &K5, 3),
                max_depth: 3,
                all_paths: false,
            },
            Family {
                universe: universe(0, &[0], &K5, 3),
                max_depth: 2,
                all_paths: true,
            },
            // runs of 0xFF bytes and their lexical neighbours
            Family {
                universe: universe(0, &[0], &[b"a\xff\xff", b"a\xff", b"b", b"b\x00", b"a"], 2),
                max_depth: 3,
                all_paths: false,
            },
        ],
        Tier::Thorough => vec![
            Family {
                universe: universe(0, &[0], &[b"a\xff\xff", b"a\xff", b"b", b"b\x00", b"a", b"a\xff\xff\xff"], 2),
                max_depth: 3,
                all_paths: true,
            },
            Family {
                universe: universe(0, &[0], &[b"", b"a", b"ab", b"b"], 2),
                max_depth: 4,
                all_paths: false,
            },
            Family {
                universe: universe(0, &[0], &K7, 3),
                max_depth: 3,
                all_paths: true,
            },
            Family {
                universe: universe(0, &[0], &K5, 3),
                max_depth: 3,
                all_paths: true,
            },
        ],
    }
}

/// Execute one path; returns violations as (oracle, witness, detail) and an outcome rendering.
pub fn run_path(pre: &[Spec], steps: &[Step]) -> (Vec<(&'static str, Value, String)>, String) {
    let mut bad: Vec<(&'static str, Value, String)> = vec![];
    let mut sut = Sut::memory_with(&[0]);
    let mut model = ModelReplica::default();
    let ns = ns_id(0);
    let mut offered = vec![];
    for p in pre {
        let got = apply(
            &mut sut,
            &Step {
                path: Path::R,
                spec: p.clone(),
            },
        );
        let want = model_outcome(&mut model, p);
        offered.push(p.signed());
        if got != want {
            bad.push((
                "return_value",
                json!({"phase": "pre"}),
                format!("pre step {p}: impl={got:?} model={want:?}"),
            ));
        }
    }
    let mut outcomes = vec![];
    let n = steps.len();
    for (i, st) in steps.iter().enumerate() {
        let last = i + 1 == n;
        let before = if last { Some(snapshot(&mut sut, ns)) } else { None };
        let got = apply(&mut sut, st);
        if matches!(st.path, Path::X | Path::Q) {
            if st.path == Path::X {
                // everything offered so far is gone with the removed document
                model = ModelReplica::default();
                offered.clear();
            }
            if got != Outcome::Inserted(0) {
                bad.push(("life_cycle_step_ok", json!({"path": st.path}), format!("step {i} {st}: {got:?}")));
            }
            outcomes.push(got);
            continue;
        }
        let want = model_outcome(&mut model, &st.spec);
        offered.push(st.spec.signed());
        if got != want {
            bad.push((
                "return_value",
                json!({"path": st.path, "impl": outcome_kind(&got), "model": outcome_kind(&want)}),
                format!("step {i} {st}: impl={got:?} model={want:?}"),
            ));
        }
        if last && matches!(got, Outcome::Newer) {
            let after = snapshot(&mut sut, ns);
            if Some(&after) != before.as_ref() {
                bad.push((
                    "rejected_changes_nothing",
                    json!({"path": st.path}),
                    format!(
                        "step {i} {st} was rejected but state changed: before={} after={}",
                        show_entries(&before.unwrap().dump),
                        show_entries(&after.dump)
                    ),
                ));
            }
        }
        outcomes.push(got);
    }
    // full state vs incremental model
    for (oracle, detail) in check_state(&mut sut, 0, &model, &K9, &[0, 1]) {
        bad.push((oracle, json!({}), detail));
    }
    // order independence: state == spec(set(offered))
    let spec = ModelReplica::spec(&offered);
    let dump = sut.dump(ns);
    if dump != spec.dump() {
        bad.push((
            "state_is_function_of_offered_set",
            json!({}),
            format!(
                "impl={} spec(set)={}",
                show_entries(&dump),
                show_entries(&spec.dump())
            ),
        ));
    }
    if spec != model {
        bad.push((
            "MACHINERY_model_incremental_vs_spec",
            json!({}),
            format!(
                "incremental={} spec={}",
                show_entries(&model.dump()),
                show_entries(&spec.dump())
            ),
        ));
    }
    let rendering = format!("{:?}|{}", outcomes, show_entries(&dump));
    (bad, rendering)
}

// ------------------------------------------------------------------------------------------
// Family N: authors whose ids are neighbours in byte order. The writer's id ends in 0xFF; raw
// entries (below the validation layer, hook `raw_entry_put`) of author ids just below it, at
// the exact exclusive end of its key space (.., k+1, 0x00) and inside the range a lost carry
// would wrongly cover (.., k+1, 0x80) are present. "Never touches another author's entries."

pub(crate) fn neighbour_ids() -> Vec<[u8; 32]> {
    let w = crate::universe::author_id(crate::universe::EDGE_AUTHOR).to_bytes();
    let mut below = w;
    below[31] = 0xfe;
    let mut end = w;
    end[30] += 1;
    end[31] = 0x00;
    let mut gap = end;
    gap[31] = 0x80;
    let mut far = end;
    far[31] = 0xff;
    vec![below, end, gap, far]
}

pub(crate) fn neighbour_entries() -> Vec<iroh_docs::sync::SignedEntry> {
    let mut v = vec![];
    for (i, a) in neighbour_ids().iter().enumerate() {
        // keys without prefix relations among them (raw entries bypass the admission rule)
        for key in [&b"a"[..], b"b", b"\xff"] {
            let (h, l) = Val::X.hash_len();
            let mut id = ns_id(0).to_bytes().to_vec();
            id.extend_from_slice(a);
            id.extend_from_slice(key);
            v.push(
                crate::mirror::RawSigned {
                    author_sig: [i as u8 + 1; 64],
                    ns_sig: [0x77; 64],
                    id,
                    len: l,
                    hash: *h.as_bytes(),
                    ts: crate::universe::T0 + 1,
                }
                .to_signed()
                .expect("decodes"),
            );
        }
    }
    v
}

fn edge_universe() -> Vec<Spec> {
    universe(0, &[crate::universe::EDGE_AUTHOR], &[b"", b"\xff", b"a"], 2)
}

fn run_neighbours(steps: &[Step]) -> (Vec<(&'static str, Value, String)>, String) {
    set_clock(crate::universe::NOW);
    let mut bad = vec![];
    let ns = ns_id(0);
    let mut sut = Sut::memory_with(&[0]);
    let mut model = ModelReplica::default();
    let neighbours = neighbour_entries();
    for e in &neighbours {
        iroh_docs::verif::raw_entry_put(&mut sut.store, ns, e.clone()).expect("raw put");
        model.put(e);
    }
    if sut.dump(ns) != model.dump() {
        bad.push(("MACHINERY_neighbours_in_place", json!({}), "raw neighbour entries are not all present".to_string()));
    }
    let mut outcomes = vec![];
    for (i, st) in steps.iter().enumerate() {
        let got = apply(&mut sut, st);
        let want = model_outcome(&mut model, &st.spec);
        if got != want {
            bad.push((
                "return_value",
                json!({"path": st.path, "impl": outcome_kind(&got), "model": outcome_kind(&want), "neighbour_authors": true}),
                format!("step {i} {st} (author id ends in 0xFF): impl={got:?} model={want:?}"),
            ));
        }
        outcomes.push(got);
    }
    let dump = sut.dump(ns);
    let theirs = |v: &[iroh_docs::sync::SignedEntry]| -> Vec<iroh_docs::sync::SignedEntry> {
        v.iter().filter(|e| e.author() != crate::universe::author_id(crate::universe::EDGE_AUTHOR)).cloned().collect()
    };
    if theirs(&dump) != neighbours {
        bad.push((
            "other_authors_untouched",
            json!({"neighbour_authors": true}),
            format!("{} of the {} entries of the neighbouring author ids are left", theirs(&dump).len(), neighbours.len()),
        ));
    }
    if dump != model.dump() {
        bad.push((
            "state_equals_model",
            json!({"neighbour_authors": true}),
            format!("impl holds {} entries, model {}", dump.len(), model.dump().len()),
        ));
    }
    (bad, format!("{outcomes:?}|{}", dump.len()))
}

fn one_neighbours(report: &mut Report, steps: &[Step], ordinal: u64) {
    report.evaluations += 1;
    report.traces += 1;
    report.transitions += steps.len() as u64;
    // non-trivial: a write at a key that is a prefix of every key of the author (the empty key)
    // or consists of 0xFF bytes only: its pruning range ends at the end of the author's key space
    let nontrivial = steps.iter().any(|s| s.spec.key.iter().all(|b| *b == 0xff));
    if nontrivial {
        report.nontrivial += 1;
    }
    let case = json!({"family": "neighbour_authors", "steps": steps});
    match catch(|| run_neighbours(steps)) {
        Err(p) => report.violation("no_panic", json!({"neighbour_authors": true}), case, format!("panic: {p}"), ordinal),
        Ok((bad, rendering)) => {
            report.outcome(format!("N:{rendering}"));
            for (oracle, witness, detail) in bad {
                if oracle.starts_with("MACHINERY") {
                    report.machinery_error(format!("{oracle}: {detail}"));
                } else {
                    report.violation(oracle, witness, case.clone(), detail, ordinal);
                }
            }
        }
    }
}

fn outcome_kind(o: &Outcome) -> &'static str {
    match o {
        Outcome::Inserted(_) => "inserted",
        Outcome::Newer => "newer",
        Outcome::EntryIsEmpty => "empty",
        Outcome::ReadOnly => "readonly",
        Outcome::Closed => "closed",
        Outcome::Invalid(_) => "invalid",
        Outcome::StoreError(_) => "store_error",
    }
}

fn run(ctx: &Ctx, report: &mut Report) {
    crate::util::silence_panics();
    // through the docs API of a real Engine: what `Doc::del` reports and what the document holds
    super::apifam::run_life_family(ctx, report, "C02");
    let pre = bystanders();
    let mut ordinal = 0u64;
    for fam in families(ctx.tier) {
        let u = &fam.universe;
        for depth in 1..=fam.max_depth {
            let npaths: u32 = if fam.all_paths { 1 << depth } else { 1 };
            for_each_sequence(u.len(), depth, |seq| {
                for mask in 0..npaths {
                    ordinal += 1;
                    if !ctx.mine(ordinal) {
                        continue;
                    }
                    let steps: Vec<Step> = seq
                        .iter()
                        .enumerate()
                        .map(|(i, &x)| Step {
                            path: if mask >> i & 1 == 1 { Path::L } else { Path::R },
                            spec: u[x].clone(),
                        })
                        .collect();
                    one(report, &pre, &steps, ordinal);
                }
            });
        }
    }
    run_family_n(ctx, report, &mut ordinal);
    // one insert that supersedes more than a thousand entries (count reported, nothing else
    // touched), followed by a late child that must stay out
    {
        let mut big_pre = pre.clone();
        for i in 0..1100u32 {
            big_pre.push(Spec::new(0, 0, format!("a{i:04}").as_bytes(), 1, Val::X));
        }
        for key in [&b"a"[..], &b""[..], &b"a0"[..]] {
            for val in [Val::X, Val::Y, Val::Del] {
                for ts in [1u64, 2] {
                    for path in [Path::R, Path::L] {
                        ordinal += 1;
                        if !ctx.mine(ordinal) {
                            continue;
                        }
                        let steps = vec![
                            Step { path, spec: Spec::new(0, 0, key, ts, val) },
                            Step { path: Path::R, spec: Spec::new(0, 0, b"a0500", 1, Val::Y) },
                        ];
                        report.count("big_prune_cases", 1);
                        one(report, &big_pre, &steps, ordinal);
                    }
                }
            }
        }
    }
    // life cycle: sequences over a small universe plus {remove and re-create the document, ask
    // every question}; only the sequences that contain one of the two and end with an entry
    let u = universe(0, &[0], &[b"", b"a", b"ab"], 2);
    let depth = if ctx.quick() { 3 } else { 4 };
    let n = u.len();
    for d in 2..=depth {
        for_each_sequence(n + 2, d, |seq| {
            if !seq.iter().any(|&x| x >= n) || seq[d - 1] >= n {
                return;
            }
            ordinal += 1;
            if !ctx.mine(ordinal) {
                return;
            }
            let steps: Vec<Step> = seq
                .iter()
                .map(|&x| {
                    if x == n {
                        Step { path: Path::X, spec: u[0].clone() }
                    } else if x == n + 1 {
                        Step { path: Path::Q, spec: u[0].clone() }
                    } else {
                        Step { path: Path::R, spec: u[x].clone() }
                    }
                })
                .collect();
            one(report, &pre, &steps, ordinal);
        });
    }
}

fn run_family_n(ctx: &Ctx, report: &mut Report, ordinal: &mut u64) {
    let u = edge_universe();
    for depth in 1..=2usize {
        for_each_sequence(u.len(), depth, |seq| {
            for mask in 0..(1u32 << depth) {
                *ordinal += 1;
                if !ctx.mine(*ordinal) {
                    continue;
                }
                let steps: Vec<Step> = seq
                    .iter()
                    .enumerate()
                    .map(|(i, &x)| Step {
                        path: if mask >> i & 1 == 1 { Path::L } else { Path::R },
                        spec: u[x].clone(),
                    })
                    .collect();
                one_neighbours(report, &steps, *ordinal);
            }
        });
    }
}

fn one(report: &mut Report, pre: &[Spec], steps: &[Step], ordinal: u64) {
    report.evaluations += 1;
    report.traces += 1;
    report.transitions += steps.len() as u64;
    report.max_depth = report.max_depth.max(steps.len() as u64);
    let nontrivial = steps
        .iter()
        .enumerate()
        .any(|(i, a)| steps[..i].iter().any(|b| related(&a.spec, &b.spec)));
    if nontrivial {
        report.nontrivial += 1;
    }
    let _watch = crate::util::watch::enter("operation sequence", steps_json(pre, steps));
    match catch(|| run_path(pre, steps)) {
        Err(p) => report.violation(
            "no_panic",
            json!({}),
            steps_json(pre, steps),
            format!("panic: {p}"),
            ordinal,
        ),
        Ok((bad, rendering)) => {
            let h = fnv(rendering.as_bytes());
                        report.outcome(format!("{h:016x}"));
            for (oracle, witness, detail) in bad {
                if oracle.starts_with("MACHINERY") {
                    report.machinery_error(format!("{oracle}: {detail}"));
                } else {
                    report.violation(oracle, witness, steps_json(pre, steps), detail, ordinal);
                }
            }
            if nontrivial {
                report.sample(|| {
                    json!({"steps": steps.iter().map(|s| s.to_string()).collect::<Vec<_>>(), "observed": rendering})
                });
            }
        }
    }
}

fn replay(case: &Value) -> anyhow::Result<(bool, String)> {
    if let Some(r) = super::apifam::replay_life(case, "C02")? {
        return Ok(r);
    }
    if case["family"] == "neighbour_authors" {
        let steps: Vec<Step> = serde_json::from_value(case["steps"].clone())?;
        return match catch(|| run_neighbours(&steps)) {
            Err(p) => Ok((true, format!("panic: {p}"))),
            Ok((bad, rendering)) => {
                let mut out = format!("neighbour-author family, steps {:?}\nobserved {rendering}\n", steps.iter().map(|s| s.to_string()).collect::<Vec<_>>());
                for (o, _, d) in &bad {
                    out.push_str(&format!("FAILED {o}: {d}\n"));
                }
                Ok((!bad.is_empty(), out))
            }
        };
    }
    let (pre, steps) = steps_from_json(case)?;
    let mut out = String::new();
    for s in &steps {
        out.push_str(&format!("step {s}\n"));
    }
    match catch(|| run_path(&pre, &steps)) {
        Err(p) => Ok((true, format!("{out}panic: {p}"))),
        Ok((bad, rendering)) => {
            out.push_str(&format!("observed: {rendering}\n"));
            for (o, _, d) in &bad {
                out.push_str(&format!("FAILED {o}: {d}\n"));
            }
            Ok((!bad.is_empty(), out))
        }
    }
}
