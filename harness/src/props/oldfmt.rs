//! Store files in the format of the releases that used redb 2.x (variable-width tuples carry
//! another type tag there; `Store::persistent` converts such a file when it opens it). The file is
//! written here with redb 3 and the legacy tuple types, the way the crate's own migration test
//! does it: one document (write capability), one entry with its head and by-key row, `n`
//! registered peers and a download policy. After opening, everything must be what was stored.
//! Each property reports its own clause: C17 the peer list, C15 the policy, C18 heads / by-key /
//! records and reopening as a no-op, C07 the capability.

use iroh_docs::Capability;

use super::{common::dump_by_key, recon::scratch_dir};
use crate::{
    sut::Sut,
    universe::{ns_id, ns_secret, Spec, Val},
};

fn peer(i: u8) -> [u8; 32] {
    [0x80 + i; 32]
}

pub fn policy() -> iroh_docs::store::DownloadPolicy {
    iroh_docs::store::DownloadPolicy::NothingExcept(vec![iroh_docs::store::FilterKind::Prefix(bytes::Bytes::from_static(b"a\xff")), iroh_docs::store::FilterKind::Exact(bytes::Bytes::from_static(b""))])
}

pub fn check(n_peers: u8, which: &str) -> Vec<(&'static str, String)> {
    use redb_v3::{Legacy, MultimapTableDefinition, TableDefinition};
    type RecordsKey<'a> = (&'a [u8; 32], &'a [u8; 32], &'a [u8]);
    type RecordsValue<'a> = (u64, &'a [u8; 64], &'a [u8; 64], u64, &'a [u8; 32]);
    const RECORDS: TableDefinition<Legacy<RecordsKey>, RecordsValue> = TableDefinition::new("records-1");
    const LATEST: TableDefinition<(&[u8; 32], &[u8; 32]), Legacy<(u64, &[u8])>> = TableDefinition::new("latest-by-author-1");
    const BY_KEY: TableDefinition<Legacy<(&[u8; 32], &[u8], &[u8; 32])>, ()> = TableDefinition::new("records-by-key-1");
    const NAMESPACES: TableDefinition<&[u8; 32], (u8, &[u8; 32])> = TableDefinition::new("namespaces-2");
    const PEERS: MultimapTableDefinition<&[u8; 32], (u64, &[u8; 32])> = MultimapTableDefinition::new("sync-peers-1");
    const POLICY: TableDefinition<&[u8; 32], &[u8]> = TableDefinition::new("download-policy-1");
    let mut bad: Vec<(&'static str, &'static str, String)> = vec![];
    let dir = scratch_dir();
    let path = dir.path().join("docs.redb");
    let ns = ns_id(0).to_bytes();
    let entries = [Spec::new(0, 0, b"k", 2, Val::X).signed(), Spec::new(0, 0, b"a", 1, Val::Del).signed(), Spec::new(0, 1, b"k", 3, Val::Y).signed()];
    let res: anyhow::Result<()> = (|| {
        let db = redb_v3::Database::create(&path)?;
        let tx = db.begin_write()?;
        {
            let (kind, bytes) = Capability::Write(ns_secret(0)).raw();
            tx.open_table(NAMESPACES)?.insert(&ns, (kind, &bytes))?;
            let mut heads: std::collections::BTreeMap<[u8; 32], (u64, Vec<u8>)> = Default::default();
            for e in &entries {
                let author = e.author().to_bytes();
                let raw = crate::mirror::RawSigned::of(e);
                tx.open_table(RECORDS)?.insert((&ns, &author, e.key()), (e.timestamp(), &raw.ns_sig, &raw.author_sig, e.content_len(), e.content_hash().as_bytes()))?;
                tx.open_table(BY_KEY)?.insert((&ns, e.key(), &author), ())?;
                let h = heads.entry(author).or_insert((0, vec![]));
                if e.timestamp() >= h.0 {
                    *h = (e.timestamp(), e.key().to_vec());
                }
            }
            for (a, (t, k)) in &heads {
                tx.open_table(LATEST)?.insert((&ns, a), (*t, k.as_slice()))?;
            }
            let mut peers = tx.open_multimap_table(PEERS)?;
            for i in 0..n_peers {
                peers.insert(&ns, (1_000 + i as u64, &peer(i)))?;
            }
            let pol = postcard::to_stdvec(&policy())?;
            tx.open_table(POLICY)?.insert(&ns, pol.as_slice())?;
        }
        tx.commit()?;
        Ok(())
    })();
    if let Err(e) = res {
        return vec![("MACHINERY", format!("cannot write the old-format file: {e:#}"))];
    }
    let mut want_dump = entries.to_vec();
    want_dump.sort_by_key(|e| (e.author().to_bytes(), e.key().to_vec()));
    let mut first: Option<String> = None;
    for cycle in 1..=2 {
        let mut sut = match Sut::persistent(&path) {
            Ok(s) => s,
            Err(e) => {
                bad.push(("C18", "old_format_store_opens", format!("cycle {cycle}: {e:#}")));
                break;
            }
        };
        let got = sut.store.get_sync_peers(&ns_id(0)).expect("peers").map(|i| i.collect::<Vec<_>>());
        let want: Option<Vec<[u8; 32]>> = (n_peers > 0).then(|| (0..n_peers).rev().map(peer).collect());
        if got != want {
            bad.push(("C17", "list_survives_reopening", format!("a store file of the redb 2.x format with {n_peers} registered peers, opened (cycle {cycle}): get_sync_peers = {:?}, stored (most recent first) {:?}", got.clone().map(|v| v.iter().map(|p| p[0]).collect::<Vec<_>>()), want.map(|v| v.iter().map(|p| p[0]).collect::<Vec<_>>()))));
        }
        match sut.store.get_download_policy(&ns_id(0)) {
            Ok(p) if p == policy() => {}
            other => bad.push(("C15", "policy_returned_unchanged", format!("a store file of the redb 2.x format, opened (cycle {cycle}): the stored policy reads back as {other:?}"))),
        }
        let dump = sut.dump(ns_id(0));
        if dump != want_dump {
            bad.push(("C18", "records_untouched", format!("a store file of the redb 2.x format, opened (cycle {cycle}): {} of {} entries readable", dump.len(), want_dump.len())));
        }
        let mut by_key = dump_by_key(&mut sut, ns_id(0));
        by_key.sort_by_key(|e| (e.author().to_bytes(), e.key().to_vec()));
        if by_key != want_dump {
            bad.push(("C18", "by_key_index_rebuilt_exactly", format!("a store file of the redb 2.x format, opened (cycle {cycle}): the key-ordered listing has {} entries, the records {}", by_key.len(), want_dump.len())));
        }
        let heads: std::collections::BTreeMap<[u8; 32], u64> = sut.heads(ns_id(0)).into_iter().map(|(a, t, _)| (a.to_bytes(), t)).collect();
        let mut want_heads: std::collections::BTreeMap<[u8; 32], u64> = Default::default();
        for e in &want_dump {
            let t = want_heads.entry(e.author().to_bytes()).or_insert(0);
            *t = (*t).max(e.timestamp());
        }
        if heads != want_heads {
            bad.push(("C18", "heads_rebuilt_exactly", format!("a store file of the redb 2.x format, opened (cycle {cycle}): heads {:?}, per-author maximum over the records {:?}", heads.values().collect::<Vec<_>>(), want_heads.values().collect::<Vec<_>>())));
        }
        let listed: Vec<_> = sut.store.list_namespaces().expect("list").map(|r| r.expect("ns")).collect();
        if listed.len() != 1 || listed[0].0 != ns_id(0) || !matches!(listed[0].1, iroh_docs::CapabilityKind::Write) {
            bad.push(("C07", "listed_capabilities_equal_max_imported", format!("a store file of the redb 2.x format holding the write capability of its document, opened (cycle {cycle}): listed {:?}", listed.iter().map(|(_, k)| format!("{k:?}")).collect::<Vec<_>>())));
        }
        let rendering = format!("{got:?}|{}|{}|{heads:?}", dump.len(), by_key.len());
        match &first {
            None => first = Some(rendering),
            Some(f) if *f != rendering => bad.push(("C18", "reopen_is_a_noop", format!("a converted store file shows different content on the second open"))),
            _ => {}
        }
        drop(sut);
    }
    bad.into_iter().filter(|(p, _, _)| *p == which).map(|(_, o, d)| (o, d)).collect()
}
