//! C16 — removing a document erases it completely and only it.

use std::collections::BTreeSet;

use iroh_docs::{
    store::{DownloadPolicy, FilterKind},
    sync::SignedEntry,
    Capability, CapabilityKind, NamespaceId,
};
use serde::{Deserialize, Serialize};
use serde_json::{json, Value};

use super::common::{dump_by_key, set_clock};
use crate::{
    explore::{bfs, Outcome},
    mirror::RawSigned,
    report::Report,
    sut::Sut,
    universe::{author, author_id, ns_id, ns_secret, Spec, Val, NOW, T0},
    util::catch,
    Ctx, PropDef, Tier,
};

pub fn def() -> PropDef {
    PropDef {
        id: "C16",
        level: "model_checking",
        rule: "explicit-state search over a store holding 5 documents — three whose namespace ids are byte-order neighbours (..FE, ..FF, successor; populated through the raw-put hook with read-only capability) and two real-key documents — with events {write entry 1/2, delete prefix, register peer, set policy, open, close, remove, re-create} per document, from the empty and from a fully populated initial state; after every event every document's complete observable content is compared with a per-document reference, removal must be refused iff open, and content_hashes() must equal the hashes of all entries held; canonical state = rendering of the complete observable store content; non-trivial = histories containing a removal of a non-empty document",
        assumptions: &["entries of the neighbouring-id documents carry arbitrary signatures (written below the validation layer), which the properties observed here never inspect"],
        bound: |t| match t {
            Tier::Quick => json!({"from_empty": "depth <= 3", "from_populated": "depth <= 4", "events": 41}),
            Tier::Thorough => json!({"from_empty": "depth <= 5", "from_populated": "depth <= 5", "events": 41}),
        },
        run,
        replay,
        shards: |_| 16,
    }
}

const NDOCS: usize = 5;

fn doc_id(d: usize) -> NamespaceId {
    match d {
        0 => {
            let mut b = [0x50u8; 32];
            b[31] = 0xfe;
            NamespaceId::from(&b)
        }
        1 => {
            let mut b = [0x50u8; 32];
            b[31] = 0xff;
            NamespaceId::from(&b)
        }
        2 => {
            let mut b = [0x50u8; 32];
            b[30] = 0x51;
            b[31] = 0x00;
            NamespaceId::from(&b)
        }
        3 => ns_id(0),
        _ => ns_id(1),
    }
}

fn is_raw(d: usize) -> bool {
    d < 3
}

fn capability(d: usize) -> Capability {
    if is_raw(d) {
        Capability::Read(doc_id(d))
    } else {
        Capability::Write(ns_secret(d as u8 - 3))
    }
}

/// The two entries that can be written into document d.
fn entry(d: usize, which: u8) -> SignedEntry {
    let (key, ts, val): (&[u8], u64, Val) = if which == 0 {
        (b"a", 1, Val::X)
    } else {
        (b"\xff", 2, Val::Y)
    };
    if is_raw(d) {
        let (h, l) = val.hash_len();
        let mut id = doc_id(d).to_bytes().to_vec();
        // the second entry of a neighbour-id document is authored by the all-0xFF author id (the
        // last key of every per-author range), the first by an ordinary one
        if which == 0 {
            id.extend_from_slice(author_id(0).as_bytes());
        } else {
            id.extend_from_slice(&[0xffu8; 32]);
        }
        id.extend_from_slice(key);
        RawSigned {
            author_sig: [d as u8 + 1; 64],
            ns_sig: [0x99; 64],
            id,
            len: l,
            hash: *h.as_bytes(),
            ts: T0 + ts,
        }
        .to_signed()
        .expect("decodes")
    } else {
        Spec::new(d as u8 - 3, 0, key, ts, val).signed()
    }
}

#[derive(Debug, Clone, Copy, PartialEq, Eq, Serialize, Deserialize)]
pub enum Ev {
    Write(usize, u8),
    DeletePrefix(usize),
    Peer(usize),
    Policy(usize),
    Open(usize),
    Close(usize),
    Remove(usize),
    Recreate(usize),
}

fn events() -> Vec<Ev> {
    let mut v = vec![];
    for d in 0..NDOCS {
        v.push(Ev::Write(d, 0));
        v.push(Ev::Write(d, 1));
        if !is_raw(d) {
            v.push(Ev::DeletePrefix(d));
        }
        v.push(Ev::Peer(d));
        v.push(Ev::Policy(d));
        v.push(Ev::Open(d));
        v.push(Ev::Close(d));
        v.push(Ev::Remove(d));
        v.push(Ev::Recreate(d));
    }
    v
}

#[derive(Debug, Clone, Default, PartialEq, Eq)]
struct DocModel {
    exists: bool,
    open: bool,
    entries: Vec<SignedEntry>, // sorted by (author, key)
    peers: Vec<[u8; 32]>,
    policy: Option<DownloadPolicy>,
}

fn the_policy(d: usize) -> DownloadPolicy {
    DownloadPolicy::NothingExcept(vec![FilterKind::Prefix(bytes::Bytes::from(vec![d as u8]))])
}

fn the_peer(d: usize) -> [u8; 32] {
    [0xc0 + d as u8; 32]
}

#[derive(Clone, PartialEq, Eq)]
struct DocObs {
    listed: Option<CapabilityKind2>,
    dump: Vec<SignedEntry>,
    by_key: Vec<SignedEntry>,
    heads: Vec<([u8; 32], u64)>,
    peers: Option<Vec<[u8; 32]>>,
    policy: DownloadPolicy,
}

impl std::fmt::Debug for DocObs {
    fn fmt(&self, f: &mut std::fmt::Formatter<'_>) -> std::fmt::Result {
        let show = |v: &[SignedEntry]| {
            v.iter()
                .map(|e| {
                    format!(
                        "{:02x}/\"{}\"@{}:{}",
                        e.author().as_bytes()[0],
                        crate::universe::show_key(e.key()),
                        e.timestamp() - T0,
                        &e.content_hash().to_hex()[..4]
                    )
                })
                .collect::<Vec<_>>()
                .join(",")
        };
        write!(
            f,
            "{{listed={:?} records=[{}] by_key=[{}] heads={:?} peers={:?} policy={:?}}}",
            self.listed,
            show(&self.dump),
            show(&self.by_key),
            self.heads.iter().map(|(a, t)| (a[0], t - T0)).collect::<Vec<_>>(),
            self.peers.as_ref().map(|p| p.iter().map(|x| x[0]).collect::<Vec<_>>()),
            self.policy
        )
    }
}

#[derive(Debug, Clone, Copy, PartialEq, Eq)]
enum CapabilityKind2 {
    Read,
    Write,
}

fn observe(sut: &mut Sut, d: usize) -> DocObs {
    let ns = doc_id(d);
    let listed = sut
        .store
        .list_namespaces()
        .expect("list")
        .map(|r| r.expect("ns"))
        .find(|(id, _)| *id == ns)
        .map(|(_, k)| match k {
            CapabilityKind::Read => CapabilityKind2::Read,
            CapabilityKind::Write => CapabilityKind2::Write,
        });
    let mut by_key = dump_by_key(sut, ns);
    by_key.sort_by_key(|e| (e.author().to_bytes(), e.key().to_vec()));
    DocObs {
        listed,
        dump: sut.dump(ns),
        by_key,
        heads: sut
            .heads(ns)
            .into_iter()
            .map(|(a, t, _)| (a.to_bytes(), t))
            .collect(),
        peers: sut
            .store
            .get_sync_peers(&ns)
            .expect("peers")
            .map(|i| i.collect()),
        policy: sut.store.get_download_policy(&ns).expect("policy"),
    }
}

fn expected(m: &DocModel, d: usize) -> DocObs {
    let mut heads: std::collections::BTreeMap<[u8; 32], u64> = Default::default();
    for e in &m.entries {
        let t = heads.entry(e.author().to_bytes()).or_insert(0);
        *t = (*t).max(e.timestamp());
    }
    DocObs {
        listed: m.exists.then(|| {
            if is_raw(d) {
                CapabilityKind2::Read
            } else {
                CapabilityKind2::Write
            }
        }),
        dump: m.entries.clone(),
        by_key: m.entries.clone(),
        heads: heads.into_iter().collect(),
        peers: (!m.peers.is_empty()).then(|| m.peers.clone()),
        policy: m.policy.clone().unwrap_or_default(),
    }
}

fn model_put(m: &mut DocModel, e: SignedEntry) {
    let mut r = crate::refmodel::ModelReplica::default();
    for x in &m.entries {
        r.put(x);
    }
    r.put(&e);
    m.entries = r.dump();
}

fn populate_events() -> Vec<Ev> {
    let mut v = vec![];
    for d in 0..NDOCS {
        v.extend([Ev::Recreate(d), Ev::Write(d, 0), Ev::Write(d, 1), Ev::Peer(d), Ev::Policy(d)]);
    }
    v
}

/// Execute a history; violations are reported for the last event only (prefixes are explored
/// on their own). Returns the canonical state.
fn exec(
    pre: &[Ev],
    hist: &[Ev],
    report: &mut Report,
    ordinal: u64,
    family: &str,
) -> Option<Outcome<String>> {
    set_clock(NOW);
    iroh_docs::verif::set_clock_nanos(Some(5_000_000));
    let mut sut = Sut::memory();
    let mut model: Vec<DocModel> = vec![DocModel::default(); NDOCS];
    let total = pre.len() + hist.len();
    let mut observed = String::new();
    let mut txn_kind = "none";
    for (i, ev) in pre.iter().chain(hist.iter()).enumerate() {
        let last = i + 1 == total;
        // what every document looked like before this event. It is derived from the reference
        // (the prefix history is explored on its own and was compared with the reference there)
        // rather than read from the store: reading would change which kind of transaction the
        // store holds right before the event under test.
        let before: Vec<DocObs> = if last {
            (0..NDOCS).map(|d| expected(&model[d], d)).collect()
        } else {
            vec![]
        };
        let mut fail = |report: &mut Report, oracle: &str, w: Value, detail: String| {
            if last {
                report.violation(
                    oracle,
                    w,
                    json!({"pre": pre, "hist": hist, "family": family}),
                    detail,
                    ordinal,
                );
            }
        };
        let target = match *ev {
            Ev::Write(d, which) => {
                if !model[d].exists {
                    return None;
                }
                let e = entry(d, which);
                if is_raw(d) {
                    iroh_docs::verif::raw_entry_put(&mut sut.store, doc_id(d), e.clone())
                        .expect("raw put");
                    model_put(&mut model[d], e);
                } else {
                    // remote insert of a pre-signed entry (the open flag is modelled separately:
                    // Sut::remote opens and closes the replica itself, so only when not open)
                    if model[d].open {
                        return None;
                    }
                    let _ = sut.remote(doc_id(d), e.clone());
                    model_put(&mut model[d], e);
                }
                d
            }
            Ev::DeletePrefix(d) => {
                if !model[d].exists || model[d].open {
                    return None;
                }
                set_clock(T0 + 3);
                let _ = sut.local_insert(doc_id(d), &author(0), b"", Val::Del);
                set_clock(NOW);
                let e = Spec::new(d as u8 - 3, 0, b"", 3, Val::Del).signed();
                model_put(&mut model[d], e);
                d
            }
            Ev::Peer(d) => {
                let res = sut.store.register_useful_peer(doc_id(d), the_peer(d));
                if res.is_ok() != model[d].exists {
                    fail(report, "register_peer_iff_document_exists", json!({}), format!("doc {d}: {res:?}"));
                }
                if model[d].exists {
                    model[d].peers = vec![the_peer(d)];
                }
                d
            }
            Ev::Policy(d) => {
                let res = sut.store.set_download_policy(&doc_id(d), the_policy(d));
                if res.is_ok() != model[d].exists {
                    fail(report, "set_policy_iff_document_exists", json!({}), format!("doc {d}: {res:?}"));
                }
                if model[d].exists {
                    model[d].policy = Some(the_policy(d));
                }
                d
            }
            Ev::Open(d) => {
                let res = sut.store.load_replica_info(&doc_id(d));
                if res.is_ok() != model[d].exists {
                    fail(report, "open_iff_document_exists", json!({}), format!("doc {d}: open {:?}", res.is_ok()));
                }
                if model[d].exists {
                    model[d].open = true;
                }
                d
            }
            Ev::Close(d) => {
                sut.store.close_replica(doc_id(d));
                model[d].open = false;
                d
            }
            Ev::Remove(d) => {
                let res = sut.store.remove_replica(&doc_id(d));
                if model[d].open {
                    if res.is_ok() {
                        fail(report, "remove_refused_while_open", json!({"neighbour_ids": is_raw(d)}), format!("doc {d} removed while open"));
                        model[d] = DocModel::default();
                    }
                } else {
                    if let Err(e) = &res {
                        fail(report, "remove_succeeds_when_closed", json!({}), format!("doc {d}: {e:#}"));
                    }
                    model[d] = DocModel::default();
                }
                d
            }
            Ev::Recreate(d) => {
                if model[d].exists {
                    return None;
                }
                sut.store.import_namespace(capability(d)).expect("import");
                model[d].exists = true;
                d
            }
        };
        if last {
            txn_kind = sut.store.verif_transaction_kind();
            // every document against its reference; other documents byte-identical to before
            for d in 0..NDOCS {
                let now = observe(&mut sut, d);
                let want = expected(&model[d], d);
                if now != want {
                    let removed = matches!(ev, Ev::Remove(_) | Ev::Recreate(_));
                    fail(
                        report,
                        if d == target { "document_matches_reference" } else { "other_document_matches_reference" },
                        json!({"after_remove_or_recreate": removed, "neighbour_ids": is_raw(d),
                               "entries_differ": now.dump != want.dump || now.by_key != want.by_key,
                               "heads_differ": now.heads != want.heads, "peers_differ": now.peers != want.peers,
                               "policy_differs": now.policy != want.policy, "listing_differs": now.listed != want.listed}),
                        format!("after {ev:?}: doc {d} impl={now:?} reference={want:?}"),
                    );
                }
                if d != target && now != before[d] {
                    fail(
                        report,
                        "other_documents_byte_identical",
                        json!({"event": format!("{ev:?}").split('(').next().unwrap_or("").to_string(), "neighbour_ids": is_raw(d)}),
                        format!("{ev:?} changed document {d}: before={:?} after={now:?}", before[d]),
                    );
                }
            }
            // content hashes
            let got: BTreeSet<[u8; 32]> = sut
                .store
                .content_hashes()
                .expect("content_hashes")
                .map(|h| *h.expect("hash").as_bytes())
                .collect();
            let want: BTreeSet<[u8; 32]> = model
                .iter()
                .flat_map(|m| m.entries.iter().map(|e| *e.content_hash().as_bytes()))
                .collect();
            if got != want {
                fail(
                    report,
                    "content_hashes_equal_held_entries",
                    json!({"missing": want.difference(&got).count(), "extra": got.difference(&want).count()}),
                    format!("content_hashes has {} hashes, entries hold {}", got.len(), want.len()),
                );
            }
            observed = format!("{ev:?}");
        }
    }
    let key = format!(
        "{txn_kind}|{:?}",
        (0..NDOCS)
            .map(|d| (observe(&mut sut, d), model[d].open))
            .collect::<Vec<_>>()
    );
    Some(Outcome {
        key,
        observed,
        enabled: None,
        })
}

fn run(ctx: &Ctx, report: &mut Report) {
    crate::util::silence_panics();
    let evs = events();
    report.fact("events", json!(evs.len()));
    for (family, pre) in [("empty", vec![]), ("populated", populate_events())] {
        let depth = match (ctx.quick(), family) {
            (true, "empty") => 3,
            (true, _) => 4,
            (false, _) => 5,
        };
        let mut evals = 0u64;
        let mut nontrivial = 0u64;
        let stats = bfs(ctx, report, &evs, depth, 1, |h, report, ordinal| {
            evals += 1;
            let removes_nonempty = h.iter().enumerate().any(|(i, e)| match e {
                Ev::Remove(d) => {
                    family == "populated" || h[..i].iter().any(|p| matches!(p, Ev::Write(x, _) if x == d))
                }
                _ => false,
            });
            if removes_nonempty {
                nontrivial += 1;
            }
            match catch(|| {
                let mut local = Report::default();
                let o = exec(&pre, h, &mut local, ordinal, family);
                (o, local)
            }) {
                Err(p) => {
                    report.violation(
                        "no_panic",
                        json!({}),
                        json!({"pre": pre, "hist": h, "family": family}),
                        format!("panic: {p}"),
                        ordinal,
                    );
                    None
                }
                Ok((o, local)) => {
                    report.merge(local);
                    if removes_nonempty && h.len() >= 2 {
                        report.sample(|| json!({"family": family, "history": h.iter().map(|e| format!("{e:?}")).collect::<Vec<_>>()}));
                    }
                    o
                }
            }
        });
        report.evaluations += evals;
        report.nontrivial += nontrivial;
        report.count(&format!("states_{family}"), stats.states);
    }
}

fn replay(case: &Value) -> anyhow::Result<(bool, String)> {
    let pre: Vec<Ev> = serde_json::from_value(case["pre"].clone())?;
    let hist: Vec<Ev> = serde_json::from_value(case["hist"].clone())?;
    let mut local = Report::default();
    match catch(|| exec(&pre, &hist, &mut local, 0, "replay").map(|o| o.observed)) {
        Err(p) => Ok((true, format!("panic: {p}"))),
        Ok(o) => {
            let mut out = format!("pre {pre:?}\nhistory {hist:?}\nenabled={}\n", o.is_some());
            for v in &local.violations {
                out.push_str(&format!("FAILED {}: {}\n", v.oracle, v.detail));
            }
            Ok((!local.violations.is_empty(), out))
        }
    }
}
