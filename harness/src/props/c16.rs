//! C16 — removing a document erases it completely and only it.

use std::collections::BTreeSet;

use iroh_docs::{
    store::{DownloadPolicy, FilterKind},
    sync::SignedEntry,
    Capability, CapabilityKind, NamespaceId,
};
use serde::{Deserialize, Serialize};
use serde_json::{json, Value};

use super::common::{dump_by_key, set_clock};
use crate::{
    explore::{bfs_nd, Outcome},
    mirror::RawSigned,
    report::Report,
    sut::Sut,
    universe::{author, author_id, ns_id, ns_secret, Spec, Val, NOW, T0},
    util::catch,
    Ctx, PropDef, Tier,
};

pub fn def() -> PropDef {
    PropDef {
        id: "C16",
        level: "model_checking",
        rule: "explicit-state search over a store holding 5 documents — three whose namespace ids are byte-order neighbours (..FE, ..FF, successor; populated through the raw-put hook with read-only capability) and two real-key documents — with events {write entry 1/2, delete prefix, register peer, set policy, open, close, remove, re-create, import the write capability (an upgrade for a document created read-only)} per document, from the empty and from a fully populated initial state; after every event every document's complete observable content is compared with a per-document reference, removal must be refused iff open, and content_hashes() must equal the hashes of all entries held; a family drives the document life cycle through the docs API of a real Engine (every history of <= 3, thorough 4, events over {write, delete prefix, set policy, open one more handle, close, drop_doc, import again}: a dropped document is not listed, cannot be opened, comes back empty with the default policy, the bystander document is untouched); a further family spawns a real Engine with a garbage-collection protect handler and, after every step of three scripts (0..N writes, prefix deletions, duplicate contents, removals; N = 140 quick / 600 thorough, crossing every channel capacity on the way), calls the collector's callback and requires the live set it receives to equal the hashes held, and once more after the docs engine was shut down (the collector must then be stopped, not handed a smaller set), and once while the store actor is blocked for 6.5 s (thorough 22 s) by a slow subscriber (whenever the callback says continue, every held hash is protected); one case per neighbour-id document: it holds 1102 entries by 13 authors, is removed and re-created between its byte-order neighbours; canonical state = rendering of the complete observable store content; non-trivial = histories containing a removal of a non-empty document",
        assumptions: &["entries of the neighbouring-id documents carry arbitrary signatures (written below the validation layer), which the properties observed here never inspect"],
        bound: |t| match t {
            Tier::Quick => json!({"from_empty": "depth <= 3", "from_populated": "depth <= 4", "events": 43}),
            Tier::Thorough => json!({"from_empty": "depth <= 5", "from_populated": "depth <= 5", "events": 43}),
        },
        run,
        replay,
        shards: |_| 16,
    }
}

const NDOCS: usize = 5;

fn doc_id(d: usize) -> NamespaceId {
    match d {
        0 => {
            let mut b = [0x50u8; 32];
            b[31] = 0xfe;
            NamespaceId::from(&b)
        }
        1 => {
            let mut b = [0x50u8; 32];
            b[31] = 0xff;
            NamespaceId::from(&b)
        }
        2 => {
            let mut b = [0x50u8; 32];
            b[30] = 0x51;
            b[31] = 0x00;
            NamespaceId::from(&b)
        }
        3 => ns_id(0),
        _ => ns_id(1),
    }
}

fn is_raw(d: usize) -> bool {
    d < 3
}

/// The capability a document is created with: the neighbour-id documents and the second
/// real-key document are read-only (the latter can be upgraded later, `Ev::ImportWrite`).
fn capability(d: usize) -> Capability {
    if is_raw(d) || d == 4 {
        Capability::Read(doc_id(d))
    } else {
        Capability::Write(ns_secret(d as u8 - 3))
    }
}

/// The two entries that can be written into document d.
fn entry(d: usize, which: u8) -> SignedEntry {
    let (key, ts, val): (&[u8], u64, Val) = if which == 0 {
        (b"a", 1, Val::X)
    } else {
        (b"\xff", 2, Val::Y)
    };
    if is_raw(d) {
        let (h, l) = val.hash_len();
        let mut id = doc_id(d).to_bytes().to_vec();
        // the second entry of a neighbour-id document is authored by the all-0xFF author id (the
        // last key of every per-author range), the first by an ordinary one
        if which == 0 {
            id.extend_from_slice(author_id(0).as_bytes());
        } else {
            id.extend_from_slice(&[0xffu8; 32]);
        }
        id.extend_from_slice(key);
        RawSigned {
            author_sig: [d as u8 + 1; 64],
            ns_sig: [0x99; 64],
            id,
            len: l,
            hash: *h.as_bytes(),
            ts: T0 + ts,
        }
        .to_signed()
        .expect("decodes")
    } else {
        Spec::new(d as u8 - 3, 0, key, ts, val).signed()
    }
}

#[derive(Debug, Clone, Copy, PartialEq, Eq, Serialize, Deserialize)]
pub enum Ev {
    Write(usize, u8),
    DeletePrefix(usize),
    Peer(usize),
    Policy(usize),
    Open(usize),
    Close(usize),
    Remove(usize),
    Recreate(usize),
    /// import the write capability of a real-key document (an upgrade for document 4, which is
    /// created read-only; no change for document 3): must not affect anything else, in
    /// particular not whether the document counts as open
    ImportWrite(usize),
}

fn events() -> Vec<Ev> {
    let mut v = vec![];
    for d in 0..NDOCS {
        v.push(Ev::Write(d, 0));
        v.push(Ev::Write(d, 1));
        if !is_raw(d) {
            v.push(Ev::DeletePrefix(d));
        }
        v.push(Ev::Peer(d));
        v.push(Ev::Policy(d));
        v.push(Ev::Open(d));
        v.push(Ev::Close(d));
        v.push(Ev::Remove(d));
        v.push(Ev::Recreate(d));
        if !is_raw(d) {
            v.push(Ev::ImportWrite(d));
        }
    }
    v
}

#[derive(Debug, Clone, Default, PartialEq, Eq)]
struct DocModel {
    exists: bool,
    open: bool,
    entries: Vec<SignedEntry>, // sorted by (author, key)
    peers: Vec<[u8; 32]>,
    policy: Option<DownloadPolicy>,
    /// the write capability has been imported
    write: bool,
}

fn the_policy(d: usize) -> DownloadPolicy {
    DownloadPolicy::NothingExcept(vec![FilterKind::Prefix(bytes::Bytes::from(vec![d as u8]))])
}

fn the_peer(d: usize) -> [u8; 32] {
    [0xc0 + d as u8; 32]
}

#[derive(Clone, PartialEq, Eq)]
struct DocObs {
    listed: Option<CapabilityKind2>,
    dump: Vec<SignedEntry>,
    by_key: Vec<SignedEntry>,
    heads: Vec<([u8; 32], u64)>,
    peers: Option<Vec<[u8; 32]>>,
    policy: DownloadPolicy,
}

impl std::fmt::Debug for DocObs {
    fn fmt(&self, f: &mut std::fmt::Formatter<'_>) -> std::fmt::Result {
        let show = |v: &[SignedEntry]| {
            v.iter()
                .map(|e| {
                    format!(
                        "{:02x}/\"{}\"@{}:{}",
                        e.author().as_bytes()[0],
                        crate::universe::show_key(e.key()),
                        e.timestamp() - T0,
                        &e.content_hash().to_hex()[..4]
                    )
                })
                .collect::<Vec<_>>()
                .join(",")
        };
        write!(
            f,
            "{{listed={:?} records=[{}] by_key=[{}] heads={:?} peers={:?} policy={:?}}}",
            self.listed,
            show(&self.dump),
            show(&self.by_key),
            self.heads.iter().map(|(a, t)| (a[0], t - T0)).collect::<Vec<_>>(),
            self.peers.as_ref().map(|p| p.iter().map(|x| x[0]).collect::<Vec<_>>()),
            self.policy
        )
    }
}

#[derive(Debug, Clone, Copy, PartialEq, Eq)]
enum CapabilityKind2 {
    Read,
    Write,
}

fn observe(sut: &mut Sut, d: usize) -> DocObs {
    let ns = doc_id(d);
    let listed = sut
        .store
        .list_namespaces()
        .expect("list")
        .map(|r| r.expect("ns"))
        .find(|(id, _)| *id == ns)
        .map(|(_, k)| match k {
            CapabilityKind::Read => CapabilityKind2::Read,
            CapabilityKind::Write => CapabilityKind2::Write,
        });
    let mut by_key = dump_by_key(sut, ns);
    by_key.sort_by_key(|e| (e.author().to_bytes(), e.key().to_vec()));
    DocObs {
        listed,
        dump: sut.dump(ns),
        by_key,
        heads: sut
            .heads(ns)
            .into_iter()
            .map(|(a, t, _)| (a.to_bytes(), t))
            .collect(),
        peers: sut
            .store
            .get_sync_peers(&ns)
            .expect("peers")
            .map(|i| i.collect()),
        policy: sut.store.get_download_policy(&ns).expect("policy"),
    }
}

fn expected(m: &DocModel, d: usize) -> DocObs {
    let mut heads: std::collections::BTreeMap<[u8; 32], u64> = Default::default();
    for e in &m.entries {
        let t = heads.entry(e.author().to_bytes()).or_insert(0);
        *t = (*t).max(e.timestamp());
    }
    DocObs {
        listed: m.exists.then(|| {
            let _ = d;
            if m.write {
                CapabilityKind2::Write
            } else {
                CapabilityKind2::Read
            }
        }),
        dump: m.entries.clone(),
        by_key: m.entries.clone(),
        heads: heads.into_iter().collect(),
        peers: (!m.peers.is_empty()).then(|| m.peers.clone()),
        policy: m.policy.clone().unwrap_or_default(),
    }
}

fn model_put(m: &mut DocModel, e: SignedEntry) {
    let mut r = crate::refmodel::ModelReplica::default();
    for x in &m.entries {
        r.put(x);
    }
    r.put(&e);
    m.entries = r.dump();
}

fn populate_events() -> Vec<Ev> {
    let mut v = vec![];
    for d in 0..NDOCS {
        v.extend([Ev::Recreate(d), Ev::Write(d, 0), Ev::Write(d, 1), Ev::Peer(d), Ev::Policy(d)]);
    }
    v
}

/// Execute a history; violations are reported for the last event only (prefixes are explored
/// on their own). Returns the canonical state.
fn exec(
    pre: &[Ev],
    hist: &[Ev],
    report: &mut Report,
    ordinal: u64,
    family: &str,
) -> Option<Outcome<String>> {
    set_clock(NOW);
    iroh_docs::verif::set_clock_nanos(Some(5_000_000));
    let mut sut = Sut::memory();
    let mut model: Vec<DocModel> = vec![DocModel::default(); NDOCS];
    let total = pre.len() + hist.len();
    let mut observed = String::new();
    let mut txn_kind = "none";
    for (i, ev) in pre.iter().chain(hist.iter()).enumerate() {
        let last = i + 1 == total;
        // what every document looked like before this event. It is derived from the reference
        // (the prefix history is explored on its own and was compared with the reference there)
        // rather than read from the store: reading would change which kind of transaction the
        // store holds right before the event under test.
        let before: Vec<DocObs> = if last {
            (0..NDOCS).map(|d| expected(&model[d], d)).collect()
        } else {
            vec![]
        };
        let mut fail = |report: &mut Report, oracle: &str, w: Value, detail: String| {
            if last {
                report.violation(
                    oracle,
                    w,
                    json!({"pre": pre, "hist": hist, "family": family}),
                    detail,
                    ordinal,
                );
            }
        };
        let target = match *ev {
            Ev::Write(d, which) => {
                if !model[d].exists {
                    return None;
                }
                let e = entry(d, which);
                if is_raw(d) {
                    iroh_docs::verif::raw_entry_put(&mut sut.store, doc_id(d), e.clone())
                        .expect("raw put");
                    model_put(&mut model[d], e);
                } else {
                    // remote insert of a pre-signed entry (the open flag is modelled separately:
                    // Sut::remote opens and closes the replica itself, so only when not open)
                    if model[d].open {
                        return None;
                    }
                    let _ = sut.remote(doc_id(d), e.clone());
                    model_put(&mut model[d], e);
                }
                d
            }
            Ev::DeletePrefix(d) => {
                if !model[d].exists || model[d].open || !model[d].write {
                    return None;
                }
                set_clock(T0 + 3);
                let _ = sut.local_insert(doc_id(d), &author(0), b"", Val::Del);
                set_clock(NOW);
                let e = Spec::new(d as u8 - 3, 0, b"", 3, Val::Del).signed();
                model_put(&mut model[d], e);
                d
            }
            Ev::Peer(d) => {
                let res = sut.store.register_useful_peer(doc_id(d), the_peer(d));
                if res.is_ok() != model[d].exists {
                    fail(report, "register_peer_iff_document_exists", json!({}), format!("doc {d}: {res:?}"));
                }
                if model[d].exists {
                    model[d].peers = vec![the_peer(d)];
                }
                d
            }
            Ev::Policy(d) => {
                let res = sut.store.set_download_policy(&doc_id(d), the_policy(d));
                if res.is_ok() != model[d].exists {
                    fail(report, "set_policy_iff_document_exists", json!({}), format!("doc {d}: {res:?}"));
                }
                if model[d].exists {
                    model[d].policy = Some(the_policy(d));
                }
                d
            }
            Ev::Open(d) => {
                let res = sut.store.load_replica_info(&doc_id(d));
                if res.is_ok() != model[d].exists {
                    fail(report, "open_iff_document_exists", json!({}), format!("doc {d}: open {:?}", res.is_ok()));
                }
                if model[d].exists {
                    model[d].open = true;
                }
                d
            }
            Ev::Close(d) => {
                sut.store.close_replica(doc_id(d));
                model[d].open = false;
                d
            }
            Ev::Remove(d) => {
                let res = sut.store.remove_replica(&doc_id(d));
                if model[d].open {
                    if res.is_ok() {
                        fail(report, "remove_refused_while_open", json!({"neighbour_ids": is_raw(d)}), format!("doc {d} removed while open"));
                        model[d] = DocModel::default();
                    }
                } else {
                    if let Err(e) = &res {
                        fail(report, "remove_succeeds_when_closed", json!({}), format!("doc {d}: {e:#}"));
                    }
                    model[d] = DocModel::default();
                }
                d
            }
            Ev::Recreate(d) => {
                if model[d].exists {
                    return None;
                }
                sut.store.import_namespace(capability(d)).expect("import");
                model[d].exists = true;
                model[d].write = matches!(capability(d), Capability::Write(_));
                d
            }
            Ev::ImportWrite(d) => {
                if !model[d].exists {
                    return None;
                }
                sut.store
                    .import_namespace(Capability::Write(ns_secret(d as u8 - 3)))
                    .expect("import");
                model[d].write = true;
                d
            }
        };
        if last {
            txn_kind = sut.store.verif_transaction_kind();
            // every document against its reference; other documents byte-identical to before
            for d in 0..NDOCS {
                let now = observe(&mut sut, d);
                let want = expected(&model[d], d);
                if now != want {
                    let removed = matches!(ev, Ev::Remove(_) | Ev::Recreate(_));
                    fail(
                        report,
                        if d == target { "document_matches_reference" } else { "other_document_matches_reference" },
                        json!({"after_remove_or_recreate": removed, "neighbour_ids": is_raw(d),
                               "entries_differ": now.dump != want.dump || now.by_key != want.by_key,
                               "heads_differ": now.heads != want.heads, "peers_differ": now.peers != want.peers,
                               "policy_differs": now.policy != want.policy, "listing_differs": now.listed != want.listed}),
                        format!("after {ev:?}: doc {d} impl={now:?} reference={want:?}"),
                    );
                }
                if d != target && now != before[d] {
                    fail(
                        report,
                        "other_documents_byte_identical",
                        json!({"event": format!("{ev:?}").split('(').next().unwrap_or("").to_string(), "neighbour_ids": is_raw(d)}),
                        format!("{ev:?} changed document {d}: before={:?} after={now:?}", before[d]),
                    );
                }
            }
            // content hashes
            let got: BTreeSet<[u8; 32]> = sut
                .store
                .content_hashes()
                .expect("content_hashes")
                .map(|h| *h.expect("hash").as_bytes())
                .collect();
            let want: BTreeSet<[u8; 32]> = model
                .iter()
                .flat_map(|m| m.entries.iter().map(|e| *e.content_hash().as_bytes()))
                .collect();
            if got != want {
                fail(
                    report,
                    "content_hashes_equal_held_entries",
                    json!({"missing": want.difference(&got).count(), "extra": got.difference(&want).count()}),
                    format!("content_hashes has {} hashes, entries hold {}", got.len(), want.len()),
                );
            }
            observed = format!("{ev:?}");
        }
    }
    let key = format!(
        "{txn_kind}|{:?}",
        (0..NDOCS)
            .map(|d| (observe(&mut sut, d), model[d].open))
            .collect::<Vec<_>>()
    );
    Some(Outcome {
        key,
        observed,
        enabled: None,
        })
}

// ---------------------------------------------------------------------------------------------
// Family "gc_protect": the hashes the *engine* hands to the blob store's garbage collector.
//
// The last sentence of the property is about what the store reports "for garbage-collection
// protection"; the path from `Store::content_hashes` to the collector goes through the engine's
// protect task (src/engine.rs `gc_protect_task`: store actor -> bounded channel -> `ProtectCb`).
// A real `Engine` is spawned on a single-threaded runtime (one deterministic schedule: the task
// runs until its channel is full, then the callback drains it) and a script of writes, prefix
// deletions, duplicate contents and document removals is applied through the engine's store
// handle; after *every* step the collector's callback is invoked exactly like the collector
// does, and the live set it is given must equal the hashes of all entries held (computed from
// the store's own queries and from the reference model), for every size 0..=N of the store —
// which crosses the capacity of every channel on the way.

#[derive(Debug, Clone, Copy, PartialEq, Eq, Serialize, Deserialize)]
enum GcStep {
    /// write key `k{i:04}` in document d with content i (distinct hash per i)
    Write(u8, u16),
    /// write key `d{i:04}` in document d with the same content as `Write(_, i)` (duplicate hash)
    Dup(u8, u16),
    /// delete every key of document d starting with `k{p:03}` (ten keys)
    DelPrefix(u8, u16),
    /// close and remove document d
    Remove(u8),
}

fn gc_hash(i: u16) -> iroh_blobs::Hash {
    iroh_blobs::Hash::new(format!("gc content {i}"))
}

fn gc_scripts(quick: bool) -> Vec<(&'static str, Vec<GcStep>)> {
    let n: u16 = if quick { 140 } else { 600 };
    let mut one = vec![];
    for i in 0..n {
        one.push(GcStep::Write(0, i));
    }
    for p in 0..(n / 10) {
        one.push(GcStep::DelPrefix(0, p));
    }
    let mut two = vec![];
    for i in 0..n {
        two.push(GcStep::Write((i % 2) as u8, i));
    }
    two.push(GcStep::Remove(0));
    for i in n..n + 70 {
        two.push(GcStep::Write(1, i));
    }
    two.push(GcStep::Remove(1));
    let mut dups = vec![];
    for i in 0..n / 2 {
        dups.push(GcStep::Write(0, i));
        dups.push(GcStep::Dup(1, i));
    }
    dups.push(GcStep::Remove(0));
    for p in 0..(n / 20) {
        dups.push(GcStep::DelPrefix(1, p));
    }
    vec![("one_document", one), ("two_documents", two), ("duplicate_contents", dups)]
}

struct GcNode {
    engine: iroh_docs::engine::Engine,
    cb: iroh_blobs::store::ProtectCb,
    _blobs: iroh_blobs::store::mem::MemStore,
}

async fn gc_node() -> anyhow::Result<GcNode> {
    use iroh::endpoint::presets;
    let ep = iroh::Endpoint::builder(presets::Minimal)
        .secret_key(iroh::SecretKey::from_bytes(&[0x31; 32]))
        .bind()
        .await
        .map_err(|e| anyhow::anyhow!("bind: {e}"))?;
    let gossip = iroh_gossip::net::Gossip::builder().spawn(ep.clone());
    let blobs = iroh_blobs::store::mem::MemStore::new();
    let downloader = blobs.downloader(&ep);
    let mut store = iroh_docs::store::Store::memory();
    store.import_namespace(Capability::Write(ns_secret(0)))?;
    store.import_namespace(Capability::Write(ns_secret(1)))?;
    store.import_author(author(0))?;
    let (handler, cb) = iroh_docs::engine::ProtectCallbackHandler::new();
    let engine = iroh_docs::engine::Engine::spawn(
        ep,
        gossip,
        store,
        (*blobs).clone(),
        downloader,
        iroh_docs::engine::DefaultAuthorStorage::Mem,
        Some(handler),
    )
    .await?;
    for d in 0..2u8 {
        engine.sync.open(ns_id(d), Default::default()).await?;
    }
    Ok(GcNode {
        engine,
        cb,
        _blobs: blobs,
    })
}

/// Runs `script[..upto]`, checking after every step; returns (checks made, largest live set).
fn gc_run(name: &str, script: &[GcStep], report: &mut Report, ordinal: u64) -> (u64, u64) {
    use std::collections::BTreeMap;
    set_clock(NOW);
    let mut checks = 0u64;
    let mut largest = 0u64;
    let res: anyhow::Result<()> = crate::sut::block_on(async {
        let node = gc_node().await?;
        let sync = &node.engine.sync;
        // reference: per document key -> hash
        let mut model: [BTreeMap<Vec<u8>, iroh_blobs::Hash>; 2] = [BTreeMap::new(), BTreeMap::new()];
        let mut removed = [false; 2];
        for (si, step) in std::iter::once(None).chain(script.iter().map(Some)).enumerate() {
            // every step is strictly newer than the ones before it, so that a prefix deletion
            // removes everything below the prefix
            set_clock(NOW + si as u64);
            match step {
                None => {}
                Some(GcStep::Write(d, i)) | Some(GcStep::Dup(d, i)) => {
                    let key = match step.unwrap() {
                        GcStep::Write(..) => format!("k{i:04}").into_bytes(),
                        _ => format!("d{i:04}").into_bytes(),
                    };
                    let h = gc_hash(*i);
                    sync.insert_local(ns_id(*d), author_id(0), key.clone().into(), h, 7).await?;
                    model[*d as usize].insert(key, h);
                }
                Some(GcStep::DelPrefix(d, p)) => {
                    let prefix = format!("k{p:03}").into_bytes();
                    sync.delete_prefix(ns_id(*d), author_id(0), prefix.clone().into()).await?;
                    let m = &mut model[*d as usize];
                    m.retain(|k, _| !k.starts_with(&prefix));
                    m.insert(prefix, iroh_blobs::Hash::EMPTY);
                }
                Some(GcStep::Remove(d)) => {
                    sync.close(ns_id(*d)).await?;
                    sync.drop_replica(ns_id(*d)).await?;
                    model[*d as usize].clear();
                    removed[*d as usize] = true;
                }
            }
            // what the collector is told
            let mut live = std::collections::HashSet::new();
            let outcome = (node.cb)(&mut live).await;
            let live: BTreeSet<[u8; 32]> = live.into_iter().map(|h| *h.as_bytes()).collect();
            // what is held, by the reference and by the store's own query
            let want: BTreeSet<[u8; 32]> = model.iter().flat_map(|m| m.values().map(|h| *h.as_bytes())).collect();
            let mut held: BTreeSet<[u8; 32]> = BTreeSet::new();
            for d in 0..2u8 {
                if removed[d as usize] {
                    continue;
                }
                for e in crate::sut::handle_get_many(sync, ns_id(d), iroh_docs::store::Query::all().include_empty().build()).await.map_err(anyhow::Error::msg)? {
                    held.insert(*e.content_hash().as_bytes());
                }
            }
            checks += 1;
            largest = largest.max(want.len() as u64);
            let continue_ = matches!(outcome, iroh_blobs::store::ProtectOutcome::Continue);
            if live != want || held != want || !continue_ {
                report.violation(
                    "gc_protection_set_equals_hashes_held",
                    json!({"engine_path": true, "collector_told_to_continue": continue_, "missing": want.difference(&live).count(), "surplus": live.difference(&want).count()}),
                    json!({"family": "gc_protect", "script": name, "upto": si}),
                    format!(
                        "script {name}, after step {si} ({step:?}): held {} distinct hashes (store query: {}), the collector was given {} ({} held ones missing, {} not held) and outcome continue={continue_}",
                        want.len(), held.len(), live.len(), want.difference(&live).count(), live.difference(&want).count()
                    ),
                    ordinal,
                );
                break;
            }
        }
        // the docs engine stops while the blob store (and its collector) lives on: the store can
        // no longer be asked what is held, so the collector must not be told to go ahead with a
        // set that misses held hashes
        let want: BTreeSet<[u8; 32]> = model.iter().flat_map(|m| m.values().map(|h| *h.as_bytes())).collect();
        let _ = node.engine.shutdown().await;
        let mut live = std::collections::HashSet::new();
        let outcome = (node.cb)(&mut live).await;
        let live: BTreeSet<[u8; 32]> = live.into_iter().map(|h| *h.as_bytes()).collect();
        let continue_ = matches!(outcome, iroh_blobs::store::ProtectOutcome::Continue);
        checks += 1;
        if continue_ && !want.is_subset(&live) {
            report.violation(
                "gc_protection_set_equals_hashes_held",
                json!({"engine_path": true, "collector_told_to_continue": true, "after_engine_shutdown": true, "missing": want.difference(&live).count()}),
                json!({"family": "gc_protect", "script": name, "upto": script.len()}),
                format!("script {name}: after the docs engine was shut down the collector was told to continue with {} protected hashes while the documents hold {} ({} of them unprotected)", live.len(), want.len(), want.difference(&live).count()),
                ordinal,
            );
        }
        Ok(())
    });
    if let Err(e) = res {
        report.violation(
            "gc_protection_set_equals_hashes_held",
            json!({"engine_path": true, "error": true}),
            json!({"family": "gc_protect", "script": name, "upto": script.len()}),
            format!("script {name}: {e:#}"),
            ordinal,
        );
    }
    (checks, largest)
}

/// The collector asks while the store actor cannot answer for `stall_ms`: it is blocked in an
/// insert, waiting for a subscriber whose one-slot channel is read only later. Whenever the
/// callback comes back with "continue", the set it filled must protect every hash held.
fn gc_stalled(stall_ms: u64) -> Vec<(&'static str, Value, String)> {
    set_clock(NOW);
    let mut bad = vec![];
    let res: anyhow::Result<()> = crate::sut::block_on(async {
        let node = gc_node().await?;
        let sync = node.engine.sync.clone();
        let mut want: BTreeSet<[u8; 32]> = BTreeSet::new();
        for i in 0..7u16 {
            set_clock(NOW + i as u64);
            sync.insert_local(ns_id(0), author_id(0), format!("k{i:04}").into_bytes().into(), gc_hash(i), 7).await?;
            want.insert(*gc_hash(i).as_bytes());
        }
        let (tx, rx) = async_channel::bounded(1);
        sync.subscribe(ns_id(0), tx).await?;
        // the first insert fills the subscriber's channel, the second one blocks the actor
        set_clock(NOW + 10);
        sync.insert_local(ns_id(0), author_id(0), b"k0100".to_vec().into(), gc_hash(100), 7).await?;
        want.insert(*gc_hash(100).as_bytes());
        let s2 = sync.clone();
        let blocked = tokio::task::spawn(async move {
            set_clock(NOW + 11);
            let _ = s2.insert_local(ns_id(0), author_id(0), b"k0101".to_vec().into(), gc_hash(101), 7).await;
        });
        tokio::time::sleep(std::time::Duration::from_millis(100)).await;
        let reader = tokio::task::spawn(async move {
            tokio::time::sleep(std::time::Duration::from_millis(stall_ms)).await;
            while rx.recv().await.is_ok() {}
        });
        let mut live = std::collections::HashSet::new();
        let asked = std::time::Instant::now();
        let outcome = (node.cb)(&mut live).await;
        let waited = asked.elapsed();
        let live: BTreeSet<[u8; 32]> = live.into_iter().map(|h| *h.as_bytes()).collect();
        if matches!(outcome, iroh_blobs::store::ProtectOutcome::Continue) && !want.is_subset(&live) {
            bad.push((
                "gc_protection_set_equals_hashes_held",
                json!({"engine_path": true, "collector_told_to_continue": true, "actor_stalled": true, "missing": want.difference(&live).count()}),
                format!("the store actor was blocked for {stall_ms} ms (slow subscriber) while the collector asked; after {waited:?} the collector was told to continue with {} protected hashes while the documents hold at least {} ({} of them unprotected)", live.len(), want.len(), want.difference(&live).count()),
            ));
        }
        let _ = blocked.await;
        reader.abort();
        let _ = node.engine.shutdown().await;
        Ok(())
    });
    if let Err(e) = res {
        bad.push(("gc_protection_set_equals_hashes_held", json!({"engine_path": true, "error": true, "actor_stalled": true}), format!("stalled-actor scenario: {e:#}")));
    }
    bad
}

/// A big document between its byte-order neighbours: document `victim` (one of the three
/// neighbour-id documents) holds 1100 entries by 11 authors (among them the all-zero and the
/// all-0xFF author id); it is removed, looked at, re-created and looked at again.
fn big_removal(victim: usize) -> Vec<(&'static str, String)> {
    set_clock(NOW);
    iroh_docs::verif::set_clock_nanos(Some(5_000_000));
    let mut bad = vec![];
    let mut sut = Sut::memory();
    for d in 0..3 {
        sut.store.import_namespace(capability(d)).expect("import");
        for which in 0..2 {
            iroh_docs::verif::raw_entry_put(&mut sut.store, doc_id(d), entry(d, which)).expect("raw put");
        }
        sut.store.register_useful_peer(doc_id(d), the_peer(d)).expect("peer");
        sut.store.set_download_policy(&doc_id(d), the_policy(d)).expect("policy");
    }
    let mut victim_hashes = BTreeSet::new();
    for a in 0..11u8 {
        let author_bytes = if a == 10 { [0xffu8; 32] } else { [a.wrapping_mul(0x19); 32] };
        for k in 0..100u32 {
            let mut id = doc_id(victim).to_bytes().to_vec();
            id.extend_from_slice(&author_bytes);
            id.extend_from_slice(format!("k{k:03}").as_bytes());
            let hash = *blake3::hash(&[a, (k >> 8) as u8, k as u8]).as_bytes();
            victim_hashes.insert(hash);
            let e = RawSigned { author_sig: [7; 64], ns_sig: [0x99; 64], id, len: 3, hash, ts: T0 + 1 + (k % 5) as u64 }.to_signed().expect("decodes");
            iroh_docs::verif::raw_entry_put(&mut sut.store, doc_id(victim), e).expect("raw put");
        }
    }
    let before: Vec<DocObs> = (0..3).map(|d| observe(&mut sut, d)).collect();
    if before[victim].dump.len() != 1102 {
        bad.push(("MACHINERY", format!("the big document holds {} entries, expected 1102", before[victim].dump.len())));
        return bad;
    }
    let hashes = |sut: &mut Sut| -> BTreeSet<[u8; 32]> { sut.store.content_hashes().expect("content_hashes").map(|h| *h.expect("hash").as_bytes()).collect() };
    let want_hashes = |obs: &[&DocObs]| -> BTreeSet<[u8; 32]> { obs.iter().flat_map(|o| o.dump.iter().map(|e| *e.content_hash().as_bytes())).collect() };
    if hashes(&mut sut) != want_hashes(&before.iter().collect::<Vec<_>>()) {
        bad.push(("content_hashes_equal_held_entries", "before the removal of the big document".to_string()));
    }
    if let Err(e) = sut.store.remove_replica(&doc_id(victim)) {
        bad.push(("remove_succeeds_when_closed", format!("big document {victim}: {e:#}")));
    }
    let gone = DocObs { listed: None, dump: vec![], by_key: vec![], heads: vec![], peers: None, policy: Default::default() };
    for stage in ["removed", "re-created"] {
        if stage == "re-created" {
            sut.store.import_namespace(capability(victim)).expect("import");
        }
        for d in 0..3 {
            let now = observe(&mut sut, d);
            if d == victim {
                let mut want = gone.clone();
                if stage == "re-created" {
                    want.listed = Some(CapabilityKind2::Read);
                }
                if now != want {
                    bad.push(("removed_document_is_unobservable", format!("big document {victim} ({stage}): {} entries, {} by-key rows, {} heads, peers {:?}, listed {:?} are still observable", now.dump.len(), now.by_key.len(), now.heads.len(), now.peers.as_ref().map(|p| p.len()), now.listed)));
                }
            } else if now != before[d] {
                bad.push(("other_documents_untouched", format!("big document {victim} {stage}: neighbour document {d} changed ({} -> {} entries, {} -> {} heads)", before[d].dump.len(), now.dump.len(), before[d].heads.len(), now.heads.len())));
            }
        }
        let others: Vec<&DocObs> = (0..3).filter(|d| *d != victim).map(|d| &before[d]).collect();
        if hashes(&mut sut) != want_hashes(&others) {
            bad.push(("content_hashes_equal_held_entries", format!("big document {victim} {stage}")));
        }
    }
    iroh_docs::verif::set_clock_nanos(None);
    bad
}

fn run(ctx: &Ctx, report: &mut Report) {
    crate::util::silence_panics();
    if ctx.shard == 11 % ctx.of {
        let stall_ms = if ctx.quick() { 6500 } else { 22000 };
        report.evaluations += 1;
        report.nontrivial += 1;
        report.count("gc_callback_while_the_actor_is_stalled", 1);
        let case = json!({"gc_stalled_ms": stall_ms});
        match catch(|| gc_stalled(stall_ms)) {
            Err(p) => report.violation("no_panic", json!({"gc_stalled": true}), case, format!("panic: {p}"), 0),
            Ok(bad) => {
                for (o, w, d) in bad {
                    report.violation(o, w, case.clone(), d, 0);
                }
            }
        }
    }
    for victim in 0..3usize {
        if ctx.shard != (7 + victim as u64) % ctx.of {
            continue;
        }
        report.evaluations += 1;
        report.nontrivial += 1;
        report.count("big_removals", 1);
        let case = json!({"big_removal": victim});
        match catch(|| big_removal(victim)) {
            Err(p) => report.violation("no_panic", json!({"big": true}), case, format!("panic: {p}"), 0),
            Ok(bad) => {
                for (o, d) in bad {
                    if o == "MACHINERY" {
                        report.machinery_error(d);
                    } else {
                        report.violation(o, json!({"big": true}), case.clone(), d, 0);
                    }
                }
            }
        }
    }
    super::apifam::run_life_family(ctx, report, "C16");
    let evs = events();
    report.fact("events", json!(evs.len()));
    for (family, pre) in [("empty", vec![]), ("populated", populate_events())] {
        let depth = match (ctx.quick(), family) {
            (true, "empty") => 3,
            (true, _) => 4,
            (false, _) => 5,
        };
        let mut evals = 0u64;
        let mut nontrivial = 0u64;
        let stats = bfs_nd(ctx, report, &evs, depth, 1, 2, |h, report, ordinal| {
            evals += 1;
            let removes_nonempty = h.iter().enumerate().any(|(i, e)| match e {
                Ev::Remove(d) => {
                    family == "populated" || h[..i].iter().any(|p| matches!(p, Ev::Write(x, _) if x == d))
                }
                _ => false,
            });
            if removes_nonempty {
                nontrivial += 1;
            }
            match catch(|| {
                let mut local = Report::default();
                let o = exec(&pre, h, &mut local, ordinal, family);
                (o, local)
            }) {
                Err(p) => {
                    report.violation(
                        "no_panic",
                        json!({}),
                        json!({"pre": pre, "hist": h, "family": family}),
                        format!("panic: {p}"),
                        ordinal,
                    );
                    None
                }
                Ok((o, local)) => {
                    report.merge(local);
                    if removes_nonempty && h.len() >= 2 {
                        report.sample(|| json!({"family": family, "history": h.iter().map(|e| format!("{e:?}")).collect::<Vec<_>>()}));
                    }
                    o
                }
            }
        });
        report.evaluations += evals;
        report.nontrivial += nontrivial;
        report.count(&format!("states_{family}"), stats.states);
    }
    // the engine's path to the garbage collector
    for (i, (name, script)) in gc_scripts(ctx.quick()).into_iter().enumerate() {
        if !ctx.mine(i as u64) {
            continue;
        }
        let mut local = Report::default();
        match catch(|| {
            let r = gc_run(name, &script, &mut local, i as u64);
            (r, local)
        }) {
            Err(p) => report.violation(
                "no_panic",
                json!({"engine_path": true}),
                json!({"family": "gc_protect", "script": name, "upto": script.len()}),
                format!("panic: {p}"),
                i as u64,
            ),
            Ok(((checks, largest), local)) => {
                report.merge(local);
                report.evaluations += checks;
                report.nontrivial += checks;
                report.count("gc_protect_checks", checks);
                report.maximum("gc_protect_largest_live_set", largest);
                report.sample(|| json!({"family": "gc_protect", "script": name, "steps": script.len()}));
            }
        }
    }
}

fn replay(case: &Value) -> anyhow::Result<(bool, String)> {
    if let Some(ms) = case.get("gc_stalled_ms").and_then(|v| v.as_u64()) {
        return match catch(|| gc_stalled(ms)) {
            Err(p) => Ok((true, format!("panic: {p}"))),
            Ok(bad) => {
                let out: String = bad.iter().map(|(o, _, _)| format!("FAILED {o}\n")).collect();
                for (_, _, d) in &bad {
                    eprintln!("detail: {d}");
                }
                Ok((!bad.is_empty(), format!("collector asks while the store actor is stalled for {ms} ms\n{out}")))
            }
        };
    }
    if let Some(v) = case.get("big_removal").and_then(|v| v.as_u64()) {
        return match catch(|| big_removal(v as usize)) {
            Err(p) => Ok((true, format!("panic: {p}"))),
            Ok(bad) => {
                let out: String = bad.iter().map(|(o, d)| format!("FAILED {o}: {d}\n")).collect();
                Ok((!bad.is_empty(), format!("removal of big document {v}\n{out}")))
            }
        };
    }
    if let Some(r) = super::apifam::replay_life(case, "C16")? {
        return Ok(r);
    }
    if case["family"] == "gc_protect" {
        let name = case["script"].as_str().unwrap_or("");
        let upto = case["upto"].as_u64().unwrap_or(u64::MAX) as usize;
        let mut local = Report::default();
        for quick in [true, false] {
            if let Some((n, script)) = gc_scripts(quick).into_iter().find(|(n, _)| *n == name) {
                let script = &script[..upto.min(script.len())];
                if catch(|| gc_run(n, script, &mut local, 0)).is_err() {
                    return Ok((true, format!("panic while replaying gc script {name}")));
                }
                if !local.violations.is_empty() {
                    break;
                }
            }
        }
        let mut out = format!("gc_protect script {name} up to step {upto}\n");
        for v in &local.violations {
            out.push_str(&format!("FAILED {}: {}\n", v.oracle, v.detail));
        }
        return Ok((!local.violations.is_empty(), out));
    }
    let pre: Vec<Ev> = serde_json::from_value(case["pre"].clone())?;
    let hist: Vec<Ev> = serde_json::from_value(case["hist"].clone())?;
    let mut local = Report::default();
    match catch(|| exec(&pre, &hist, &mut local, 0, "replay").map(|o| o.observed)) {
        Err(p) => Ok((true, format!("panic: {p}"))),
        Ok(o) => {
            let mut out = format!("pre {pre:?}\nhistory {hist:?}\nenabled={}\n", o.is_some());
            for v in &local.violations {
                out.push_str(&format!("FAILED {}: {}\n", v.oracle, v.detail));
            }
            Ok((!local.violations.is_empty(), out))
        }
    }
}
