//! C08 — reconciliation behaves the same on the redb store as on a plain ordered map.

use iroh_docs::{
    sync::{RecordIdentifier, SignedEntry},
    verif::{OrderedBackend, Primitives},
    NamespaceId,
};
use serde_json::{json, Value};

use super::{c01::case_from_json, c01::case_json, recon::*};
use crate::{
    report::Report,
    sut::Sut,
    universe::{author_id, ns_id, show_entries, show_key, Spec, Val, T0},
    util::{catch, fnv},
    Ctx, PropDef, Tier,
};

pub fn def() -> PropDef {
    PropDef {
        id: "C08",
        level: "model_checking",
        rule: "(a) every ordered pair of reachable states x parameter setting is reconciled three times — in-memory redb, file-backed redb, and a BTreeMap reference backend driven by the crate's own process_message/put through the adapter hook — and the serialized message transcripts and final sets must be identical; (b) for every reachable state (with two neighbouring documents present in the same store) and every range (x,y) over a 28-point identifier lattice (x<y, x>y, x=y), get_range / get_range_len / get_fingerprint / get_first / prefixes_of / remove_prefix_filtered of the real StoreInstance are compared with the ordered-map definitions; non-trivial (a) = non-trivial pair as in C01, (b) = non-empty state",
        assumptions: &[
            "the reference backend is the set-theoretic definition (range membership with wrap-around, byte-prefix, XOR of entry fingerprints) in ascending identifier order, as the crate's own test stand-in does",
            "ranges are taken inside the document's namespace (plus the all-zero default identifier as (d,d)); ranges spanning foreign namespaces are not produced by honest peers and are outside the statement",
        ],
        bound: |t| match t {
            Tier::Quick => json!({"a": "S12<=2 all ordered pairs, default parameters on 3 backends; non-trivial pairs also (1,3),(2,2),(3,4); large family base<->variant with default parameters", "b": "S12<=3 states on memory, S12<=2 on file; 28x28 ranges; prefix removal for 28 prefixes x 3 predicates on S12<=2"}),
            Tier::Thorough => json!({"a": "S24<=2 all ordered pairs x 4 parameter settings x 3 backends; large family base<->variant", "b": "S16<=3 and large-family states on both backends; 28x28 ranges; prefix removal 28 prefixes x 3 predicates"}),
        },
        run,
        replay,
        shards: |_| 16,
    }
}

// ---------------------------------------------------------------------------------------
// (a) differential sessions
// ---------------------------------------------------------------------------------------

fn run_triple(a: &State, b: &State, cfg: Cfg) -> (Vec<(&'static str, Value, String)>, String, usize) {
    let ns = ns_id(0);
    let mut bad = vec![];
    let bound = 4 + 2 * (a.model.len() + b.model.len());
    let mut results = vec![];
    for kind in [BackendKind::Ref, BackendKind::Mem, BackendKind::File] {
        let mut pa = Party::build(kind, 0, &a.offered);
        let mut pb = Party::build(kind, 0, &b.offered);
        match run_session(&mut pa, &mut pb, ns, cfg, bound, None) {
            Ok(s) => results.push((kind, Some(s), pa.dump(ns), pb.dump(ns))),
            Err(e) => {
                bad.push((
                    "session_returns_ok",
                    json!({"backend": kind, "cfg": format!("{cfg:?}")}),
                    format!("{kind:?}: {e:#}"),
                ));
                results.push((kind, None, vec![], vec![]));
            }
        }
    }
    let (_, ref_s, ref_a, ref_b) = &results[0];
    let mut msgs = 0;
    if let Some(ref_s) = ref_s {
        msgs = ref_s.messages;
        for (kind, s, da, db) in &results[1..] {
            let Some(s) = s else { continue };
            if s.transcript != ref_s.transcript {
                let first = s
                    .transcript
                    .iter()
                    .zip(ref_s.transcript.iter())
                    .position(|(x, y)| x != y)
                    .unwrap_or(s.transcript.len().min(ref_s.transcript.len()));
                bad.push((
                    "transcripts_identical",
                    json!({"backend": kind, "cfg": format!("{cfg:?}")}),
                    format!(
                        "{kind:?} transcript differs from the ordered-map reference at message {first} (lengths {} vs {})",
                        s.transcript.len(),
                        ref_s.transcript.len()
                    ),
                ));
            }
            if da != ref_a || db != ref_b {
                bad.push((
                    "final_sets_identical",
                    json!({"backend": kind, "cfg": format!("{cfg:?}")}),
                    format!(
                        "{kind:?} final A={} B={} | reference A={} B={}",
                        show_entries(da),
                        show_entries(db),
                        show_entries(ref_a),
                        show_entries(ref_b)
                    ),
                ));
            }
        }
    }
    let rendering = format!(
        "msgs={} bytes={:?}",
        msgs,
        results[0]
            .1
            .as_ref()
            .map(|s| s.transcript.iter().map(|m| m.len()).collect::<Vec<_>>())
    );
    (bad, rendering, msgs)
}

// ---------------------------------------------------------------------------------------
// (b) primitives
// ---------------------------------------------------------------------------------------

/// The document under test is the median of three universe namespaces, so that the store holds
/// a neighbouring document on each side in byte order.
fn main_and_neighbours() -> (u8, [u8; 2]) {
    let mut v: Vec<(NamespaceId, u8)> = (0..3).map(|i| (ns_id(i), i)).collect();
    v.sort();
    (v[1].1, [v[0].1, v[2].1])
}

fn neighbour_entries(neigh: [u8; 2]) -> Vec<Spec> {
    let mut v = vec![];
    for n in neigh {
        v.push(Spec::new(n, 0, b"", 1, Val::X));
        v.push(Spec::new(n, 0, b"a", 3, Val::Y));
        v.push(Spec::new(n, 1, b"\xff", 2, Val::X));
    }
    v
}

fn lattice(main: u8) -> Vec<RecordIdentifier> {
    let ns = ns_id(main);
    let mut authors: Vec<[u8; 32]> = vec![
        [0u8; 32],
        author_id(0).to_bytes(),
        author_id(1).to_bytes(),
        [0xffu8; 32],
    ];
    authors.sort();
    let keys: [&[u8]; 7] = [b"", b"a", b"a\xff", b"a\xff\xff", b"ab", b"b", b"\xff"];
    let mut v = vec![];
    for a in &authors {
        for k in keys {
            v.push(RecordIdentifier::new(ns, iroh_docs::AuthorId::from(a), k));
        }
    }
    v
}

fn show_id(id: &RecordIdentifier) -> String {
    let (_, a, k) = id.as_byte_tuple();
    format!("({:02x}..,\"{}\")", a[0], show_key(k))
}

fn respec(offered: &[Spec], main: u8) -> Vec<Spec> {
    offered
        .iter()
        .map(|s| Spec {
            ns: main,
            ..s.clone()
        })
        .collect()
}

fn build_real(kind: BackendKind, main: u8, neigh: [u8; 2], offered: &[Spec]) -> Party {
    let mut all = neighbour_entries(neigh);
    all.extend(offered.iter().cloned());
    let mut sut;
    let mut dir = None;
    match kind {
        BackendKind::File => {
            let d = scratch_dir();
            sut = Sut::persistent_with(&d.path().join("docs.redb"), &[0, 1, 2]).expect("store");
            dir = Some(d);
        }
        _ => sut = Sut::memory_with(&[0, 1, 2]),
    }
    crate::props::common::set_clock(crate::universe::NOW);
    for s in &all {
        let _ = sut.remote(ns_id(s.ns), s.signed());
    }
    Party::Real { sut, _dir: dir }
}

fn run_primitives(
    st: &State,
    kind: BackendKind,
    with_removal: bool,
) -> (Vec<(&'static str, Value, String)>, String, u64) {
    let (main, neigh) = main_and_neighbours();
    let ns = ns_id(main);
    let offered = respec(&st.offered, main);
    let mut bad: Vec<(&'static str, Value, String)> = vec![];
    let mut calls = 0u64;
    let mut reference = RefBackend::default();
    {
        // reference content = the survivors per the model
        let signed: Vec<SignedEntry> = offered.iter().map(|s| s.signed()).collect();
        for e in crate::refmodel::ModelReplica::spec(&signed).dump() {
            reference.entry_put(e).unwrap();
        }
    }
    let lat = lattice(main);
    let mut party = build_real(kind, main, neigh, &offered);
    let Party::Real { sut, .. } = &mut party else {
        unreachable!()
    };
    let neigh_before: Vec<_> = neigh.iter().map(|n| sut.dump(ns_id(*n))).collect();
    let mut digest = 0u64;
    {
        let mut replica = sut.store.open_replica(&ns).expect("open");
        let mut p = Primitives(&mut replica);
        let got = p.get_first().expect("get_first");
        let want = reference.get_first().unwrap();
        calls += 1;
        if got != want {
            bad.push((
                "get_first",
                json!({"backend": kind}),
                format!("get_first impl={} def={}", show_id(&got), show_id(&want)),
            ));
        }
        let d = RecordIdentifier::default();
        let mut pairs: Vec<(RecordIdentifier, RecordIdentifier)> = vec![(d.clone(), d)];
        for x in &lat {
            for y in &lat {
                pairs.push((x.clone(), y.clone()));
            }
        }
        for (x, y) in &pairs {
            calls += 3;
            let got = p.get_range(x.clone(), y.clone()).expect("get_range");
            let want = reference.get_range(x, y).unwrap();
            let shape = match x.cmp(y) {
                std::cmp::Ordering::Less => "x<y",
                std::cmp::Ordering::Greater => "x>y",
                std::cmp::Ordering::Equal => "x=y",
            };
            if got != want {
                bad.push((
                    "get_range",
                    json!({"backend": kind, "shape": shape}),
                    format!(
                        "get_range({},{}) impl={} def={}",
                        show_id(x),
                        show_id(y),
                        show_entries(&got),
                        show_entries(&want)
                    ),
                ));
            }
            let n = p.get_range_len(x.clone(), y.clone()).expect("len");
            if n != want.len() {
                bad.push((
                    "get_range_len",
                    json!({"backend": kind, "shape": shape}),
                    format!(
                        "get_range_len({},{}) impl={n} def={}",
                        show_id(x),
                        show_id(y),
                        want.len()
                    ),
                ));
            }
            let fp = p.get_fingerprint(x.clone(), y.clone()).expect("fp");
            let wfp = reference.get_fingerprint(x, y).unwrap();
            if fp != wfp {
                bad.push((
                    "get_fingerprint",
                    json!({"backend": kind, "shape": shape}),
                    format!("get_fingerprint({},{}) differs", show_id(x), show_id(y)),
                ));
            }
            digest = digest
                .wrapping_mul(31)
                .wrapping_add(fnv(&fp) ^ want.len() as u64);
        }
        for k in &lat {
            calls += 1;
            let got = p.prefixes_of(k).expect("prefixes_of");
            let want = reference.prefixes_of(k).unwrap();
            if got != want {
                bad.push((
                    "prefixes_of",
                    json!({"backend": kind}),
                    format!(
                        "prefixes_of({}) impl={} def={}",
                        show_id(k),
                        show_entries(&got),
                        show_entries(&want)
                    ),
                ));
            }
        }
        drop(replica);
        sut.store.close_replica(ns);
    }
    if with_removal {
        let preds: [(&str, fn(&iroh_docs::sync::Record) -> bool); 3] = [
            ("all", |_| true),
            ("ts<=2", |r| r.timestamp() <= T0 + 2),
            ("none", |_| false),
        ];
        for k in &lat {
            for (pname, pred) in preds {
                calls += 1;
                let mut party = build_real(kind, main, neigh, &offered);
                let Party::Real { sut, .. } = &mut party else {
                    unreachable!()
                };
                let mut reference2 = reference.clone();
                let want_n = reference2.remove_prefix_filtered(k, &pred).unwrap();
                let got_n = {
                    let mut replica = sut.store.open_replica(&ns).expect("open");
                    let n = Primitives(&mut replica)
                        .remove_prefix_filtered(k, pred)
                        .expect("remove_prefix_filtered");
                    drop(replica);
                    sut.store.close_replica(ns);
                    n
                };
                let got_dump = sut.dump(ns);
                let want_dump: Vec<SignedEntry> = reference2.map.values().cloned().collect();
                if got_n != want_n || got_dump != want_dump {
                    bad.push((
                        "remove_prefix_filtered",
                        json!({"backend": kind, "pred": pname}),
                        format!(
                            "remove_prefix_filtered({}, {pname}) impl removed {got_n} left {} | def removed {want_n} left {}",
                            show_id(k),
                            show_entries(&got_dump),
                            show_entries(&want_dump)
                        ),
                    ));
                }
                for (i, n) in neigh.iter().enumerate() {
                    if sut.dump(ns_id(*n)) != neigh_before[i] {
                        bad.push((
                            "remove_prefix_filtered_touches_only_this_document",
                            json!({"backend": kind, "pred": pname}),
                            format!(
                                "remove_prefix_filtered({}, {pname}) changed neighbouring document N{n}",
                                show_id(k)
                            ),
                        ));
                    }
                }
            }
        }
    }
    // life cycle: the primitives on a document that was removed and created again in the same
    // store (after they had been asked on the populated document) are those of the empty set
    if !with_removal {
        let mut party2 = build_real(kind, main, neigh, &offered);
        let Party::Real { sut, .. } = &mut party2 else {
            unreachable!()
        };
        let d = RecordIdentifier::default();
        {
            let mut replica = sut.store.open_replica(&ns).expect("open");
            let mut p = Primitives(&mut replica);
            let _ = p.get_fingerprint(d.clone(), d.clone());
            let _ = p.get_first();
            let _ = p.get_range_len(d.clone(), d.clone());
        }
        sut.store.close_replica(ns);
        let removed = sut.store.remove_replica(&ns);
        let created = sut.store.import_namespace(iroh_docs::Capability::Write(crate::universe::ns_secret(main)));
        if removed.is_err() || created.is_err() {
            bad.push(("remove_and_recreate", json!({"backend": kind}), format!("{removed:?} {:?}", created.map(|_| ()))));
        } else {
            let mut empty = RefBackend::default();
            let mut replica = sut.store.open_replica(&ns).expect("open");
            let mut p = Primitives(&mut replica);
            let mut pairs = vec![(d.clone(), d.clone())];
            if let (Some(x), Some(y)) = (lat.first(), lat.last()) {
                pairs.push((x.clone(), y.clone()));
                pairs.push((y.clone(), x.clone()));
            }
            for (x, y) in &pairs {
                calls += 3;
                let fp = p.get_fingerprint(x.clone(), y.clone()).expect("fp");
                let got = p.get_range(x.clone(), y.clone()).expect("get_range");
                let n = p.get_range_len(x.clone(), y.clone()).expect("len");
                if fp != empty.get_fingerprint(x, y).unwrap() || !got.is_empty() || n != 0 {
                    bad.push((
                        "primitives_after_remove_and_recreate",
                        json!({"backend": kind, "fingerprint_differs": fp != empty.get_fingerprint(x, y).unwrap(), "range_not_empty": !got.is_empty() || n != 0}),
                        format!("document removed and created again: get_fingerprint / get_range / get_range_len ({},{}) are not those of the empty set (range {} entries, len {n})", show_id(x), show_id(y), got.len()),
                    ));
                }
            }
        }
    }
    (bad, format!("{digest:016x}"), calls)
}

// ---------------------------------------------------------------------------------------

fn run(ctx: &Ctx, report: &mut Report) {
    crate::util::silence_panics();
    let mut ordinal = 0u64;
    let quick = ctx.quick();
    // (a)
    let (pair_states, large) = if quick {
        (states_from_subsets(&universe12(), 2), large_family())
    } else {
        (states_from_subsets(&universe24(), 2), large_family())
    };
    report.fact("pair_states", json!(pair_states.len()));
    for a in &pair_states {
        for b in &pair_states {
            let nt = nontrivial_pair(a, b);
            for (ci, cfg) in CFGS.iter().enumerate() {
                if quick && ci > 0 && !nt {
                    continue;
                }
                ordinal += 1;
                if !ctx.mine(ordinal) {
                    continue;
                }
                one_triple(report, a, b, *cfg, ordinal);
            }
        }
    }
    if let Some(base) = large.first() {
        for v in &large {
            for cfg in CFGS {
                if quick && cfg != DEFAULT_CFG {
                    continue;
                }
                for (a, b) in [(base, v), (v, base)] {
                    ordinal += 1;
                    if ctx.mine(ordinal) {
                        one_triple(report, a, b, cfg, ordinal);
                    }
                }
            }
        }
    }
    // (b)
    let prim_states: Vec<(State, bool)> = if quick {
        let small: std::collections::BTreeSet<Vec<Spec>> = states_from_subsets(&universe12(), 2)
            .into_iter()
            .map(|s| s.canon)
            .collect();
        states_from_subsets(&universe12(), 3)
            .into_iter()
            .map(|s| {
                let is_small = small.contains(&s.canon);
                (s, is_small)
            })
            .collect()
    } else {
        states_from_subsets(&universe16(), 3)
            .into_iter()
            .chain(large_family())
            .map(|s| (s, true))
            .collect()
    };
    report.fact("primitive_states", json!(prim_states.len()));
    for (st, full) in &prim_states {
        for kind in [BackendKind::Mem, BackendKind::File] {
            if kind == BackendKind::File && !*full {
                continue;
            }
            ordinal += 1;
            if !ctx.mine(ordinal) {
                continue;
            }
            report.evaluations += 1;
            report.traces += 1;
            if !st.canon.is_empty() {
                report.nontrivial += 1;
            }
            let case = json!({"primitives": true, "offered": st.offered, "backend": kind, "removal": *full});
            let _watch = crate::util::watch::enter("store primitives on one state", case.clone());
            match catch(|| run_primitives(st, kind, *full)) {
                Err(p) => report.violation(
                    "no_panic",
                    json!({"backend": kind}),
                    case,
                    format!("panic: {p}"),
                    ordinal,
                ),
                Ok((bad, digest, calls)) => {
                    report.transitions += calls;
                    report.count("primitive_calls", calls);
                                        report.outcome(format!("p{digest}"));
                    if report.samples.len() < 2 && st.canon.len() >= 2 {
                        let canon: Vec<String> = st.canon.iter().map(|s| s.to_string()).collect();
                        report.samples.push(json!({"primitives_on_state": canon, "backend": kind, "calls": calls, "range_digest": digest}));
                    }
                    for (o, w, d) in bad {
                        report.violation(o, w, case.clone(), d, ordinal);
                    }
                }
            }
        }
    }
}

fn one_triple(report: &mut Report, a: &State, b: &State, cfg: Cfg, ordinal: u64) {
    report.evaluations += 1;
    report.traces += 3;
    let nt = nontrivial_pair(a, b);
    if nt {
        report.nontrivial += 1;
    }
    let case = || case_json(&a.offered, &b.offered, cfg, BackendKind::Ref);
    let _watch = crate::util::watch::enter("three-backend session", case());
    match catch(|| run_triple(a, b, cfg)) {
        Err(p) => report.violation(
            "no_panic",
            json!({"cfg": format!("{cfg:?}")}),
            case(),
            format!("panic: {p}"),
            ordinal,
        ),
        Ok((bad, rendering, msgs)) => {
            report.transitions += 3 * msgs as u64;
            report.count("sessions", 3);
                        report.outcome(format!("{:016x}", fnv(rendering.as_bytes())));
            for (o, w, d) in bad {
                report.violation(o, w, case(), d, ordinal);
            }
            if nt && (msgs >= 4 || report.samples.is_empty()) {
                report.sample(|| {
                    json!({"a": a.canon.iter().map(|s| s.to_string()).collect::<Vec<_>>(),
                           "b": b.canon.iter().map(|s| s.to_string()).collect::<Vec<_>>(),
                           "cfg": [cfg.0, cfg.1], "observed": rendering})
                });
            }
        }
    }
}

fn replay(case: &Value) -> anyhow::Result<(bool, String)> {
    if case.get("primitives").is_some() {
        let offered: Vec<Spec> = serde_json::from_value(case["offered"].clone())?;
        let kind: BackendKind = serde_json::from_value(case["backend"].clone())?;
        let removal = case["removal"].as_bool().unwrap_or(true);
        let st = state_of(offered);
        return match catch(|| run_primitives(&st, kind, removal)) {
            Err(p) => Ok((true, format!("panic: {p}"))),
            Ok((bad, digest, _)) => {
                let mut out = format!("digest {digest}\n");
                for (o, _, d) in &bad {
                    out.push_str(&format!("FAILED {o}: {d}\n"));
                }
                Ok((!bad.is_empty(), out))
            }
        };
    }
    let (a, b, cfg, _) = case_from_json(case)?;
    match catch(|| run_triple(&a, &b, cfg)) {
        Err(p) => Ok((true, format!("panic: {p}"))),
        Ok((bad, rendering, _)) => {
            let mut out = format!("observed: {rendering}\n");
            for (o, _, d) in &bad {
                out.push_str(&format!("FAILED {o}: {d}\n"));
            }
            Ok((!bad.is_empty(), out))
        }
    }
}
