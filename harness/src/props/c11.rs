//! C11 — at most one sync session per peer and document, and the slot is always freed.

use std::cell::RefCell;

use iroh::{PublicKey, SecretKey};
use iroh_docs::{
    actor::SyncHandle,
    engine::{
        verif::{set_dial_log, take_dials, LiveActor, SyncReport, ToLiveActor, VerifPeerSnapshot},
        Origin, SyncReason,
    },
    net::{AbortReason, AcceptError, AcceptOutcome, ConnectError, SyncFinished, Timings},
    store::Store,
    Capability, NamespaceId, SyncOutcome,
};
use serde::{Deserialize, Serialize};
use serde_json::{json, Value};

use crate::{
    explore::{bfs_nd, Outcome as BfsOutcome},
    report::Report,
    sut::{block_on, block_on_park},
    universe::{author_id, ns_id, ns_secret, Spec, Val, T0},
    util::catch,
    Ctx, PropDef, Tier,
};

pub fn def() -> PropDef {
    PropDef {
        id: "C11",
        level: "model_checking",
        rule: "explicit-state search over two real LiveActors (never run; driven through their own handlers) sharing a document: events {Trigger(node, NewNeighbor|SyncReport|DirectJoin) -> sync_with_peer (an approved dial is logged instead of being spawned), Deliver(dial) -> the acceptor's accept_sync_request, Lose(dial), for a declined dial the two independent completions (RemoteAbort at the initiator, AcceptError::Abort at the acceptor), for an accepted dial InitiatorDone(ok|fail) and AcceptorDone(ok | exchange failed: AcceptError::Sync | exchange ran, closing failed: AcceptError::Close) in any order; Down(node) (in the search that delivers actor messages: the gossip layer reports the peer as no longer a neighbour, at most once per history; nothing about the pair may change); Leave(node) (the coordination part of leaving the document; at most one per history and final within it); Resync dials emitted by the handlers are captured from the dial log}, up to N dials; invariants S1 (at most one accepted dial with both ends unfinished), S2 (crossing dials: exactly one Allow and one Reject(AlreadySyncing)), S3 (a refused sync report leads to exactly one follow-up dial at the end of the busy period, never a spurious one), S4 (in every quiescent state both nodes are Idle for the pair and will dial and accept), S5 (a document outside the sync set — never joined, or left, whatever completions of older sessions arrive afterwards — is declined NotFound and not dialed); canonical state = both coordination snapshots + multiset of in-flight dials and pending completions; non-trivial = histories with a declined, lost or failed dial or two dials in flight at once",
        assumptions: &[
            "besides the coordination state the handlers read only whether a content download of the document is queued (explored both ways, constant within a search) and the subscriber list (empty), which is why merging on the snapshot preserves futures",
            "network behaviour is abstracted as: a dial is delivered or lost; the two ends of a session complete independently, successfully or not",
        ],
        bound: |t| match t {
            Tier::Quick => json!({"searches": ["3 dials, no leave", "3 dials, one leave (trigger reasons NewNeighbor and SyncReport only)", "3 dials, no leave, a download of the document queued"], "trigger_reasons": ["NewNeighbor", "SyncReport", "DirectJoin"]}),
            Tier::Thorough => json!({"searches": ["4 dials, no leave", "4 dials, one leave", "4 dials, no leave, a download of the document queued"], "trigger_reasons": ["NewNeighbor", "SyncReport", "DirectJoin"]}),
        },
        run,
        replay,
        shards: |_| 16,
    }
}

#[derive(Debug, Clone, Copy, PartialEq, Eq, PartialOrd, Ord, Serialize, Deserialize)]
pub enum Reason {
    NewNeighbor,
    SyncReport,
    DirectJoin,
}

impl Reason {
    fn to(self) -> SyncReason {
        match self {
            Reason::NewNeighbor => SyncReason::NewNeighbor,
            Reason::SyncReport => SyncReason::SyncReport,
            Reason::DirectJoin => SyncReason::DirectJoin,
        }
    }
}

#[derive(Debug, Clone, Copy, PartialEq, Eq, Serialize, Deserialize)]
pub enum Ev {
    Trigger(u8, Reason),
    Deliver(usize),
    Lose(usize),
    InitDone(usize, bool),
    AccDone(usize, bool),
    /// the acceptor's end of an accepted dial finishes with a failure of the *closing* step (the
    /// exchange ran, then the streams could not be closed: `AcceptError::Close`); for the
    /// statement the same as `AccDone(d, false)`
    AccCloseFail(usize),
    /// the node stops syncing the document (coordination part of `leave`)
    Leave(u8),
    /// the node syncs the document again (coordination part of `start_sync`)
    Join(u8),
    /// the application calls the real `start_sync` again for the document the node is already
    /// syncing (the normal way to add peers; here without peers): nothing about the pair changes
    StartAgain(u8),
    /// the gossip layer tells the node that the peer is no longer its neighbour (`NeighborDown`
    /// delivered as an actor message): says nothing about sessions, must change nothing for the pair
    Down(u8),
}

#[derive(Debug, Clone, PartialEq, Eq, PartialOrd, Ord)]
enum DialState {
    InFlight,
    /// never arrives; the initiator's connect error is pending
    Lost,
    Declined {
        reason: u8,
        init_pending: bool,
        acc_pending: bool,
    },
    Accepted {
        init_pending: bool,
        acc_pending: bool,
    },
}

#[derive(Debug, Clone)]
struct Dial {
    from: u8,
    reason: SyncReason,
    state: DialState,
    /// number of completion events seen when this dial was approved
    approved_at: u32,
    /// decision taken at delivery
    decision: Option<bool>,
    decided_at: u32,
    /// leave/join epoch of the initiator when the dial was approved, of the acceptor when it
    /// was accepted
    epoch_init: u32,
    epoch_acc: u32,
}

impl Dial {
    fn live(&self) -> bool {
        match &self.state {
            DialState::InFlight | DialState::Lost => true,
            DialState::Declined {
                init_pending,
                acc_pending,
                ..
            }
            | DialState::Accepted {
                init_pending,
                acc_pending,
            } => *init_pending || *acc_pending,
        }
    }
    fn initiator_busy(&self) -> bool {
        match &self.state {
            DialState::InFlight | DialState::Lost => true,
            DialState::Declined { init_pending, .. } | DialState::Accepted { init_pending, .. } => {
                *init_pending
            }
        }
    }
    fn acceptor_busy(&self) -> bool {
        matches!(&self.state, DialState::Accepted { acc_pending: true, .. })
    }
}

struct Node {
    actor: LiveActor,
    id: PublicKey,
    _sync: SyncHandle,
    _blobs: iroh_blobs::store::mem::MemStore,
    _tx: tokio::sync::mpsc::Sender<iroh_docs::engine::verif::ToLiveActor>,
}

struct Pair {
    nodes: [Node; 2],
}

thread_local! {
    static PAIR: RefCell<Option<Pair>> = const { RefCell::new(None) };
}

fn ns() -> NamespaceId {
    ns_id(0)
}
fn other_ns() -> NamespaceId {
    ns_id(1)
}

async fn make_node(seed: u8) -> anyhow::Result<Node> {
    use iroh::endpoint::presets;
    let sk = SecretKey::from_bytes(&[seed; 32]);
    let ep = iroh::Endpoint::builder(presets::Minimal)
        .secret_key(sk)
        .bind()
        .await
        .map_err(|e| anyhow::anyhow!("bind: {e}"))?;
    let gossip = iroh_gossip::net::Gossip::builder().spawn(ep.clone());
    let blobs = iroh_blobs::store::mem::MemStore::new();
    let downloader = blobs.downloader(&ep);
    let mut store = Store::memory();
    store.import_namespace(Capability::Write(ns_secret(0)))?;
    store.import_namespace(Capability::Write(ns_secret(1)))?;
    {
        // the shared document holds one entry (author 0 at T0+2), so that a neighbour's report
        // can be news or not (searches that deliver triggers as actor messages)
        let mut r = store.open_replica(&ns())?;
        r.insert_remote_entry(
            Spec::new(0, 0, b"a", 2, Val::X).signed(),
            crate::sut::PEER,
            iroh_docs::ContentStatus::Missing,
        )
        .await
        .map_err(|e| anyhow::anyhow!("seed entry: {e}"))?;
        drop(r);
        store.close_replica(ns());
    }
    let sync = SyncHandle::spawn(store, None, format!("c11-{seed}"));
    let (tx, rx) = tokio::sync::mpsc::channel(64);
    let id = ep.id();
    let actor = LiveActor::new(
        sync.clone(),
        ep,
        gossip,
        (*blobs).clone(),
        downloader,
        rx,
        tx.clone(),
        sync.metrics().clone(),
    )?;
    Ok(Node {
        actor,
        id,
        _sync: sync,
        _blobs: blobs,
        _tx: tx,
    })
}

fn with_pair<T>(f: impl FnOnce(&mut Pair) -> T) -> T {
    PAIR.with(|p| {
        let mut p = p.borrow_mut();
        if p.is_none() {
            set_dial_log(true);
            // no swarm traffic: `start_sync` / `join_peers` skip the gossip topic (hook)
            iroh_docs::engine::verif::set_gossip_joins_disabled(true);
            let pair = block_on(async {
                let mut a = make_node(0x21).await.expect("node a");
                let mut b = make_node(0x22).await.expect("node b");
                // put the document into the sync set once (opens it in the store actor and
                // joins the gossip topic without peers); later resets only touch the
                // coordination state
                a.actor.verif_start_sync(ns(), vec![]).await.expect("start_sync");
                b.actor.verif_start_sync(ns(), vec![]).await.expect("start_sync");
                // each node knows the other as a useful peer of the document from the start
                // (successful sessions register it anyway): a later `start_sync` dials it
                a._sync.register_useful_peer(ns(), *b.id.as_bytes()).await.expect("register");
                b._sync.register_useful_peer(ns(), *a.id.as_bytes()).await.expect("register");
                Pair { nodes: [a, b] }
            });
            *p = Some(pair);
        }
        f(p.as_mut().unwrap())
    })
}

fn reset(pair: &mut Pair) {
    set_dial_log(true);
    for n in pair.nodes.iter_mut() {
        // also undoes a Leave of the previous history
        n.actor.verif_state_leave(&ns());
        n.actor.verif_state_join(ns());
    }
    let _ = take_dials();
}

fn finished(peer: PublicKey) -> SyncFinished {
    SyncFinished {
        namespace: ns(),
        peer,
        outcome: SyncOutcome::default(),
        timings: Timings::default(),
    }
}

fn reason_of(code: u8) -> AbortReason {
    match code {
        0 => AbortReason::NotFound,
        1 => AbortReason::AlreadySyncing,
        _ => AbortReason::InternalServerError,
    }
}
fn code_of(r: AbortReason) -> u8 {
    match r {
        AbortReason::NotFound => 0,
        AbortReason::AlreadySyncing => 1,
        AbortReason::InternalServerError => 2,
    }
}

fn show_snap(s: &VerifPeerSnapshot) -> String {
    format!(
        "{}{}",
        match &s.running {
            None => "Idle".to_string(),
            Some(Origin::Accept) => "Running{Accept}".to_string(),
            Some(Origin::Connect(r)) => format!("Running{{Connect({r:?})}}"),
        },
        if s.resync_requested { "+resync" } else { "" }
    )
}

type Bad = Vec<(&'static str, Value, String)>;

/// An activity of a node: (dial index, true = the node is the acceptor of that dial).
type Activity = (usize, bool);

struct Model {
    dials: Vec<Dial>,
    completions: u32,
    /// the most recently started unfinished activity of each node ("the session that is
    /// running" from the node's point of view)
    current: [Option<Activity>; 2],
    /// a sync report was refused while this activity was the node's current one
    flagged: [Option<Activity>; 2],
    /// is the document in the node's sync set
    joined: [bool; 2],
    /// incremented at every leave: completions of dials from an earlier epoch are stale
    epoch: [u32; 2],
    leaves: u32,
    restarts: u32,
    downs: u32,
}

impl Model {
    fn busy(&self, n: u8) -> bool {
        let e = self.epoch[n as usize];
        self.dials.iter().any(|d| {
            (d.from == n && d.initiator_busy() && d.epoch_init == e)
                || (d.from != n && d.acceptor_busy() && d.epoch_acc == e)
        })
    }
}

/// Execute a history. Returns None if the last event is not enabled.
/// A neighbour's sync report naming `author` at `ts`.
fn report_bytes(heads: &[(u8, u64)]) -> Vec<u8> {
    let mut h = iroh_docs::AuthorHeads::default();
    for (a, t) in heads {
        h.insert(author_id(*a), *t);
    }
    h.encode(None).expect("encode heads")
}

/// For C13 (d): does an idle node whose shared document additionally holds `extra` dial the sender
/// of a sync report naming `heads` for `report_ns`? The report goes through `on_actor_message` ->
/// `on_sync_report` (decode, `has_news_for_us` of the store actor, `sync_with_peer`). Entries are
/// only ever added to the node's document (callers pass growing sets).
pub fn sync_report_dials(extra: &[Spec], report_ns: u8, heads: &[(u8, u64)]) -> (bool, bool, Vec<(iroh_docs::AuthorId, u64)>) {
    sync_report_dials_after(extra, report_ns, heads, false)
}

/// `after_session`: before the report arrives the node completes a successful session with the
/// same peer in which the peer named exactly these heads — but none of the entries entered the
/// replica (e.g. they were refused as too far in the future at the time). What counts as news is
/// decided by what the document holds, not by what the peer has said before.
pub fn sync_report_dials_after(extra: &[Spec], report_ns: u8, heads: &[(u8, u64)], after_session: bool) -> (bool, bool, Vec<(iroh_docs::AuthorId, u64)>) {
    with_pair(|pair| {
        reset(pair);
        let peer = pair.nodes[1].id;
        let node = &mut pair.nodes[0];
        node.actor.verif_set_download_queued(ns(), false);
        if after_session {
            node.actor.verif_sync_with_peer(ns(), peer, SyncReason::NewNeighbor);
            let _ = take_dials();
            let mut outcome = SyncOutcome::default();
            for (a, t) in heads {
                outcome.heads_received.insert(author_id(*a), *t);
            }
            outcome.num_recv = heads.len();
            block_on_park(node.actor.verif_on_sync_via_connect_finished(ns(), peer, SyncReason::NewNeighbor, Ok(SyncFinished { namespace: ns(), peer, outcome, timings: Timings::default() })));
            let _ = take_dials();
        }
        for e in extra {
            let _ = block_on_park(node._sync.insert_remote(ns(), e.signed(), crate::sut::PEER, iroh_docs::ContentStatus::Missing));
        }
        let held: Vec<(iroh_docs::AuthorId, u64)> = block_on_park(crate::sut::handle_dump(&node._sync, ns()))
            .expect("dump")
            .iter()
            .map(|e| (e.author(), e.timestamp()))
            .collect();
        let report = SyncReport::verif_new(ns_id(report_ns), report_bytes(heads));
        let _ = block_on_park(node.actor.verif_on_actor_message(ToLiveActor::IncomingSyncReport { from: peer, report: report.clone() }));
        let dialed = !take_dials().is_empty();
        // the neighbour repeats its report after the dial it caused has come to nothing (a dial
        // that is lost fetches no entries): the verdict must be the same as the first time
        if dialed {
            block_on_park(node.actor.verif_on_sync_via_connect_finished(
                ns(),
                peer,
                SyncReason::SyncReport,
                Err(ConnectError::Connect { error: anyhow::anyhow!("lost") }),
            ));
            let _ = take_dials();
        }
        let _ = block_on_park(node.actor.verif_on_actor_message(ToLiveActor::IncomingSyncReport { from: peer, report }));
        let dialed_again = !take_dials().is_empty();
        (dialed, dialed_again, held)
    })
}

fn exec(hist: &[Ev], max_dials: usize, max_leaves: u32, mode: u8) -> Option<(Bad, String, String, Vec<Ev>)> {
    let queued = mode & 1 != 0;
    // triggers and requests are delivered as messages to the actor (`on_actor_message`): a
    // neighbour coming up, a neighbour's sync report (decoded and compared with the document's
    // heads by the real handler), an accept request with its reply channel
    let via_messages = mode & 2 != 0;
    with_pair(|pair| {
        reset(pair);
        // environment of the completion handlers: is a content download of the document queued?
        for n in pair.nodes.iter_mut() {
            n.actor.verif_set_download_queued(ns(), queued);
        }
        let ids = [pair.nodes[0].id, pair.nodes[1].id];
        let mut m = Model {
            dials: vec![],
            completions: 0,
            current: [None; 2],
            flagged: [None; 2],
            joined: [true; 2],
            epoch: [0; 2],
            leaves: 0,
            restarts: 0,
            downs: 0,
        };
        let mut bad: Bad = vec![];
        let mut observed = String::new();
        for (i, ev) in hist.iter().enumerate() {
            let last = i + 1 == hist.len();
            let mut step_bad: Bad = vec![];
            // which node's handler runs (for S3 accounting) and whether it is a completion
            let mut completion_at: Option<u8> = None;
            match *ev {
                Ev::Trigger(..) | Ev::StartAgain(..) => {
                    // `StartAgain`: the application calls the real `start_sync` for the document
                    // the node is already syncing. The peer is among the document's stored useful
                    // peers (set-up), so this is a DirectJoin trigger that arrives through
                    // `start_sync` -> `join_peers` and must be treated exactly like one.
                    let (n, reason, again) = match *ev {
                        Ev::Trigger(n, r) => (n, r, false),
                        Ev::StartAgain(n) => (n, Reason::DirectJoin, true),
                        _ => unreachable!(),
                    };
                    if again && (mode & 4 == 0 || !m.joined[n as usize] || m.restarts >= 1) {
                        return None;
                    }
                    if m.dials.len() >= max_dials {
                        return None;
                    }
                    if again {
                        m.restarts += 1;
                    }
                    let was_busy = m.busy(n);
                    let peer = ids[1 - n as usize];
                    if again {
                        let res = block_on_park(pair.nodes[n as usize].actor.verif_start_sync(ns(), vec![]));
                        if let Err(e) = res {
                            step_bad.push(("repeated_start_sync_succeeds", json!({}), format!("node {n}: start_sync on a syncing document failed: {e:#}")));
                        }
                    } else if via_messages && reason != Reason::DirectJoin {
                        let actor = &mut pair.nodes[n as usize].actor;
                        match reason {
                            Reason::NewNeighbor => {
                                let _ = block_on_park(actor.verif_on_actor_message(ToLiveActor::NeighborUp { namespace: ns(), peer }));
                            }
                            _ => {
                                // news: a strictly newer head of a known author / an unknown author
                                let heads = if i % 2 == 0 { vec![(0u8, T0 + 3)] } else { vec![(0u8, T0 + 2), (1u8, 0)] };
                                let report = SyncReport::verif_new(ns(), report_bytes(&heads));
                                let _ = block_on_park(actor.verif_on_actor_message(ToLiveActor::IncomingSyncReport { from: peer, report }));
                            }
                        }
                    } else {
                        pair.nodes[n as usize]
                            .actor
                            .verif_sync_with_peer(ns(), peer, reason.to());
                    }
                    let dials = take_dials();
                    observed = format!("Trigger({n},{reason:?})->{}", if dials.is_empty() { "refused" } else { "dial" });
                    match dials.len() {
                        0 if !m.joined[n as usize] => {
                            // a node that left the document must not dial for it
                        }
                        _ if !m.joined[n as usize] => {
                            step_bad.push((
                                "S5_left_document_is_not_dialed",
                                json!({}),
                                format!("node {n} dialed for a document it has left"),
                            ));
                        }
                        0 => {
                            if !was_busy {
                                step_bad.push((
                                    "S4_idle_node_dials",
                                    json!({"trigger": format!("{reason:?}")}),
                                    format!("node {n} refused to dial although nothing is in flight for it (state {})", show_snap(&pair.nodes[n as usize].actor.verif_snapshot(&ns(), &peer))),
                                ));
                            }
                            if reason == Reason::SyncReport && was_busy {
                                if let Some(a) = m.current[n as usize] {
                                    m.flagged[n as usize] = Some(a);
                                }
                            }
                            // a refused trigger changes nothing else; keep exploring (the resync
                            // flag is part of the state)
                        }
                        1 => {
                            m.dials.push(Dial {
                                from: n,
                                reason: reason.to(),
                                state: DialState::InFlight,
                                approved_at: m.completions,
                                decision: None,
                                decided_at: 0,
                                epoch_init: m.epoch[n as usize],
                                epoch_acc: 0,
                            });
                            m.current[n as usize] = Some((m.dials.len() - 1, false));
                            // a fresh dial fetches the news itself
                            m.flagged[n as usize] = None;
                        }
                        k => step_bad.push(("one_dial_per_trigger", json!({}), format!("{k} dials for one trigger"))),
                    }
                }
                Ev::Deliver(d) => {
                    let dial = m.dials.get(d)?.clone();
                    if dial.state != DialState::InFlight {
                        return None;
                    }
                    let acc = 1 - dial.from;
                    let outcome = if via_messages {
                        let (reply, mut rx) = tokio::sync::oneshot::channel();
                        let _ = block_on_park(pair.nodes[acc as usize].actor.verif_on_actor_message(ToLiveActor::AcceptSyncRequest {
                            namespace: ns(),
                            peer: ids[dial.from as usize],
                            reply,
                        }));
                        match rx.try_recv() {
                            Ok(o) => o,
                            Err(_) => {
                                step_bad.push(("accept_request_is_answered", json!({}), format!("node {acc} did not answer an accept request")));
                                AcceptOutcome::Reject(AbortReason::InternalServerError)
                            }
                        }
                    } else {
                        pair.nodes[acc as usize]
                            .actor
                            .accept_sync_request(ns(), ids[dial.from as usize])
                    };
                    observed = format!("Deliver({d})->{outcome:?}");
                    let allow = matches!(outcome, AcceptOutcome::Allow);
                    // S2: crossing dials
                    if let Some(other) = m.dials.iter().filter(|_| m.joined[0] && m.joined[1]).find(|o| {
                        o.from == acc
                            && o.decision.is_some()
                            && o.epoch_init == m.epoch[acc as usize]
                            && dial.epoch_init == m.epoch[dial.from as usize]
                            && o.approved_at == m.completions
                            && dial.approved_at == m.completions
                    }) {
                        let other_allow = other.decision.unwrap();
                        let ok = allow != other_allow
                            && match &outcome {
                                AcceptOutcome::Allow => true,
                                AcceptOutcome::Reject(r) => *r == AbortReason::AlreadySyncing,
                            };
                        if !ok {
                            step_bad.push((
                                "S2_crossing_dials_exactly_one_accepted",
                                json!({"both_allowed": allow && other_allow, "both_declined": !allow && !other_allow}),
                                format!("crossing dials: first decided allow={other_allow}, second decided {outcome:?}"),
                            ));
                        }
                    }
                    if !m.joined[acc as usize] {
                        if !matches!(outcome, AcceptOutcome::Reject(AbortReason::NotFound)) {
                            step_bad.push((
                                "S5_left_document_not_found",
                                json!({"answer": format!("{outcome:?}")}),
                                format!("node {acc} has left the document but answered {outcome:?} to a request for it"),
                            ));
                        }
                    }
                    let joined_acc = m.joined[acc as usize];
                    let epoch_acc = m.epoch[acc as usize];
                    let dm = &mut m.dials[d];
                    dm.decision = Some(allow);
                    dm.decided_at = m.completions;
                    dm.epoch_acc = epoch_acc;
                    match outcome {
                        AcceptOutcome::Reject(AbortReason::NotFound) if !joined_acc => {
                            dm.state = DialState::Declined {
                                reason: 0,
                                init_pending: true,
                                acc_pending: true,
                            };
                        }
                        AcceptOutcome::Allow => {
                            dm.state = DialState::Accepted {
                                init_pending: true,
                                acc_pending: true,
                            };
                            // a session accepted after a refused report covers the news
                            m.current[acc as usize] = Some((d, true));
                            m.flagged[acc as usize] = None;
                        }
                        AcceptOutcome::Reject(r) => {
                            dm.state = DialState::Declined {
                                reason: code_of(r),
                                init_pending: true,
                                acc_pending: true,
                            };
                            if r != AbortReason::AlreadySyncing || !m.busy(acc) {
                                if r == AbortReason::AlreadySyncing {
                                    step_bad.push((
                                        "S4_idle_node_accepts",
                                        json!({}),
                                        format!("node {acc} declined AlreadySyncing although nothing is in flight for it (state {})", show_snap(&pair.nodes[acc as usize].actor.verif_snapshot(&ns(), &ids[dial.from as usize]))),
                                    ));
                                } else {
                                    step_bad.push((
                                        "request_for_synced_document_not_declined_otherwise",
                                        json!({}),
                                        format!("declined with {r:?}"),
                                    ));
                                }
                            }
                        }
                    }
                }
                Ev::Lose(d) => {
                    let dial = m.dials.get_mut(d)?;
                    if dial.state != DialState::InFlight {
                        return None;
                    }
                    dial.state = DialState::Lost;
                    observed = format!("Lose({d})");
                }
                Ev::Down(n) => {
                    if mode & 2 == 0 || m.downs >= 1 {
                        return None;
                    }
                    m.downs += 1;
                    let peer = ids[1 - n as usize];
                    let _ = block_on_park(pair.nodes[n as usize].actor.verif_on_actor_message(ToLiveActor::NeighborDown { namespace: ns(), peer }));
                    let dials = take_dials();
                    if !dials.is_empty() {
                        step_bad.push(("neighbor_down_starts_nothing", json!({}), format!("node {n}: NeighborDown led to {} dials", dials.len())));
                    }
                    observed = format!("Down({n})");
                }
                Ev::Leave(n) => {
                    if !m.joined[n as usize] || m.leaves >= max_leaves {
                        return None;
                    }
                    pair.nodes[n as usize].actor.verif_state_leave(&ns());
                    m.joined[n as usize] = false;
                    m.epoch[n as usize] += 1;
                    m.leaves += 1;
                    m.current[n as usize] = None;
                    m.flagged[n as usize] = None;
                    observed = format!("Leave({n})");
                }
                Ev::Join(n) => {
                    // Re-joining while dials of the previous membership are still in flight is
                    // outside the quantifier of the property (see DESIGN C11); leaving is final
                    // within a history.
                    if m.joined[n as usize] || true {
                        return None;
                    }
                    pair.nodes[n as usize].actor.verif_state_join(ns());
                    m.joined[n as usize] = true;
                    observed = format!("Join({n})");
                }
                Ev::InitDone(d, ok) => {
                    let dial = m.dials.get(d)?.clone();
                    let n = dial.from;
                    let peer = ids[1 - n as usize];
                    let result: Result<SyncFinished, ConnectError> = match &dial.state {
                        DialState::Lost => {
                            if ok {
                                return None;
                            }
                            Err(ConnectError::Connect {
                                error: anyhow::anyhow!("request lost"),
                            })
                        }
                        DialState::Declined {
                            reason,
                            init_pending: true,
                            ..
                        } => {
                            if ok {
                                return None;
                            }
                            Err(ConnectError::RemoteAbort(reason_of(*reason)))
                        }
                        DialState::Accepted {
                            init_pending: true, ..
                        } => {
                            if ok {
                                Ok(finished(peer))
                            } else {
                                Err(ConnectError::Sync {
                                    error: anyhow::anyhow!("synthetic failure"),
                                })
                            }
                        }
                        _ => return None,
                    };
                    block_on_park(pair.nodes[n as usize].actor.verif_on_sync_via_connect_finished(
                        ns(),
                        peer,
                        dial.reason,
                        result,
                    ));
                    match &mut m.dials[d].state {
                        s @ DialState::Lost => {
                            *s = DialState::Declined {
                                reason: 9,
                                init_pending: false,
                                acc_pending: false,
                            }
                        }
                        DialState::Declined { init_pending, .. }
                        | DialState::Accepted { init_pending, .. } => *init_pending = false,
                        _ => {}
                    }
                    m.completions += 1;
                    completion_at = Some(n);
                    observed = format!("InitDone({d},{ok})");
                }
                Ev::AccDone(..) | Ev::AccCloseFail(_) => {
                    let (d, ok, close_fail) = match *ev {
                        Ev::AccDone(d, ok) => (d, ok, false),
                        Ev::AccCloseFail(d) => (d, false, true),
                        _ => unreachable!(),
                    };
                    let dial = m.dials.get(d)?.clone();
                    let acc = 1 - dial.from;
                    let peer = ids[dial.from as usize];
                    let result: Result<SyncFinished, AcceptError> = match &dial.state {
                        DialState::Declined {
                            reason,
                            acc_pending: true,
                            ..
                        } => {
                            if ok || close_fail {
                                return None;
                            }
                            Err(AcceptError::Abort {
                                peer,
                                namespace: ns(),
                                reason: reason_of(*reason),
                            })
                        }
                        DialState::Accepted {
                            acc_pending: true, ..
                        } => {
                            if ok {
                                Ok(finished(peer))
                            } else if close_fail {
                                Err(AcceptError::Close {
                                    peer,
                                    namespace: Some(ns()),
                                    error: anyhow::anyhow!("synthetic failure while closing"),
                                })
                            } else {
                                Err(AcceptError::Sync {
                                    peer,
                                    namespace: Some(ns()),
                                    error: anyhow::anyhow!("synthetic failure"),
                                })
                            }
                        }
                        _ => return None,
                    };
                    block_on_park(
                        pair.nodes[acc as usize]
                            .actor
                            .verif_on_sync_via_accept_finished(result),
                    );
                    match &mut m.dials[d].state {
                        DialState::Declined { acc_pending, .. }
                        | DialState::Accepted { acc_pending, .. } => *acc_pending = false,
                        _ => {}
                    }
                    m.completions += 1;
                    completion_at = Some(acc);
                    observed = format!("AccDone({d},{ok})");
                }
            }
            // dials emitted by completion handlers (Resync)
            if let Some(n) = completion_at {
                let new = take_dials();
                let (d, as_acceptor) = match *ev {
                    Ev::InitDone(d, _) => (d, false),
                    Ev::AccDone(d, _) | Ev::AccCloseFail(d) => (d, true),
                    _ => unreachable!(),
                };
                let activity: Activity = (d, as_acceptor);
                // a declined request is no activity of the acceptor at all
                let acceptor_of_declined = as_acceptor && matches!(m.dials[d].state, DialState::Declined { .. });
                let declined_busy = !as_acceptor && matches!(m.dials[d].state, DialState::Declined { reason: 1, .. });
                let dial_epoch = if as_acceptor { m.dials[d].epoch_acc } else { m.dials[d].epoch_init };
                let is_current = m.current[n as usize] == Some(activity) && dial_epoch == m.epoch[n as usize];
                let flagged = m.flagged[n as usize] == Some(activity);
                let resyncs: Vec<_> = new.iter().filter(|(me, _, _, r)| *me == ids[n as usize] && *r == SyncReason::Resync).collect();
                if new.len() != resyncs.len() {
                    step_bad.push(("S3_only_resync_dials_from_completions", json!({}), format!("completion at node {n} produced dials {:?}", new.iter().map(|d| d.3).collect::<Vec<_>>())));
                }
                if resyncs.len() > 1 {
                    step_bad.push(("S3_at_most_one_follow_up", json!({}), format!("{} follow-up dials", resyncs.len())));
                }
                let (min, max) = if acceptor_of_declined || !is_current {
                    // stale completion (an older dial of this node finishing while a newer
                    // session is the current one), or our own decline: nothing may be dialed
                    (0, 0)
                } else if declined_busy {
                    // the peer was busy: no session ran; a follow-up is allowed but not required
                    (0, if flagged { 1 } else { 0 })
                } else if flagged {
                    (1, 1)
                } else {
                    (0, 0)
                };
                if resyncs.len() < min {
                    step_bad.push((
                        "S3_refused_report_gets_follow_up",
                        json!({"after": observed.split('(').next().unwrap_or("").to_string()}),
                        format!("node {n}: a sync report was refused while this session was running; it ended with {observed}, but no follow-up dial was made (state {})", show_snap(&pair.nodes[n as usize].actor.verif_snapshot(&ns(), &ids[1 - n as usize]))),
                    ));
                }
                if resyncs.len() > max {
                    step_bad.push((
                        "S3_no_spurious_follow_up",
                        json!({"stale_completion_of_older_dial": !is_current && !acceptor_of_declined, "report_was_refused": m.flagged[n as usize].is_some(),
                               "older_dial_has_same_reason_as_current_dial": !as_acceptor && m.current[n as usize].map(|(cd, acc)| !acc && cd != d && m.dials[cd].reason == m.dials[d].reason).unwrap_or(false)}),
                        format!("node {n}: follow-up dial at {observed} although {}", if !is_current { "this completion belongs to an older dial, not to the session that is running" } else { "no sync report was refused during this session" }),
                    ));
                }
                if is_current && !acceptor_of_declined {
                    m.current[n as usize] = None;
                    if flagged {
                        m.flagged[n as usize] = None;
                    }
                }
                for (_, _, _, r) in new {
                    if m.dials.len() < max_dials + 2 {
                        m.dials.push(Dial {
                            from: n,
                            reason: r,
                            state: DialState::InFlight,
                            approved_at: m.completions,
                            decision: None,
                            decided_at: 0,
                            epoch_init: m.epoch[n as usize],
                            epoch_acc: 0,
                        });
                        m.current[n as usize] = Some((m.dials.len() - 1, false));
                        m.flagged[n as usize] = None;
                    }
                }
            }
            // S1: at most one session in progress
            let running = m
                .dials
                .iter()
                .filter(|d| matches!(d.state, DialState::Accepted { init_pending: true, acc_pending: true }))
                .count();
            if running > 1 {
                step_bad.push((
                    "S1_at_most_one_session_in_progress",
                    json!({}),
                    format!("{running} accepted sessions with both ends unfinished"),
                ));
            }
            // S5: the document is in the node's sync set iff the node has not left it — whatever
            // completions of older sessions arrive afterwards
            for n in 0..2u8 {
                let s = pair.nodes[n as usize].actor.verif_snapshot(&ns(), &ids[1 - n as usize]);
                if s.syncing != m.joined[n as usize] {
                    step_bad.push((
                        "S5_sync_set_membership",
                        json!({"resurrected_after_leave": s.syncing}),
                        format!("node {n}: document in sync set = {}, but the node has {} it (after {observed})", s.syncing, if m.joined[n as usize] { "joined" } else { "left" }),
                    ));
                }
            }
            // S4: quiescent => idle
            if m.dials.iter().all(|d| !d.live()) {
                for n in 0..2u8 {
                    let s = pair.nodes[n as usize].actor.verif_snapshot(&ns(), &ids[1 - n as usize]);
                    if s.running.is_some() {
                        let last_init = hist[..=i].iter().rev().find_map(|e| match e {
                            Ev::InitDone(d, _) => Some(format!("{:?}", m.dials[*d].state)),
                            _ => None,
                        });
                        step_bad.push((
                            "S4_quiescent_means_idle",
                            json!({"stuck": show_snap(&s).split('+').next().unwrap_or("").to_string(), "a_dial_was_declined_already_syncing": m.dials.iter().any(|d| matches!(d.state, DialState::Declined{reason: 1, ..}))}),
                            format!("nothing is in flight, but node {n} is {} (last initiator completion: {last_init:?})", show_snap(&s)),
                        ));
                    }
                }
            }
            if last {
                bad.extend(step_bad);
            }
        }
        // S5 + operational S4 at the end of the history (these probes change state, which is
        // discarded with the next reset)
        let quiescent = m.dials.iter().all(|d| !d.live());
        let snaps = [
            pair.nodes[0].actor.verif_snapshot(&ns(), &ids[1]),
            pair.nodes[1].actor.verif_snapshot(&ns(), &ids[0]),
        ];
        let mut live: Vec<String> = m
            .dials
            .iter()
            .filter(|d| d.live())
            .map(|d| format!("{}:{:?}:{:?}:{}{}", d.from, d.reason, d.state, d.epoch_init == m.epoch[d.from as usize], d.epoch_acc == m.epoch[1 - d.from as usize]))
            .collect();
        live.sort();
        let key = format!(
            "{:?}{:?}{}r{}d{}|{}|{}|{:?}|n{}|{:?}",
            m.joined,
            snaps.iter().map(|s| s.syncing).collect::<Vec<_>>(),
            m.leaves,
            m.restarts,
            m.downs,
            show_snap(&snaps[0]),
            show_snap(&snaps[1]),
            live,
            m.dials.len().min(max_dials),
            (0..2)
                .map(|n| {
                    let cur = m.current[n].map(|(d, acc)| format!("{}:{:?}:{acc}", m.dials[d].from, m.dials[d].state));
                    (cur, m.flagged[n].is_some() && m.flagged[n] == m.current[n])
                })
                .collect::<Vec<_>>()
        );
        for n in 0..2usize {
            let o = pair.nodes[n].actor.accept_sync_request(other_ns(), ids[1 - n]);
            if !matches!(o, AcceptOutcome::Reject(AbortReason::NotFound)) {
                bad.push(("S5_unsynced_document_not_found", json!({}), format!("node {n}: {o:?}")));
            }
        }
        for n in 0..2usize {
            if !m.joined[n] {
                let o = pair.nodes[n].actor.accept_sync_request(ns(), ids[1 - n]);
                if !matches!(o, AcceptOutcome::Reject(AbortReason::NotFound)) {
                    bad.push(("S5_left_document_not_found", json!({"answer": format!("{o:?}")}), format!("node {n} has left the document but answers {o:?}")));
                }
            }
        }
        if quiescent {
            for n in 0..2usize {
                if !m.joined[n] {
                    continue;
                }
                let o = pair.nodes[n].actor.accept_sync_request(ns(), ids[1 - n]);
                if !matches!(o, AcceptOutcome::Allow) {
                    bad.push((
                        "S4_quiescent_node_accepts",
                        json!({}),
                        format!("nothing in flight, but node {n} answers {o:?} to a request"),
                    ));
                }
            }
        }
        // events enabled in the reached state (by the model's bookkeeping of the dials)
        let mut enabled = vec![];
        if m.dials.len() < max_dials {
            for n in 0..2u8 {
                for r in [Reason::NewNeighbor, Reason::SyncReport, Reason::DirectJoin] {
                    enabled.push(Ev::Trigger(n, r));
                }
            }
        }
        for n in 0..2u8 {
            if m.joined[n as usize] && m.leaves < max_leaves {
                enabled.push(Ev::Leave(n));
            }
            if mode & 4 != 0 && m.joined[n as usize] && m.restarts < 1 {
                enabled.push(Ev::StartAgain(n));
            }
            if mode & 2 != 0 && m.downs < 1 {
                enabled.push(Ev::Down(n));
            }
        }
        for (d, dial) in m.dials.iter().enumerate() {
            match &dial.state {
                DialState::InFlight => {
                    enabled.push(Ev::Deliver(d));
                    enabled.push(Ev::Lose(d));
                }
                DialState::Lost => enabled.push(Ev::InitDone(d, false)),
                DialState::Declined { init_pending, acc_pending, .. } => {
                    if *init_pending {
                        enabled.push(Ev::InitDone(d, false));
                    }
                    if *acc_pending {
                        enabled.push(Ev::AccDone(d, false));
                    }
                }
                DialState::Accepted { init_pending, acc_pending } => {
                    if *init_pending {
                        enabled.push(Ev::InitDone(d, true));
                        enabled.push(Ev::InitDone(d, false));
                    }
                    if *acc_pending {
                        enabled.push(Ev::AccDone(d, true));
                        enabled.push(Ev::AccDone(d, false));
                        enabled.push(Ev::AccCloseFail(d));
                    }
                }
            }
        }
        Some((bad, key, observed, enabled))
    })
}

fn events(max_dials: usize, all_reasons: bool) -> Vec<Ev> {
    let mut v = vec![];
    // NewNeighbor and DirectJoin are treated identically by the coordination code (only
    // SyncReport queues a follow-up); the quick tier therefore leaves DirectJoin out
    let reasons: &[Reason] = if all_reasons {
        &[Reason::NewNeighbor, Reason::SyncReport, Reason::DirectJoin]
    } else {
        &[Reason::NewNeighbor, Reason::SyncReport]
    };
    for n in 0..2u8 {
        for r in reasons {
            v.push(Ev::Trigger(n, *r));
        }
    }
    for n in 0..2u8 {
        v.push(Ev::Leave(n));
        v.push(Ev::StartAgain(n));
        v.push(Ev::Down(n));
    }
    for d in 0..max_dials + 2 {
        v.push(Ev::Deliver(d));
        v.push(Ev::Lose(d));
        v.push(Ev::InitDone(d, true));
        v.push(Ev::InitDone(d, false));
        v.push(Ev::AccDone(d, true));
        v.push(Ev::AccDone(d, false));
        v.push(Ev::AccCloseFail(d));
    }
    v
}

fn run(ctx: &Ctx, report: &mut Report) {
    crate::util::silence_panics();
    // real nodes: in every node's own record the sessions with one peer never overlap, and after
    // all traffic has ended a node that is asked for a session gets one (or at least a failure)
    super::live::run_live_family(ctx, report, "C11");
    super::live::run_decline_family(ctx, report, "C11");
    // (dials, leaves): the second search adds "a node leaves the document" with one dial less
    // the third search repeats the first with a content download of the document queued at both
    // nodes (the only other thing the completion handlers read besides the coordination state)
    // the fourth search delivers triggers and requests as actor messages (mode bit 1)
    let searches: Vec<(usize, u32, u8)> = if ctx.quick() {
        vec![(3, 0, 0), (3, 1, 0), (3, 0, 1), (2, 1, 2), (2, 0, 4)]
    } else {
        vec![(4, 0, 0), (4, 1, 0), (4, 0, 1), (3, 1, 2), (3, 0, 4)]
    };
    for (max_dials, max_leaves, mode) in searches {
        let queued = mode & 1 != 0;
        let t0 = std::time::Instant::now();
        // quick tier: the search with a leave uses two trigger reasons (NewNeighbor and DirectJoin
        // differ only in identity for the coordination code); the other searches use all three
        let evs = events(max_dials, !(ctx.quick() && max_leaves > 0));
        let tag = if queued { "_download_queued" } else if mode & 2 != 0 { "_via_actor_messages" } else if mode & 4 != 0 { "_start_sync_again" } else { "" };
        report.fact(&format!("events_{max_dials}_dials_{max_leaves}_leaves{tag}"), json!(evs.len()));
        let depth = 4 * max_dials + 2 + max_leaves as usize + (mode & 4 != 0) as usize;
        let mut evals = 0u64;
        let mut nt = 0u64;
        bfs_nd(ctx, report, &evs, depth, 2, if ctx.quick() { 1 } else { 2 }, |h, report, ordinal| {
            let res = catch(|| exec(h, max_dials, max_leaves, mode));
            let case = json!({"hist": h, "max_dials": max_dials, "max_leaves": max_leaves, "queued": queued, "mode": mode});
            match res {
                Err(p) => {
                    report.violation("no_panic", json!({}), case, format!("panic: {p}"), ordinal);
                    // the pair may be in an arbitrary state; leak it and build a fresh one
                    PAIR.with(|p| std::mem::forget(p.borrow_mut().take()));
                    None
                }
                Ok(None) => None,
                Ok(Some((bad, key, observed, enabled))) => {
                    evals += 1;
                    let mask: Vec<bool> = evs.iter().map(|e| enabled.contains(e)).collect();
                    let nontrivial = h.iter().any(|e| matches!(e, Ev::Lose(_) | Ev::InitDone(_, false) | Ev::AccDone(_, false) | Ev::AccCloseFail(_) | Ev::Leave(_)))
                        || h.windows(2).any(|w| matches!((w[0], w[1]), (Ev::Trigger(a, _), Ev::Trigger(b, _)) if a != b));
                    if nontrivial {
                        nt += 1;
                    }
                    for (o, w, d) in bad {
                        report.violation(o, w, case.clone(), d, ordinal);
                    }
                    if nontrivial && h.len() >= 5 {
                        report.sample(|| json!({"history": h.iter().map(|e| format!("{e:?}")).collect::<Vec<_>>(), "state": key}));
                    }
                    Some(BfsOutcome { key, observed, enabled: Some(mask) })
                }
            }
        });
        report.evaluations += evals;
        report.nontrivial += nt;
        report.maximum(&format!("slowest_worker_ms_{max_dials}_dials_{max_leaves}_leaves{tag}"), t0.elapsed().as_millis() as u64);
        report.count(&format!("worker_ms_sum_{max_dials}_dials_{max_leaves}_leaves{tag}"), t0.elapsed().as_millis() as u64);
    }
}

fn replay(case: &Value) -> anyhow::Result<(bool, String)> {
    if let Some(r) = super::live::replay_live(case, "C11")? {
        return Ok(r);
    }
    if let Some(r) = super::live::replay_decline(case, "C11")? {
        return Ok(r);
    }
    let hist: Vec<Ev> = serde_json::from_value(case["hist"].clone())?;
    let max_dials = case["max_dials"].as_u64().unwrap_or(5) as usize;
    let max_leaves = case["max_leaves"].as_u64().unwrap_or(1) as u32;
    let queued = case["queued"].as_bool().unwrap_or(false);
    let mode = case["mode"].as_u64().map(|m| m as u8).unwrap_or(queued as u8);
    match catch(|| exec(&hist, max_dials, max_leaves, mode)) {
        Err(p) => Ok((true, format!("panic: {p}"))),
        Ok(None) => Ok((false, "history not enabled".into())),
        Ok(Some((bad, key, observed, _))) => {
            let mut out = format!("history {hist:?}\nlast: {observed}\nstate: {key}\n");
            for (o, _, d) in &bad {
                out.push_str(&format!("FAILED {o}: {d}\n"));
            }
            Ok((!bad.is_empty(), out))
        }
    }
}
