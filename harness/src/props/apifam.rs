//! Families that drive the docs API of a node (DocsApi -> RpcActor -> store actor / live actor) on
//! a real Engine: the layer applications call, one above the observation points of the properties.
//! One node per worker serves all histories of a family; every history works on documents of its
//! own (namespace secrets derived from the history's ordinal).

use std::collections::BTreeMap;

use iroh_docs::{
    api::Doc,
    store::{DownloadPolicy, FilterKind, Query},
    Capability, NamespaceId, NamespaceSecret,
};
use n0_future::StreamExt;
use serde::{Deserialize, Serialize};
use serde_json::{json, Value};

use super::common::set_clock;
use crate::{report::Report, sut::block_on, universe::NOW, Ctx};

pub type Bad = Vec<(&'static str, Value, String)>;

pub struct ApiNode {
    pub docs: iroh_docs::protocol::Docs,
    pub author: iroh_docs::AuthorId,
    _blobs: iroh_blobs::store::mem::MemStore,
}

pub async fn api_node() -> anyhow::Result<ApiNode> {
    use iroh::endpoint::presets;
    let ep = iroh::Endpoint::builder(presets::Minimal)
        .secret_key(iroh::SecretKey::from_bytes(&[0x37; 32]))
        .bind()
        .await
        .map_err(|e| anyhow::anyhow!("bind: {e}"))?;
    let gossip = iroh_gossip::net::Gossip::builder().spawn(ep.clone());
    let blobs = iroh_blobs::store::mem::MemStore::new();
    let docs = iroh_docs::protocol::Docs::memory().spawn(ep, (*blobs).clone(), gossip).await?;
    let author = docs.api().author_create().await?;
    Ok(ApiNode { docs, author, _blobs: blobs })
}

pub async fn shutdown(node: &ApiNode) {
    use iroh::protocol::ProtocolHandler;
    node.docs.shutdown().await;
}

pub fn secret(salt: u64, d: u8) -> NamespaceSecret {
    let mut b = [0u8; 32];
    b[..8].copy_from_slice(&salt.to_le_bytes());
    b[8] = d;
    b[9] = 0xA7;
    NamespaceSecret::from_bytes(&b)
}

// ---------------------------------------------------------------------------------------
// Document life cycle through the API (C16) and policies through the API (C15)
// ---------------------------------------------------------------------------------------

#[derive(Debug, Clone, Copy, PartialEq, Eq, Serialize, Deserialize)]
pub enum LEv {
    Write(u8),
    DelPrefix,
    /// set policy number i (0 = the default)
    Policy(u8),
    /// one more handle (`open`)
    Open,
    /// close the most recent handle
    Close,
    /// `drop_doc`
    Drop,
    /// import the write capability again (creates the document if it is gone)
    Import,
}

fn policies() -> Vec<DownloadPolicy> {
    vec![
        DownloadPolicy::default(),
        DownloadPolicy::NothingExcept(vec![FilterKind::Prefix(bytes::Bytes::from_static(b"k"))]),
        DownloadPolicy::EverythingExcept(vec![FilterKind::Exact(bytes::Bytes::from_static(b"k1"))]),
    ]
}

fn life_events() -> Vec<LEv> {
    vec![LEv::Write(1), LEv::Write(2), LEv::DelPrefix, LEv::Policy(0), LEv::Policy(1), LEv::Policy(2), LEv::Open, LEv::Close, LEv::Drop, LEv::Import]
}

async fn dump(doc: &Doc) -> Result<Vec<(Vec<u8>, [u8; 32])>, String> {
    let st = doc.get_many(Query::all().include_empty()).await.map_err(|e| format!("{e:#}"))?;
    tokio::pin!(st);
    let mut out = vec![];
    while let Some(item) = st.next().await {
        let e = item.map_err(|e| format!("{e:#}"))?;
        out.push((e.key().to_vec(), *e.content_hash().as_bytes()));
    }
    out.sort();
    Ok(out)
}

/// `which`: "C16" reports the clauses about removal (nothing observable afterwards, re-creation
/// is empty, other documents untouched), "C15" the clauses about policies (returned unchanged,
/// only for an existing document, default again after re-creation).
pub async fn exec_life(node: &ApiNode, hist: &[LEv], salt: u64, which: &str) -> Bad {
    let api = node.docs.api();
    let mut bad: Bad = vec![];
    let pols = policies();
    let sec_a = secret(salt, 0);
    let sec_b = secret(salt, 1);
    let (a, b) = (sec_a.id(), sec_b.id());
    let hash_of = |i: u8| iroh_blobs::Hash::new([0x55, i]);
    // the bystander: one entry and a policy, written once
    let doc_b = match api.import_namespace(Capability::Write(sec_b.clone())).await {
        Ok(d) => d,
        Err(e) => return vec![("import_ok", json!({"api": true}), format!("bystander: {e:#}"))],
    };
    set_clock(NOW);
    let _ = doc_b.set_hash(node.author, "k1", hash_of(9), 5).await;
    let _ = doc_b.set_download_policy(pols[1].clone()).await;
    let b_before = (dump(&doc_b).await, doc_b.get_download_policy().await.map_err(|e| e.to_string()));
    // document A
    let mut handles: Vec<Doc> = vec![];
    match api.import_namespace(Capability::Write(sec_a.clone())).await {
        Ok(d) => handles.push(d),
        Err(e) => return vec![("import_ok", json!({"api": true}), format!("{e:#}"))],
    }
    let mut exists = true;
    let mut entries: BTreeMap<Vec<u8>, [u8; 32]> = BTreeMap::new();
    let mut policy = 0usize;
    for (n, ev) in hist.iter().enumerate() {
        let last = n + 1 == hist.len();
        // every write is strictly newer than the ones before it
        set_clock(NOW + 1 + n as u64);
        let handle = handles.last().cloned();
        match *ev {
            LEv::Write(i) => {
                let res = match &handle {
                    Some(h) => h.set_hash(node.author, format!("k{i}"), hash_of(i), 5).await.is_ok(),
                    None => false,
                };
                let want = exists && handle.is_some();
                if want {
                    entries.insert(format!("k{i}").into_bytes(), *hash_of(i).as_bytes());
                }
                if res != want && last && which == "C16" {
                    bad.push(("write_iff_document_exists_and_open", json!({"api": true}), format!("docs API, history {hist:?}: write succeeded={res}, expected {want}")));
                }
            }
            LEv::DelPrefix => {
                let removed = match &handle {
                    Some(h) => h.del(node.author, "k").await.ok(),
                    None => None,
                };
                let res = removed.is_some();
                if exists && handle.is_some() {
                    // (every write of a history is newer than the ones before it: the deletion
                    // removes everything at or below the prefix, an earlier marker included)
                    let want_removed = entries.keys().filter(|k| k.starts_with(b"k")).count();
                    if which == "C02" && last && removed != Some(want_removed) {
                        bad.push(("api_delete_reports_removed_count", json!({"api": true}), format!("docs API, history {hist:?}: Doc::del reported {removed:?} removed entries, {want_removed} entries were at or below the prefix")));
                    }
                    entries.retain(|k, _| !k.starts_with(b"k"));
                    entries.insert(b"k".to_vec(), *iroh_blobs::Hash::EMPTY.as_bytes());
                    if !res && last && which == "C16" {
                        bad.push(("write_iff_document_exists_and_open", json!({"api": true}), format!("docs API, history {hist:?}: prefix deletion failed")));
                    }
                }
            }
            LEv::Policy(i) => {
                let res = match &handle {
                    Some(h) => h.set_download_policy(pols[i as usize].clone()).await.is_ok(),
                    None => false,
                };
                let want = exists && handle.is_some();
                if want {
                    policy = i as usize;
                }
                if res != want && last && which == "C15" {
                    bad.push(("set_only_for_existing_document", json!({"api": true}), format!("docs API, history {hist:?}: set_download_policy succeeded={res}, the document {} and {} handle is held", if exists { "exists" } else { "does not exist" }, if handle.is_some() { "a" } else { "no" })));
                }
            }
            LEv::Open => match api.open(a).await {
                Ok(Some(d)) if exists => handles.push(d),
                Ok(Some(d)) => {
                    if last && which == "C16" {
                        bad.push(("removed_document_cannot_be_opened", json!({"api": true}), format!("docs API, history {hist:?}: the removed document could be opened")));
                    }
                    let _ = d.close().await;
                }
                _ => {
                    if exists && last && which == "C16" {
                        bad.push(("existing_document_can_be_opened", json!({"api": true}), format!("docs API, history {hist:?}: open failed for an existing document")));
                    }
                }
            },
            LEv::Close => {
                if let Some(h) = handles.pop() {
                    let _ = h.close().await;
                }
            }
            LEv::Drop => {
                let res = api.drop_doc(a).await.is_ok();
                // the caller's handle is released first; the removal goes through iff no other
                // handle is left (C14's reading of drop_replica)
                let open_handles = handles.len();
                // (dropping a document that does not exist is accepted: there is nothing to remove)
                let want = open_handles <= 1;
                if exists {
                    // one handle of ours is gone on the server side whatever the outcome
                    if let Some(h) = handles.pop() {
                        // client-side flag only; the server side was released by the drop
                        std::mem::forget(h);
                    }
                }
                if want {
                    exists = false;
                    entries.clear();
                    policy = 0;
                    handles.clear();
                }
                if res != want && last && which == "C16" {
                    bad.push(("removal_refused_iff_open_elsewhere", json!({"api": true, "handles": open_handles}), format!("docs API, history {hist:?}: drop_doc succeeded={res} with {open_handles} handles held, expected {want}")));
                }
            }
            LEv::Import => match api.import_namespace(Capability::Write(sec_a.clone())).await {
                Ok(d) => {
                    handles.push(d);
                    exists = true;
                }
                Err(e) => {
                    if last {
                        bad.push(("import_ok", json!({"api": true}), format!("docs API, history {hist:?}: {e:#}")));
                    }
                }
            },
        }
        if !last {
            continue;
        }
        // observations
        let mut listed = vec![];
        if let Ok(mut st) = api.list().await {
            while let Some(Ok((id, _))) = st.next().await {
                listed.push(id);
            }
        }
        if listed.contains(&a) != exists && which == "C16" {
            bad.push(("listing_equals_model", json!({"api": true, "exists": exists}), format!("docs API, history {hist:?}: the document is {}listed but {}", if listed.contains(&a) { "" } else { "not " }, if exists { "exists" } else { "was removed" })));
        }
        if exists {
            let h = match handles.last().cloned() {
                Some(h) => Some(h),
                None => api.open(a).await.ok().flatten(),
            };
            if let Some(h) = h {
                let want: Vec<(Vec<u8>, [u8; 32])> = entries.iter().map(|(k, v)| (k.clone(), *v)).collect();
                match dump(&h).await {
                    Ok(got) if got == want => {}
                    other => {
                        if which == "C02" {
                            bad.push(("document_matches_reference_c02", json!({"api": true}), format!("docs API, history {hist:?}: the document holds {:?}", other.as_ref().map(|v| v.iter().map(|(k, _)| String::from_utf8_lossy(k).to_string()).collect::<Vec<_>>()))));
                        }
                        if which == "C16" {
                            bad.push(("document_matches_reference", json!({"api": true}), format!("docs API, history {hist:?}: the document holds {:?}, reference {:?}", other.map(|v| v.iter().map(|(k, _)| String::from_utf8_lossy(k).to_string()).collect::<Vec<_>>()), want.iter().map(|(k, _)| String::from_utf8_lossy(k).to_string()).collect::<Vec<_>>())));
                        }
                    }
                }
                match h.get_download_policy().await {
                    Ok(p) if p == pols[policy] => {}
                    other => {
                        bad.push((
                            if which == "C15" { "policy_returned_unchanged" } else { "policy_of_removed_document_is_gone" },
                            json!({"api": true}),
                            format!("docs API, history {hist:?}: the document reads policy {other:?}, last set (since its creation) {:?}", pols[policy]),
                        ));
                    }
                }
                if handles.is_empty() {
                    let _ = h.close().await;
                }
            }
        }
        let b_after = (dump(&doc_b).await, doc_b.get_download_policy().await.map_err(|e| e.to_string()));
        if b_after != b_before && which == "C16" {
            bad.push(("other_documents_untouched", json!({"api": true}), format!("docs API, history {hist:?}: the bystander document changed")));
        }
    }
    set_clock(NOW);
    for h in handles {
        let _ = h.close().await;
    }
    let _ = doc_b.close().await;
    // only the clauses of the asking property
    bad.retain(|(o, _, _)| match which {
        "C15" => matches!(*o, "policy_returned_unchanged" | "set_only_for_existing_document" | "import_ok"),
        "C02" => matches!(*o, "api_delete_reports_removed_count" | "document_matches_reference_c02"),
        _ => *o != "policy_returned_unchanged" && *o != "set_only_for_existing_document" && *o != "api_delete_reports_removed_count" && *o != "document_matches_reference_c02",
    });
    bad
}

pub fn run_life_family(ctx: &Ctx, report: &mut Report, which: &'static str) {
    let evs = life_events();
    let depth = if ctx.quick() { 3 } else { 4 };
    let mut cases: Vec<(u64, Vec<LEv>)> = vec![];
    let mut ordinal = 1u64 << 44;
    for d in 1..=depth {
        crate::util::for_each_sequence(evs.len(), d, |ix| {
            let hist: Vec<LEv> = ix.iter().map(|&i| evs[i]).collect();
            // the policy family only needs the histories that touch a policy
            if which == "C15" && !hist.iter().any(|e| matches!(e, LEv::Policy(_))) {
                return;
            }
            // C02: writes and deletions only, ending with a deletion or a write
            if which == "C02" && (!hist.iter().all(|e| matches!(e, LEv::Write(_) | LEv::DelPrefix)) || !hist.iter().any(|e| matches!(e, LEv::DelPrefix))) {
                return;
            }
            ordinal += 1;
            if ctx.mine(ordinal) {
                cases.push((ordinal, hist));
            }
        });
    }
    let results: anyhow::Result<Vec<(u64, Vec<LEv>, Bad)>> = {
        // (its own runtime: all histories of a worker run inside this one future, which may take
        // longer than the hang detector of `sut::block_on` allows on a loaded machine)
        let rt = super::live::runtime();
        rt.block_on(async {
        let node = api_node().await?;
        let mut out = vec![];
        for (ord, hist) in cases {
            let bad = exec_life(&node, &hist, ord, which).await;
            out.push((ord, hist, bad));
        }
        shutdown(&node).await;
        Ok(out)
        })
    };
    match results {
        Err(e) => report.machinery_error(format!("docs API family: cannot set up a node: {e:#}")),
        Ok(rs) => {
            for (ord, hist, bad) in rs {
                report.evaluations += 1;
                report.traces += 1;
                report.transitions += hist.len() as u64;
                if hist.iter().any(|e| matches!(e, LEv::Drop)) {
                    report.nontrivial += 1;
                }
                report.count("docs_api_histories", 1);
                let case = json!({"api_life": hist, "salt": ord});
                for (o, w, d) in bad {
                    report.violation(o, w, case.clone(), d, ord);
                }
            }
        }
    }
}

pub fn replay_life(case: &Value, which: &'static str) -> anyhow::Result<Option<(bool, String)>> {
    let Some(h) = case.get("api_life") else { return Ok(None) };
    let hist: Vec<LEv> = serde_json::from_value(h.clone())?;
    let salt = case["salt"].as_u64().unwrap_or(1);
    let bad: anyhow::Result<Bad> = block_on(async {
        let node = api_node().await?;
        let b = exec_life(&node, &hist, salt, which).await;
        shutdown(&node).await;
        Ok(b)
    });
    let bad = bad?;
    let out: String = bad.iter().map(|(o, _, d)| format!("FAILED {o}: {d}\n")).collect();
    Ok(Some((!bad.is_empty(), format!("docs API history {hist:?}\n{out}"))))
}

#[allow(dead_code)]
fn _unused(_: NamespaceId) {}
