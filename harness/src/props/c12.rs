//! C12 — subscribers see exactly one event per entry that actually entered the replica.

use bytes::Bytes;
use iroh_docs::{
    actor::{OpenOpts, SyncHandle},
    store::{DownloadPolicy, FilterKind, Store},
    sync::{Event, SignedEntry, SyncOutcome},
    Capability, ContentStatus, ProtocolMessage,
};
use serde::{Deserialize, Serialize};
use serde_json::{json, Value};

use super::common::set_clock;
use crate::{
    mirror::RawSigned,
    refmodel::{ModelReplica, PutOutcome},
    report::Report,
    sut::{block_on_park, Sut, PEER},
    universe::{author, ns_id, ns_secret, show_entry, Spec, Val, NOW, T0},
    util::{catch, fnv, for_each_sequence},
    Ctx, PropDef, Tier,
};

pub fn def() -> PropDef {
    PropDef {
        id: "C12",
        level: "model_checking",
        rule: "a subscriber that is alive but slow (one-slot channel, no read for 2.5 s quick / 12 s thorough while three entries are written) gets all three events in order, stays subscribed and does not affect a fast subscriber; every sequence of length <= d over {local insert a / ab, local delete a, remote insert valid / superseded / invalid signature, next message of a reconciliation session with a real peer replica (local writes may fall between two messages of the session and obsolete entries the peer sends later), subscribe, unsubscribe i, drop receiver i, set download policy p, open one more handle, release one handle (the last release closes the document and ends all subscriptions)} through the real SyncHandle, starting with three subscribers (one registered by open, two by subscribe) and up to four; after every acknowledged request every live receiver is drained and compared with the exact expected event list of the reference model (one event per applied entry, in application order, local vs remote with peer and content status as sent, should_download per policy); get_state().subscribers must equal the model; non-trivial = sequences in which an event is delivered to at least one subscriber",
        assumptions: &["events are compared after the request that causes them has been acknowledged (the actor sends events before it replies), so draining with try_recv is race-free"],
        bound: |t| match t {
            Tier::Quick => json!({"depth": 4, "alphabet": 21}),
            Tier::Thorough => json!({"depth": 5, "alphabet": 21}),
        },
        run,
        replay,
        shards: |_| 16,
    }
}

#[derive(Debug, Clone, Copy, PartialEq, Eq, Serialize, Deserialize)]
pub enum Ev {
    InsA,
    InsAb,
    DelA,
    RemoteValid,
    RemoteSuperseded,
    RemoteInvalid,
    SyncStep,
    Subscribe,
    Unsub(u8),
    DropRx(u8),
    Policy(u8),
    /// one more handle on the document (no new subscriber)
    OpenAgain,
    /// release one handle; releasing the last one closes the document and its subscriptions
    CloseOne,
    /// only as the first symbol of a sequence: the node holds the document read-only (local
    /// writes fail, remote entries enter and are announced as usual)
    StartReadOnly,
    /// import the write capability while the document is open and subscribed (an upgrade when the
    /// node started read-only, no change otherwise): subscribers stay, local writes work
    ImportWrite,
}

fn alphabet() -> Vec<Ev> {
    let mut v = vec![
        Ev::InsA,
        Ev::InsAb,
        Ev::DelA,
        Ev::RemoteValid,
        Ev::RemoteSuperseded,
        Ev::RemoteInvalid,
        Ev::SyncStep,
        Ev::Subscribe,
    ];
    for i in 0..4 {
        v.push(Ev::Unsub(i));
    }
    for i in 0..4 {
        v.push(Ev::DropRx(i));
    }
    for p in 0..3 {
        v.push(Ev::Policy(p));
    }
    v.push(Ev::OpenAgain);
    v.push(Ev::CloseOne);
    v
}

fn policy(p: u8) -> DownloadPolicy {
    match p {
        0 => DownloadPolicy::default(),
        // remote keys are ab, p, q, c: one key longer than a prefix filter, one equal to one
        1 => DownloadPolicy::NothingExcept(vec![
            FilterKind::Prefix(Bytes::from_static(b"a")),
            FilterKind::Prefix(Bytes::from_static(b"p")),
        ]),
        _ => DownloadPolicy::EverythingExcept(vec![FilterKind::Exact(Bytes::from_static(b"ab"))]),
    }
}

fn policy_says(p: u8, key: &[u8]) -> bool {
    match p {
        0 => true,
        1 => key.starts_with(b"a") || key.starts_with(b"p"),
        _ => key != b"ab",
    }
}

/// Expected event, comparable with what is received.
#[derive(Debug, Clone, PartialEq, Eq)]
enum Exp {
    Local(SignedEntry),
    Remote {
        entry: SignedEntry,
        from: [u8; 32],
        should_download: bool,
        status: ContentStatus,
    },
}

fn show_exp(e: &Exp) -> String {
    match e {
        Exp::Local(e) => format!("Local({})", show_entry(e)),
        Exp::Remote {
            entry,
            from,
            should_download,
            status,
        } => format!(
            "Remote({}, from={:02x}, dl={should_download}, {status:?})",
            show_entry(entry),
            from[0]
        ),
    }
}

fn of_event(ev: Event) -> Exp {
    match ev {
        Event::LocalInsert { entry, .. } => Exp::Local(entry),
        Event::RemoteInsert {
            entry,
            from,
            should_download,
            remote_content_status,
            ..
        } => Exp::Remote {
            entry,
            from,
            should_download,
            status: remote_content_status,
        },
    }
}

struct Sub {
    tx: async_channel::Sender<Event>,
    rx: Option<async_channel::Receiver<Event>>,
    /// still registered in the model's view of the actor
    registered: bool,
}

const PEER2: [u8; 32] = [0xee; 32];

/// What a node says about the availability of a content: the peer and our node answer differently
/// for the same hash, so that an event or a message carrying the wrong side's answer shows.
fn status_of(peer: bool, hash: iroh_blobs::Hash) -> ContentStatus {
    let x = Val::X.hash_len().0;
    let y = Val::Y.hash_len().0;
    match (peer, hash == x, hash == y) {
        (true, true, _) => ContentStatus::Complete,
        (true, _, true) => ContentStatus::Incomplete,
        (false, true, _) => ContentStatus::Incomplete,
        (false, _, true) => ContentStatus::Missing,
        (true, _, _) => ContentStatus::Missing,
        (false, _, _) => ContentStatus::Complete,
    }
}

fn status_cb(peer: bool) -> iroh_docs::ContentStatusCallback {
    std::sync::Arc::new(move |hash| Box::pin(async move { status_of(peer, hash) }))
}

fn peer_entries() -> Vec<Spec> {
    vec![
        Spec::new(0, 1, b"p", 5, Val::X),
        Spec::new(0, 0, b"ab", 2, Val::Y),
        Spec::new(0, 1, b"q", 6, Val::Del),
        Spec::new(0, 0, b"c", 4, Val::X),
    ]
}

fn invalid_entry() -> SignedEntry {
    let mut raw = RawSigned::of(&Spec::new(0, 1, b"bad", 2, Val::X).signed());
    raw.author_sig[3] ^= 1;
    raw.to_signed().expect("decodes")
}

type Bad = Vec<(&'static str, Value, String)>;

/// Execute a sequence; `None` if an event is not enabled (unsubscribe/drop of a subscriber that
/// does not exist).
fn exec(seq: &[Ev]) -> Option<(Bad, String, bool)> {
    set_clock(NOW);
    let ns = ns_id(0);
    let mut bad: Bad = vec![];
    let mut store = Store::memory();
    let read_only_start = seq.first() == Some(&Ev::StartReadOnly);
    if seq.iter().skip(1).any(|e| *e == Ev::StartReadOnly) {
        return None;
    }
    let mut writable = !read_only_start;
    store
        .import_namespace(if read_only_start { Capability::Read(ns) } else { Capability::Write(ns_secret(0)) })
        .expect("import");
    store.import_author(author(0)).expect("author");
    let mut pre = Sut { store };
    let base = Spec::new(0, 0, b"a", 3, Val::X);
    let _ = pre.remote(ns, base.signed());
    let h = SyncHandle::spawn(pre.store, Some(status_cb(false)), "c12".into());
    // subscriber 0 is registered through open(OpenOpts::subscribe)
    let (tx0, rx0) = async_channel::unbounded();
    block_on_park(h.open(ns, OpenOpts::default().sync().subscribe(tx0.clone()))).expect("open");
    let mut model = ModelReplica::default();
    model.put(&base.signed());
    let mut subs: Vec<Sub> = vec![Sub {
        tx: tx0,
        rx: Some(rx0),
        registered: true,
    }];
    // two more through SyncHandle::subscribe, so that churn among three subscribers is within
    // reach of short sequences
    for _ in 0..2 {
        let (tx, rx) = async_channel::unbounded();
        block_on_park(h.subscribe(ns, tx.clone())).expect("subscribe");
        subs.push(Sub {
            tx,
            rx: Some(rx),
            registered: true,
        });
    }
    let mut pol = 0u8;
    let mut handles = 1usize;
    // reconciliation session with a real peer
    let mut peer = Sut::memory_with(&[0]);
    for e in peer_entries() {
        let _ = peer.remote(ns, e.signed());
    }
    let mut peer_state = SyncOutcome::default();
    let mut our_state = SyncOutcome::default();
    let mut to_us: Option<ProtocolMessage> = None;
    let mut session_active = false;
    let mut delivered_any = false;
    let mut rendering = String::new();

    for (i, ev) in seq.iter().enumerate() {
        let last = i + 1 == seq.len();
        // expected events of this request, in order
        let mut expected: Vec<Exp> = vec![];
        let mut apply = |model: &mut ModelReplica, e: &SignedEntry, exp: Exp, expected: &mut Vec<Exp>| {
            if matches!(model.put(e), PutOutcome::Inserted { .. }) {
                expected.push(exp);
                true
            } else {
                false
            }
        };
        match *ev {
            Ev::StartReadOnly => {}
            Ev::ImportWrite => {
                let res = block_on_park(h.import_namespace(Capability::Write(ns_secret(0))));
                writable = true;
                if res.is_err() && last {
                    bad.push(("reply_matches_application", json!({}), format!("{ev:?}: {res:?}")));
                }
            }
            Ev::InsA | Ev::InsAb | Ev::DelA => {
                let ts = T0 + 10 + i as u64;
                let (key, val): (&[u8], Val) = match ev {
                    Ev::InsA => (b"a", Val::X),
                    Ev::InsAb => (b"ab", Val::X),
                    _ => (b"a", Val::Del),
                };
                let spec = Spec::new(0, 0, key, 10 + i as u64, val);
                set_clock(ts);
                let res = if val == Val::Del {
                    block_on_park(h.delete_prefix(ns, author(0).id(), Bytes::copy_from_slice(key))).map(|_| ())
                } else {
                    let (hash, len) = val.hash_len();
                    block_on_park(h.insert_local(ns, author(0).id(), Bytes::copy_from_slice(key), hash, len))
                };
                set_clock(NOW);
                let e = spec.signed();
                let inserted = handles > 0 && writable && apply(&mut model, &e, Exp::Local(e.clone()), &mut expected);
                if res.is_ok() != inserted && last {
                    bad.push(("reply_matches_application", json!({}), format!("{ev:?}: impl ok={} model inserted={inserted}", res.is_ok())));
                }
            }
            Ev::RemoteValid | Ev::RemoteSuperseded | Ev::RemoteInvalid => {
                let e = match ev {
                    Ev::RemoteValid => Spec::new(0, 1, b"ab", 20 + i as u64, Val::Y).signed(),
                    Ev::RemoteSuperseded => Spec::new(0, 0, b"a", 1, Val::Y).signed(),
                    _ => invalid_entry(),
                };
                let res = block_on_park(h.insert_remote(ns, e.clone(), PEER, ContentStatus::Complete));
                let inserted = if matches!(ev, Ev::RemoteInvalid) || handles == 0 {
                    false
                } else {
                    apply(
                        &mut model,
                        &e,
                        Exp::Remote {
                            entry: e.clone(),
                            from: PEER,
                            should_download: policy_says(pol, e.key()),
                            status: ContentStatus::Complete,
                        },
                        &mut expected,
                    )
                };
                if res.is_ok() != inserted && last {
                    bad.push(("reply_matches_application", json!({}), format!("{ev:?}: impl ok={} model inserted={inserted}", res.is_ok())));
                }
            }
            Ev::SyncStep => {
                // the peer produces its next message (or starts a new session)
                let msg = if !session_active {
                    peer_state = SyncOutcome::default();
                    our_state = SyncOutcome::default();
                    session_active = true;
                    Some(peer.sync_initial(ns).expect("initial"))
                } else {
                    to_us.take()
                };
                let Some(msg) = msg else {
                    // session finished earlier: start over next time
                    session_active = false;
                    continue;
                };
                if handles == 0 {
                    // the document is closed: the message must be refused and nothing applied
                    let res = block_on_park(h.sync_process_message(ns, msg, PEER2, our_state.clone()));
                    if res.is_ok() && last {
                        bad.push(("closed_document_refuses_sync", json!({}), "sync_process_message succeeded on a closed document".into()));
                    }
                    session_active = false;
                    to_us = None;
                    continue;
                }
                for (e, status) in iroh_docs::verif::message_values(&msg) {
                    apply(
                        &mut model,
                        &e,
                        Exp::Remote {
                            entry: e.clone(),
                            from: PEER2,
                            should_download: policy_says(pol, e.key()),
                            status,
                        },
                        &mut expected,
                    );
                }
                let res = block_on_park(h.sync_process_message(ns, msg, PEER2, our_state.clone()));
                match res {
                    Err(e) => {
                        if last {
                            bad.push(("sync_message_processed", json!({}), format!("{e:#}")));
                        }
                        session_active = false;
                    }
                    Ok((reply, st)) => {
                        our_state = st;
                        // hand our reply to the peer; its answer is the next message to us
                        // what we send carries our own answer about each content
                        if let Some(r) = &reply {
                            for (e, status) in iroh_docs::verif::message_values(r) {
                                let want = status_of(false, e.content_hash());
                                if status != want && last {
                                    bad.push((
                                        "outgoing_entries_carry_our_content_status",
                                        json!({"sent": format!("{status:?}"), "ours": format!("{want:?}")}),
                                        format!("our reply offers {} with content status {status:?}, our node's answer for that content is {want:?}", crate::universe::show_entry(&e)),
                                    ));
                                }
                            }
                        }
                        to_us = match reply {
                            None => None,
                            Some(r) => peer
                                .sync_process_cb(ns, r, [0x11; 32], &mut peer_state, Some(status_cb(true)))
                                .expect("peer process"),
                        };
                        if to_us.is_none() {
                            session_active = false;
                        }
                    }
                }
            }
            Ev::OpenAgain => {
                block_on_park(h.open(ns, OpenOpts::default().sync())).expect("open");
                handles += 1;
            }
            Ev::CloseOne => {
                if handles == 0 {
                    return None;
                }
                let closed = block_on_park(h.close(ns)).expect("close");
                handles -= 1;
                if closed != (handles == 0) && last {
                    bad.push(("close_reports_closed", json!({}), format!("close returned {closed} with {handles} handles left")));
                }
                if handles == 0 {
                    for s in subs.iter_mut() {
                        s.registered = false;
                    }
                }
            }
            Ev::Subscribe => {
                if subs.len() >= 4 || handles == 0 {
                    return None;
                }
                let (tx, rx) = async_channel::unbounded();
                block_on_park(h.subscribe(ns, tx.clone())).expect("subscribe");
                subs.push(Sub {
                    tx,
                    rx: Some(rx),
                    registered: true,
                });
            }
            Ev::Unsub(k) => {
                let s = subs.get_mut(k as usize)?;
                if !s.registered || handles == 0 {
                    return None;
                }
                block_on_park(h.unsubscribe(ns, s.tx.clone())).expect("unsubscribe");
                s.registered = false;
            }
            Ev::DropRx(k) => {
                let s = subs.get_mut(k as usize)?;
                if s.rx.is_none() {
                    return None;
                }
                s.rx = None; // the receiver is dropped; the actor notices at its next send
            }
            Ev::Policy(p) => {
                block_on_park(h.set_download_policy(ns, policy(p))).expect("set policy");
                pol = p;
            }
        }
        // a send happened iff there were expected events: dead receivers get pruned then
        if !expected.is_empty() {
            for s in subs.iter_mut() {
                if s.rx.is_none() {
                    s.registered = false;
                }
            }
        }
        // drain
        for (k, s) in subs.iter().enumerate() {
            let Some(rx) = &s.rx else { continue };
            let mut got = vec![];
            while let Ok(ev) = rx.try_recv() {
                got.push(of_event(ev));
            }
            let want: Vec<Exp> = if s.registered { expected.clone() } else { vec![] };
            if !got.is_empty() {
                delivered_any = true;
            }
            if last {
                rendering.push_str(&format!("s{k}:{}|", got.len()));
            }
            if got != want && last {
                let kind = if got.len() > want.len() {
                    "spurious_or_duplicate"
                } else if got.len() < want.len() {
                    "missing"
                } else {
                    "different"
                };
                bad.push((
                    "events_equal_model",
                    json!({"kind": kind, "request": format!("{ev:?}").split('(').next().unwrap_or("").to_string(), "subscriber_registered": s.registered}),
                    format!(
                        "after {ev:?} subscriber {k}: got [{}] expected [{}]",
                        got.iter().map(show_exp).collect::<Vec<_>>().join(", "),
                        want.iter().map(show_exp).collect::<Vec<_>>().join(", ")
                    ),
                ));
            }
        }
        if last && handles > 0 {
            let st = block_on_park(h.get_state(ns)).expect("get_state");
            let want = subs.iter().filter(|s| s.registered).count();
            if st.subscribers != want {
                bad.push((
                    "subscriber_count_equals_model",
                    json!({}),
                    format!("get_state().subscribers={} model={want}", st.subscribers),
                ));
            }
            rendering.push_str(&format!("n{}", expected.len()));
        }
    }
    let _ = block_on_park(h.shutdown());
    Some((bad, rendering, delivered_any))
}

/// A subscriber that is alive but slow: its channel holds one event and it does not read for
/// `wait_ms`, while three entries are written (the requests are queued; the actor waits for room
/// in the channel). Afterwards it reads: it must get all three events, in order, and still be
/// subscribed; a second, fast subscriber must get its three events too.
fn slow_subscriber(wait_ms: u64) -> Bad {
    set_clock(NOW);
    let ns = ns_id(0);
    let mut bad: Bad = vec![];
    let mut store = Store::memory();
    store.import_namespace(Capability::Write(ns_secret(0))).expect("import");
    store.import_author(author(0)).expect("author");
    let h = SyncHandle::spawn(store, Some(status_cb(false)), "c12-slow".into());
    let (slow_tx, slow_rx) = async_channel::bounded(1);
    let (fast_tx, fast_rx) = async_channel::unbounded();
    block_on_park(h.open(ns, OpenOpts::default().sync().subscribe(slow_tx))).expect("open");
    block_on_park(h.subscribe(ns, fast_tx)).expect("subscribe");
    let keys: [&[u8]; 3] = [b"s1", b"s2", b"s3"];
    let (hash, len) = Val::X.hash_len();
    let waker = std::task::Waker::noop();
    let mut cx = std::task::Context::from_waker(waker);
    let mut futs: Vec<std::pin::Pin<Box<dyn std::future::Future<Output = anyhow::Result<()>> + '_>>> = keys
        .iter()
        .map(|k| Box::pin(h.insert_local(ns, author(0).id(), Bytes::copy_from_slice(k), hash, len)) as std::pin::Pin<Box<dyn std::future::Future<Output = anyhow::Result<()>> + '_>>)
        .collect();
    let mut done = [false; 3];
    for (f, d) in futs.iter_mut().zip(done.iter_mut()) {
        if let std::task::Poll::Ready(r) = f.as_mut().poll(&mut cx) {
            *d = true;
            if r.is_err() {
                bad.push(("reply_matches_application", json!({"slow_subscriber": true}), "insert failed".into()));
            }
        }
    }
    std::thread::sleep(std::time::Duration::from_millis(wait_ms));
    // now the slow subscriber reads
    let mut slow_got: Vec<Vec<u8>> = vec![];
    let start = std::time::Instant::now();
    while start.elapsed() < std::time::Duration::from_secs(20) {
        while let Ok(ev) = slow_rx.try_recv() {
            if let Event::LocalInsert { entry, .. } = ev {
                slow_got.push(entry.key().to_vec());
            }
        }
        let mut pending = false;
        for (f, d) in futs.iter_mut().zip(done.iter_mut()) {
            if !*d {
                match f.as_mut().poll(&mut cx) {
                    std::task::Poll::Ready(_) => *d = true,
                    std::task::Poll::Pending => pending = true,
                }
            }
        }
        if !pending && slow_got.len() >= 3 {
            break;
        }
        if !pending && start.elapsed() > std::time::Duration::from_millis(500) && slow_rx.is_empty() {
            // all requests answered and nothing more is coming
            break;
        }
        std::thread::sleep(std::time::Duration::from_millis(1));
    }
    drop(futs);
    let mut fast_got: Vec<Vec<u8>> = vec![];
    while let Ok(ev) = fast_rx.try_recv() {
        if let Event::LocalInsert { entry, .. } = ev {
            fast_got.push(entry.key().to_vec());
        }
    }
    let want: Vec<Vec<u8>> = keys.iter().map(|k| k.to_vec()).collect();
    let show = |v: &Vec<Vec<u8>>| v.iter().map(|k| String::from_utf8_lossy(k).to_string()).collect::<Vec<_>>().join(",");
    if slow_got != want {
        bad.push((
            "events_equal_model",
            json!({"slow_subscriber": true, "kind": "missing"}),
            format!("a subscriber that did not read for {wait_ms} ms got the events [{}] for the applied entries [{}]", show(&slow_got), show(&want)),
        ));
    }
    if fast_got != want {
        bad.push((
            "events_equal_model",
            json!({"slow_subscriber": true, "kind": "other subscriber affected"}),
            format!("the fast subscriber next to a slow one got [{}] for the applied entries [{}]", show(&fast_got), show(&want)),
        ));
    }
    match block_on_park(h.get_state(ns)) {
        Ok(st) if st.subscribers == 2 => {}
        other => bad.push((
            "subscribers_equal_model",
            json!({"slow_subscriber": true}),
            format!("after the slow subscriber caught up: {:?}, expected 2 subscribers", other.map(|s| s.subscribers).map_err(|e| e.to_string())),
        )),
    }
    let _ = block_on_park(h.shutdown());
    bad
}

fn run(ctx: &Ctx, report: &mut Report) {
    crate::util::silence_panics();
    super::live::run_live_family(ctx, report, "C12");
    if ctx.shard == 3 % ctx.of {
        let wait_ms = if ctx.quick() { 2500 } else { 12000 };
        report.evaluations += 1;
        report.traces += 1;
        report.nontrivial += 1;
        let case = json!({"slow_subscriber_ms": wait_ms});
        match catch(|| slow_subscriber(wait_ms)) {
            Err(p) => report.violation("no_panic", json!({"slow_subscriber": true}), case, format!("panic: {p}"), 0),
            Ok(bad) => {
                for (o, w, d) in bad {
                    report.violation(o, w, case.clone(), d, 0);
                }
            }
        }
    }
    // the node starts read-only and gets the write capability while the document is open and
    // subscribed: sequences StartReadOnly, then <= 3 (thorough 4) symbols of a smaller alphabet
    {
        let ro_alpha = [Ev::ImportWrite, Ev::InsA, Ev::RemoteValid, Ev::SyncStep, Ev::DelA, Ev::Subscribe, Ev::DropRx(1), Ev::Policy(1)];
        let depth = if ctx.quick() { 3 } else { 4 };
        let mut ordinal = 1u64 << 41;
        for d in 1..=depth {
            for_each_sequence(ro_alpha.len(), d, |idx| {
                if !idx.iter().any(|&i| ro_alpha[i] == Ev::ImportWrite) {
                    return;
                }
                ordinal += 1;
                if !ctx.mine(ordinal) {
                    return;
                }
                let mut seq = vec![Ev::StartReadOnly];
                seq.extend(idx.iter().map(|&i| ro_alpha[i]));
                let case = json!({"seq": seq});
                match catch(|| exec(&seq)) {
                    Err(p) => report.violation("no_panic", json!({}), case, format!("panic: {p}"), ordinal),
                    Ok(None) => {}
                    Ok(Some((bad, rendering, delivered))) => {
                        report.evaluations += 1;
                        report.traces += 1;
                        report.transitions += seq.len() as u64;
                        report.count("read_only_start_sequences", 1);
                        if delivered {
                            report.nontrivial += 1;
                        }
                        report.outcome(format!("{:016x}", fnv(rendering.as_bytes())));
                        for (o, w, dd) in bad {
                            report.violation(o, w, case.clone(), dd, ordinal);
                        }
                    }
                }
            });
        }
    }
    let alpha = alphabet();
    let depth = if ctx.quick() { 4 } else { 5 };
    let mut ordinal = 0u64;
    for d in 1..=depth {
        for_each_sequence(alpha.len(), d, |idx| {
            ordinal += 1;
            if !ctx.mine(ordinal) {
                return;
            }
            let seq: Vec<Ev> = idx.iter().map(|&i| alpha[i]).collect();
            // cheap static pruning of sequences that are never enabled
            let mut nsubs = 3;
            for e in &seq {
                match e {
                    Ev::Subscribe => nsubs += 1,
                    Ev::Unsub(k) | Ev::DropRx(k) if (*k as usize) >= nsubs => return,
                    _ => {}
                }
            }
            let case = json!({"seq": seq});
            match catch(|| exec(&seq)) {
                Err(p) => report.violation("no_panic", json!({}), case, format!("panic: {p}"), ordinal),
                Ok(None) => {}
                Ok(Some((bad, rendering, delivered))) => {
                    report.evaluations += 1;
                    report.traces += 1;
                    report.transitions += seq.len() as u64;
                    report.max_depth = report.max_depth.max(seq.len() as u64);
                    if delivered {
                        report.nontrivial += 1;
                    }
                    report.outcome(format!("{:016x}", fnv(rendering.as_bytes())));
                    for (o, w, dd) in bad {
                        report.violation(o, w, case.clone(), dd, ordinal);
                    }
                    if delivered && seq.contains(&Ev::SyncStep) && seq.len() >= 4 {
                        report.sample(|| json!({"sequence": seq.iter().map(|e| format!("{e:?}")).collect::<Vec<_>>(), "last_step": rendering}));
                    }
                }
            }
        });
    }
}

fn replay(case: &Value) -> anyhow::Result<(bool, String)> {
    if let Some(r) = super::live::replay_live(case, "C12")? {
        return Ok(r);
    }
    if let Some(ms) = case.get("slow_subscriber_ms").and_then(|m| m.as_u64()) {
        return match catch(|| slow_subscriber(ms)) {
            Err(p) => Ok((true, format!("panic: {p}"))),
            Ok(bad) => {
                let out: String = bad.iter().map(|(o, _, d)| format!("FAILED {o}: {d}\n")).collect();
                Ok((!bad.is_empty(), format!("slow subscriber ({ms} ms)\n{out}")))
            }
        };
    }
    let seq: Vec<Ev> = serde_json::from_value(case["seq"].clone())?;
    match catch(|| exec(&seq)) {
        Err(p) => Ok((true, format!("panic: {p}"))),
        Ok(None) => Ok((false, "sequence not enabled".into())),
        Ok(Some((bad, rendering, _))) => {
            let mut out = format!("sequence {seq:?}\nlast step: {rendering}\n");
            for (o, _, d) in &bad {
                out.push_str(&format!("FAILED {o}: {d}\n"));
            }
            Ok((!bad.is_empty(), out))
        }
    }
}
