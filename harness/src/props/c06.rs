//! C06 — flushed data survives; a crash never exposes a half-applied write.

use std::{
    collections::{BTreeSet, HashMap},
    path::{Path, PathBuf},
    sync::{Arc, Mutex},
};

use iroh_docs::{sync::SignedEntry, verif::AccessInfo};
use serde::{Deserialize, Serialize};
use serde_json::{json, Value};

use super::{
    common::{dump_by_key, set_clock},
    recon::scratch_dir,
};
use crate::{
    refmodel::ModelReplica,
    report::Report,
    sut::Sut,
    universe::{author, author_id, ns_id, ns_secret, show_entries, show_key, Val, NOW, T0},
    util::{catch, for_each_sequence},
    Ctx, PropDef, Tier,
};

pub fn def() -> PropDef {
    PropDef {
        id: "C06",
        level: "fault_enumeration",
        rule: "every history of <= d operations over {insert a/ab/a\\xff, delete prefix a/'', remote older, remote newer, flush, snapshot-read, remove document, re-create document} (family A) and over {register peer 1/2, set policy 1/2, insert a, remove, re-create, flush} (family B) and, after filling the useful-peer cache to its capacity, over {register a new peer 1/2, the oldest / the newest cached peer again, insert a, flush} (family C) and, after 1100 entries below the prefix 'a' have been made durable, over {insert a, delete prefix a, delete prefix '', insert ab, flush} (family D: one operation supersedes more than a thousand entries) on a file-backed store; family E drives a file-backed store through its store actor: every history of <= d requests over {insert a, insert ab, delete prefix a, flush_store, a pause of 150 ms, a complete reconciliation session that brings in one entry} issued back to back on one handle, the file copied right after every acknowledged flush must hold exactly the writes acknowledged before it, and so must the file after shutdown; one scenario kills a whole node (Docs engine with a file-backed store) right after its first start and starts it again from the directory as it was; for families A-D a baseline run numbers every store access point (hook at Store::tables/modify); then every placement of <= k 'transaction looks older than the commit delay' answers among the points where a write transaction is open, and in every such run a crash image (copy of the database file, live store untouched) at every access point and after every operation; each distinct image is reopened and must show the reference state after j complete operations with last-acknowledged-flush <= j <= operations-started, with records, by-key index, heads, point lookups, namespaces and authors mutually consistent; non-trivial = distinct (image content, window) pairs whose window spans an unacknowledged or in-progress operation",
        assumptions: &[
            "crash = process kill: the image is what the OS holds for the file at that instant; power loss, torn sectors and crashes inside redb's own commit are redb's contract",
            "an extra age-based commit caused by real elapsed time can only move the recovered state forward inside the accepted window, never raise an alarm",
        ],
        bound: |t| match t {
            Tier::Quick => json!({"histories": "depth <= 4 over 11 operations with <= 1 forced-old answer; depth <= 3 with <= 2", "family_B": "depth <= 3 with <= 2", "family_C": "depth <= 2 with <= 2 after the filling prefix", "family_D": "depth <= 2 with <= 1 after 1100 durable entries below one prefix", "family_E": "actor histories <= 4", "forced_old_answers": "<= 2"}),
            Tier::Thorough => json!({"histories": "depth <= 5 with <= 1 forced-old answer; depth <= 4 with <= 2", "family_B": "depth <= 4 with <= 2", "family_C": "depth <= 3 with <= 2 after the filling prefix", "family_D": "depth <= 3 with <= 2 after 1100 durable entries below one prefix", "family_E": "actor histories <= 5", "forced_old_answers": "<= 2"}),
        },
        run,
        replay,
        shards: |_| 16,
    }
}

#[derive(Debug, Clone, Copy, PartialEq, Eq, Serialize, Deserialize)]
pub enum Op {
    InsA,
    InsAb,
    InsAff,
    DelA,
    DelRoot,
    RemoteOlder,
    RemoteNewer,
    Flush,
    SnapshotRead,
    /// remove the document (it is never open between operations)
    RemoveDoc,
    /// import the write capability again
    Recreate,
    /// register useful peer 1 / 2
    PeerA,
    PeerB,
    /// set download policy 1 / 2
    Policy1,
    Policy2,
    /// register useful peer n (family C: a peer cache that is full, so that a registration
    /// inserts one row and evicts another)
    PeerN(u8),
    /// family D: write n entries below the prefix "a" (keys "a" + two bytes), unobserved
    Fill(u16),
}

/// family D: a single operation that supersedes more than a thousand entries
const FILL_D: u16 = 1100;
const PREFIX_D: [Op; 2] = [Op::Fill(FILL_D), Op::Flush];
const OPS_D: [Op; 5] = [Op::InsA, Op::DelA, Op::DelRoot, Op::InsAb, Op::Flush];

fn fill_entries(n: u16) -> Vec<SignedEntry> {
    static CACHE: std::sync::OnceLock<Vec<SignedEntry>> = std::sync::OnceLock::new();
    let all = CACHE.get_or_init(|| {
        (0..FILL_D)
            .map(|i| {
                let key = [b'a', (i >> 8) as u8, (i & 0xff) as u8];
                let (h, l) = Val::X.hash_len();
                SignedEntry::from_parts(&ns_secret(0), &author(0), &key, iroh_docs::sync::Record::new(h, l, T0 + 5))
            })
            .collect()
    });
    all[..n as usize].to_vec()
}

/// family C: the prefix fills the peer cache to its capacity of five and makes that durable
const PREFIX_C: [Op; 6] = [Op::PeerN(3), Op::PeerN(4), Op::PeerN(5), Op::PeerN(6), Op::PeerN(7), Op::Flush];
/// ... then: two new peers, the oldest and the newest cached one again, an entry, a flush
const OPS_C: [Op; 6] = [Op::PeerA, Op::PeerB, Op::PeerN(3), Op::PeerN(7), Op::InsA, Op::Flush];

/// second alphabet: the per-document settings next to entries, removal and re-creation
const OPS_B: [Op; 8] = [
    Op::PeerA,
    Op::PeerB,
    Op::Policy1,
    Op::Policy2,
    Op::InsA,
    Op::RemoveDoc,
    Op::Recreate,
    Op::Flush,
];

fn the_policy(i: u8) -> iroh_docs::store::DownloadPolicy {
    use iroh_docs::store::{DownloadPolicy, FilterKind};
    if i == 1 {
        DownloadPolicy::NothingExcept(vec![FilterKind::Prefix("a".into())])
    } else {
        DownloadPolicy::EverythingExcept(vec![FilterKind::Exact("b".into())])
    }
}

/// Reference state after a number of complete operations.
#[derive(Debug, Clone, PartialEq, Eq, Default)]
struct St {
    exists: bool,
    entries: Vec<SignedEntry>,
    /// most recent first
    peers: Vec<u8>,
    /// 0 = default
    policy: u8,
}

impl St {
    fn show(&self) -> String {
        format!(
            "listed={} {} peers={:?} policy={}",
            self.exists,
            show_entries(&self.entries),
            self.peers,
            self.policy
        )
    }
}

const OPS: [Op; 11] = [
    Op::InsA,
    Op::InsAb,
    Op::InsAff,
    Op::DelA,
    Op::DelRoot,
    Op::RemoteOlder,
    Op::RemoteNewer,
    Op::Flush,
    Op::SnapshotRead,
    Op::RemoveDoc,
    Op::Recreate,
];

fn remote_entry(newer: bool) -> SignedEntry {
    let ts = if newer { T0 + 500 } else { T0 + 1 };
    SignedEntry::from_parts(
        &ns_secret(0),
        &author(0),
        b"ab",
        iroh_docs::sync::Record::new(Val::Y.hash_len().0, 1, ts),
    )
}

/// The entry a local op produces when the clock is pinned to `ts`.
fn local_entry(op: Op, ts: u64) -> SignedEntry {
    let (key, val): (&[u8], Val) = match op {
        Op::InsA => (b"a", Val::X),
        Op::InsAb => (b"ab", Val::X),
        Op::InsAff => (b"a\xff", Val::X),
        Op::DelA => (b"a", Val::Del),
        Op::DelRoot => (b"", Val::Del),
        _ => unreachable!(),
    };
    let (h, l) = val.hash_len();
    SignedEntry::from_parts(
        &ns_secret(0),
        &author(0),
        key,
        iroh_docs::sync::Record::new(h, l, ts),
    )
}

struct Shared {
    counter: u64,
    forced: BTreeSet<u64>,
    write_open: Vec<bool>,
    /// (content hash, lo, hi, point index or u64::MAX for after-op images)
    images: Vec<([u8; 32], usize, usize, u64)>,
    ops_started: usize,
    ops_done: usize,
    last_ack: usize,
    db: PathBuf,
    imgdir: PathBuf,
    enabled: bool,
}

impl Shared {
    fn image(&mut self, point: u64) {
        let bytes = std::fs::read(&self.db).expect("read db file");
        let hash = *blake3::hash(&bytes).as_bytes();
        let p = self.imgdir.join(hex::encode(&hash[..16]));
        if !p.exists() {
            std::fs::write(&p, &bytes).expect("write image");
        }
        self.images
            .push((hash, self.last_ack, self.ops_started, point));
    }
}

struct RunResult {
    points: u64,
    write_open: Vec<bool>,
    images: Vec<([u8; 32], usize, usize, u64)>,
    /// model state after j complete operations
    states: Vec<St>,
    final_dump_ok: Option<String>,
}

/// Execute a history on a fresh file-backed store with the given forced-old placements.
fn run_history(hist: &[Op], forced: &BTreeSet<u64>, dir: &Path) -> RunResult {
    let ns = ns_id(0);
    let db = dir.join("live.redb");
    let _ = std::fs::remove_file(&db);
    let imgdir = dir.join("img");
    std::fs::create_dir_all(&imgdir).unwrap();
    set_clock(NOW);
    let mut sut = Sut::persistent_with(&db, &[0]).expect("store");
    sut.store.import_author(author(0)).expect("author");
    sut.store.flush().expect("flush");
    let shared = Arc::new(Mutex::new(Shared {
        counter: 0,
        forced: forced.clone(),
        write_open: vec![],
        images: vec![],
        ops_started: 0,
        ops_done: 0,
        last_ack: 0,
        db: db.clone(),
        imgdir,
        enabled: true,
    }));
    {
        let sh = shared.clone();
        iroh_docs::verif::set_store_access_callback(Some(Box::new(move |info: AccessInfo| {
            let mut s = sh.lock().unwrap();
            if !s.enabled {
                return false;
            }
            let idx = s.counter;
            s.counter += 1;
            s.write_open.push(info.write_open);
            s.image(idx);
            s.forced.contains(&idx)
        })));
    }
    let mut model = ModelReplica::default();
    let mut exists = true;
    let mut peers: Vec<u8> = vec![];
    let mut policy = 0u8;
    iroh_docs::verif::set_clock_nanos(Some(7_000_000));
    let snap = |exists: bool, model: &ModelReplica, peers: &Vec<u8>, policy: u8| St {
        exists,
        entries: model.dump(),
        peers: peers.clone(),
        policy,
    };
    let mut states = vec![snap(exists, &model, &peers, policy)];
    for (i, op) in hist.iter().enumerate() {
        shared.lock().unwrap().ops_started = i + 1;
        let ts = T0 + 10 + i as u64;
        match op {
            Op::InsA | Op::InsAb | Op::InsAff | Op::DelA | Op::DelRoot => {
                let e = local_entry(*op, ts);
                set_clock(ts);
                let (key, val) = (e.key().to_vec(), Val::of(&e).unwrap());
                let _ = sut.local_insert(ns, &author(0), &key, val);
                set_clock(NOW);
                if exists {
                    model.put(&e);
                }
            }
            Op::RemoteOlder | Op::RemoteNewer => {
                let e = remote_entry(matches!(op, Op::RemoteNewer));
                let _ = sut.remote(ns, e.clone());
                if exists {
                    model.put(&e);
                }
            }
            Op::Flush => {
                sut.store.flush().expect("flush");
            }
            Op::Fill(k) => {
                shared.lock().unwrap().enabled = false;
                for e in fill_entries(*k) {
                    let _ = sut.remote(ns, e.clone());
                    if exists {
                        model.put(&e);
                    }
                }
                // the filling is not one operation but 1100: it is made durable before the
                // store is observed again, so that no image can show a part of it
                sut.store.flush().expect("flush");
                shared.lock().unwrap().enabled = true;
            }
            Op::SnapshotRead => {
                let _ = sut.store.get_many(ns, iroh_docs::store::Query::all()).map(|i| i.count());
            }
            Op::RemoveDoc => {
                let _ = sut.store.remove_replica(&ns);
                exists = false;
                model = ModelReplica::default();
                peers.clear();
                policy = 0;
            }
            Op::PeerA | Op::PeerB | Op::PeerN(_) => {
                let p = match op {
                    Op::PeerA => 1u8,
                    Op::PeerB => 2u8,
                    Op::PeerN(n) => *n,
                    _ => unreachable!(),
                };
                let _ = sut.store.register_useful_peer(ns, [p; 32]);
                if exists {
                    peers.retain(|x| *x != p);
                    peers.insert(0, p);
                    peers.truncate(5);
                }
            }
            Op::Policy1 | Op::Policy2 => {
                let p = if matches!(op, Op::Policy1) { 1u8 } else { 2u8 };
                let _ = sut.store.set_download_policy(&ns, the_policy(p));
                if exists {
                    policy = p;
                }
            }
            Op::Recreate => {
                let _ = sut
                    .store
                    .import_namespace(iroh_docs::Capability::Write(ns_secret(0)));
                exists = true;
            }
        }
        states.push(snap(exists, &model, &peers, policy));
        let mut s = shared.lock().unwrap();
        s.ops_done = i + 1;
        if matches!(op, Op::Flush | Op::SnapshotRead | Op::Fill(_)) {
            s.last_ack = i + 1;
        }
        s.image(u64::MAX);
    }
    // stop observing, then check the live store's final state (sanity of the model)
    shared.lock().unwrap().enabled = false;
    iroh_docs::verif::set_store_access_callback(None);
    iroh_docs::verif::set_clock_nanos(None);
    let live = sut.dump(ns);
    let live_exists = sut
        .store
        .list_namespaces()
        .map(|i| i.count() == 1)
        .unwrap_or(false);
    let final_dump_ok = (live != model.dump() || live_exists != exists).then(|| {
        format!(
            "live store {} vs model {}",
            show_entries(&live),
            show_entries(&model.dump())
        )
    });
    // a kill never runs destructors: forget the store so that Drop's flush cannot touch the
    // file while images are evaluated (images were copied already)
    drop(sut);
    let s = shared.lock().unwrap();
    RunResult {
        points: s.counter,
        write_open: s.write_open.clone(),
        images: s.images.clone(),
        states,
        final_dump_ok,
    }
}

#[derive(Debug, Clone)]
struct Recovered {
    open_error: Option<String>,
    exists: bool,
    dump: Vec<SignedEntry>,
    peers: Vec<u8>,
    policy: u8,
    inconsistencies: Vec<String>,
}

fn recover(image: &Path, dir: &Path) -> Recovered {
    let copy = dir.join("recover.redb");
    std::fs::copy(image, &copy).expect("copy image");
    let mut sut = match Sut::persistent(&copy) {
        Ok(s) => s,
        Err(e) => {
            return Recovered {
                open_error: Some(format!("{e:#}")),
                exists: false,
                dump: vec![],
                peers: vec![],
                policy: 0,
                inconsistencies: vec![],
            }
        }
    };
    let ns = ns_id(0);
    let dump = sut.dump(ns);
    let mut inc = vec![];
    let mut by_key = dump_by_key(&mut sut, ns);
    by_key.sort_by_key(|e| (e.author().to_bytes(), e.key().to_vec()));
    if by_key != dump {
        inc.push(format!(
            "by-key path {} vs records {}",
            show_entries(&by_key),
            show_entries(&dump)
        ));
    }
    let heads = sut.heads(ns);
    let max = dump.iter().map(|e| e.timestamp()).max();
    match (heads.as_slice(), max) {
        ([], None) => {}
        ([(a, t, k)], Some(m)) if *a == author_id(0) && *t == m => {
            if !dump.iter().any(|e| e.key() == &k[..] && e.timestamp() == *t) {
                inc.push(format!("head key \"{}\" holds no entry with the head timestamp", show_key(k)));
            }
        }
        (h, m) => inc.push(format!(
            "heads {:?} vs max timestamp of records {:?}",
            h.iter().map(|(_, t, _)| t - T0).collect::<Vec<_>>(),
            m.map(|m| m - T0)
        )),
    }
    for k in [&b""[..], b"a", b"ab", b"a\xff"] {
        let got = sut.store.get_exact(ns, author_id(0), k, true).expect("get_exact");
        let want = dump.iter().find(|e| e.key() == k).cloned();
        if got != want {
            inc.push(format!("get_exact(\"{}\") disagrees with the listing", show_key(k)));
        }
    }
    let nss: Vec<_> = sut
        .store
        .list_namespaces()
        .expect("list")
        .map(|r| r.expect("ns").0)
        .collect();
    let exists = nss == vec![ns];
    if !exists && !nss.is_empty() {
        inc.push(format!("foreign namespaces listed: {}", nss.len()));
    }
    if !exists && (!dump.is_empty() || !heads.is_empty()) {
        inc.push(format!(
            "the document is not listed but {} entries and {} heads of it are readable",
            dump.len(),
            heads.len()
        ));
    }
    let authors = sut.store.list_authors().expect("authors").count();
    if authors != 1 {
        inc.push(format!("authors listed: {authors}"));
    }
    let peers: Vec<u8> = sut
        .store
        .get_sync_peers(&ns)
        .expect("peers")
        .map(|i| i.map(|p| p[0]).collect())
        .unwrap_or_default();
    let policy = match sut.store.get_download_policy(&ns) {
        Ok(p) if p == the_policy(1) => 1,
        Ok(p) if p == the_policy(2) => 2,
        Ok(p) if p == iroh_docs::store::DownloadPolicy::default() => 0,
        other => {
            inc.push(format!("unreadable or unknown download policy: {other:?}"));
            9
        }
    };
    if !exists && (!peers.is_empty() || policy != 0) {
        inc.push(format!(
            "the document is not listed but peers {peers:?} / policy {policy} of it are readable"
        ));
    }
    drop(sut);
    let _ = std::fs::remove_file(&copy);
    Recovered {
        open_error: None,
        exists,
        dump,
        peers,
        policy,
        inconsistencies: inc,
    }
}

/// Evaluate all images of one run. Returns violations and (distinct nontrivial windows, images).
fn evaluate(
    hist: &[Op],
    forced: &BTreeSet<u64>,
    rr: &RunResult,
    dir: &Path,
    cache: &mut HashMap<[u8; 32], Recovered>,
    seen_windows: &mut BTreeSet<([u8; 32], usize, usize)>,
) -> (Vec<(&'static str, Value, String)>, u64) {
    let mut bad = vec![];
    let mut nontrivial = 0;
    if let Some(d) = &rr.final_dump_ok {
        bad.push(("live_store_matches_model", json!({}), d.clone()));
    }
    for (hash, lo, hi, point) in &rr.images {
        if !seen_windows.insert((*hash, *lo, *hi)) {
            continue;
        }
        if hi > lo {
            nontrivial += 1;
        }
        let rec = cache
            .entry(*hash)
            .or_insert_with(|| recover(&dir.join("img").join(hex::encode(&hash[..16])), dir))
            .clone();
        let at = if *point == u64::MAX {
            "after an operation".to_string()
        } else {
            format!("at access point {point}")
        };
        if let Some(e) = &rec.open_error {
            bad.push((
                "image_reopens",
                json!({"forced": forced.len()}),
                format!("image {at} does not open: {e}"),
            ));
            continue;
        }
        let same = |j: usize| {
            let st = &rr.states[j];
            st.exists == rec.exists && st.entries == rec.dump && st.peers == rec.peers && st.policy == rec.policy
        };
        let ok = (*lo..=*hi).any(same);
        if !ok {
            // which operation was in progress
            let in_progress = hist.get(hi.saturating_sub(1)).copied();
            let older_than_flush = (0..*lo).any(same);
            bad.push((
                "image_is_operation_boundary_state",
                json!({"forced": forced.len(), "operation_in_progress": format!("{in_progress:?}"), "older_than_last_flush": older_than_flush, "matches_no_boundary_state": !(0..rr.states.len()).any(same)}),
                format!(
                    "image {at} (window {lo}..={hi}) shows listed={} {} peers={:?} policy={} which is none of the states after {lo}..={hi} operations: {:?}",
                    rec.exists,
                    show_entries(&rec.dump),
                    rec.peers,
                    rec.policy,
                    (*lo..=*hi).map(|j| rr.states[j].show()).collect::<Vec<_>>()
                ),
            ));
        }
        for i in &rec.inconsistencies {
            bad.push((
                "image_is_internally_consistent",
                json!({"forced": forced.len()}),
                format!("image {at}: {i}"),
            ));
        }
    }
    (bad, nontrivial)
}

fn check_history(hist: &[Op], max_forced: usize, report: &mut Report, ordinal: u64) {
    check_history_from(hist, 0, max_forced, report, ordinal)
}

/// `prefix_len`: the first operations of the history only set the scene; forced-old answers are
/// placed at access points of the operations after them.
fn check_history_from(hist: &[Op], prefix_len: usize, max_forced: usize, report: &mut Report, ordinal: u64) {
    let dir = scratch_dir();
    let mut cache: HashMap<[u8; 32], Recovered> = HashMap::new();
    let mut seen: BTreeSet<([u8; 32], usize, usize)> = BTreeSet::new();
    let mut one = |forced: &BTreeSet<u64>, report: &mut Report| -> Option<RunResult> {
        let case = json!({"hist": hist, "forced": forced});
        match catch(|| {
            let rr = run_history(hist, forced, dir.path());
            let ev = evaluate(hist, forced, &rr, dir.path(), &mut cache, &mut seen);
            (rr, ev)
        }) {
            Err(p) => {
                iroh_docs::verif::set_store_access_callback(None);
                report.violation("no_panic", json!({}), case, format!("panic: {p}"), ordinal);
                None
            }
            Ok((rr, (bad, nt))) => {
                report.evaluations += rr.images.len() as u64;
                report.nontrivial += nt;
                report.count("runs", 1);
                report.count("access_points", rr.points);
                for (o, w, d) in bad {
                    report.violation(o, w, case.clone(), d, ordinal);
                }
                Some(rr)
            }
        }
    };
    let Some(base) = one(&BTreeSet::new(), report) else {
        return;
    };
    let first_point = base
        .images
        .iter()
        .filter(|(_, _, started, point)| *started > prefix_len && *point != u64::MAX)
        .map(|(_, _, _, point)| *point)
        .min()
        .unwrap_or(0);
    let candidates: Vec<u64> = (first_point.min(base.points)..base.points)
        .filter(|i| base.write_open[*i as usize])
        .collect();
    if max_forced >= 1 {
        for &i in &candidates {
            one(&BTreeSet::from([i]), report);
        }
    }
    if max_forced >= 2 {
        for &i in &candidates {
            for j in (i + 1)..base.points {
                one(&BTreeSet::from([i, j]), report);
            }
        }
    }
    report.count("distinct_images", cache.len() as u64);
    report.outcome(format!("{}", cache.len()));
    if hist.len() >= 3 && hist.iter().any(|o| matches!(o, Op::DelA | Op::DelRoot)) {
        report.sample(|| json!({"history": hist.iter().map(|o| format!("{o:?}")).collect::<Vec<_>>(), "access_points": base.points, "forced_old_placements": candidates.len(), "distinct_images": cache.len()}));
    }
}

// ---------------------------------------------------------------------------------------
// Family E: the durability promise as applications get it — through the store actor
// (`SyncHandle::flush_store`, which nodes call before they report "saved", and `shutdown`). Every
// history of writes and flush requests, issued back to back on a long-lived handle; after every
// acknowledged flush the database file is copied (the process "dies" there) and the copy must
// show exactly the writes acknowledged so far.
// ---------------------------------------------------------------------------------------

#[derive(Debug, Clone, Copy, PartialEq, Eq, Serialize, Deserialize)]
pub enum AOp {
    InsA,
    InsAb,
    DelA,
    Flush,
    /// let 150 ms of real time pass (flushes that are close together vs. apart)
    Pause,
    /// a complete reconciliation session with a peer that holds one entry the node lacks: the
    /// entry enters through `sync_process_message` (no local write, no single remote insert)
    SyncIn,
}

const AOPS: [AOp; 6] = [AOp::InsA, AOp::InsAb, AOp::DelA, AOp::Flush, AOp::Pause, AOp::SyncIn];

fn actor_history(hist: &[AOp]) -> Vec<(&'static str, Value, String)> {
    use crate::sut::block_on;
    use iroh_docs::actor::{OpenOpts, SyncHandle};
    let mut bad = vec![];
    let ns = ns_id(0);
    let dir = scratch_dir();
    let db = dir.path().join("live.redb");
    set_clock(NOW);
    let mut sut = Sut::persistent_with(&db, &[0]).expect("store");
    sut.store.import_author(author(0)).expect("author");
    sut.store.flush().expect("flush");
    let h = SyncHandle::spawn(sut.store, None, "c06-actor".into());
    block_on(h.open(ns, OpenOpts::default().sync())).expect("open");
    let mut model = ModelReplica::default();
    for (i, op) in hist.iter().enumerate() {
        let ts = T0 + 10 + i as u64;
        match op {
            AOp::SyncIn => {
                // (same author as the local writes: the consistency checks of `recover` know one author)
                let e = SignedEntry::from_parts(&ns_secret(0), &author(0), format!("r{i}").as_bytes(), iroh_docs::sync::Record::new(Val::Y.hash_len().0, 1, T0 + 500 + i as u64));
                let mut peer = Sut::memory_with(&[0]);
                let _ = peer.remote(ns, e.clone());
                let mut st_p = iroh_docs::SyncOutcome::default();
                let mut st_h = iroh_docs::SyncOutcome::default();
                let mut msg = peer.sync_initial(ns).ok();
                let mut rounds = 0;
                while let Some(m) = msg.take() {
                    rounds += 1;
                    if rounds > 40 {
                        break;
                    }
                    match block_on(h.sync_process_message(ns, m, crate::sut::PEER, std::mem::take(&mut st_h))) {
                        Ok((reply, s2)) => {
                            st_h = s2;
                            match reply {
                                Some(r) => msg = peer.sync_process(ns, r, [9u8; 32], &mut st_p).ok().flatten(),
                                None => break,
                            }
                        }
                        Err(_) => break,
                    }
                }
                // (no look at the document here: a query commits the open transaction and would
                // hide exactly what this operation is about; the session's own count tells
                // whether the entry entered)
                if st_h.num_recv >= 1 {
                    model.put(&e);
                }
            }
            AOp::InsA | AOp::InsAb | AOp::DelA => {
                let cop = match op {
                    AOp::InsA => Op::InsA,
                    AOp::InsAb => Op::InsAb,
                    _ => Op::DelA,
                };
                let e = local_entry(cop, ts);
                set_clock(ts);
                let res = if matches!(op, AOp::DelA) {
                    block_on(h.delete_prefix(ns, author(0).id(), bytes::Bytes::copy_from_slice(e.key()))).map(|_| ())
                } else {
                    block_on(h.insert_local(ns, author(0).id(), bytes::Bytes::copy_from_slice(e.key()), e.content_hash(), e.content_len()))
                };
                set_clock(NOW);
                if res.is_ok() {
                    model.put(&e);
                }
            }
            AOp::Pause => std::thread::sleep(std::time::Duration::from_millis(150)),
            AOp::Flush => {
                if let Err(e) = block_on(h.flush_store()) {
                    bad.push(("flush_is_acknowledged", json!({"actor": true}), format!("step {i}: flush_store failed: {e:#}")));
                    continue;
                }
                // the process dies right after the acknowledgement
                let image = dir.path().join(format!("img{i}.redb"));
                std::fs::copy(&db, &image).expect("copy");
                let r = recover(&image, dir.path());
                let _ = std::fs::remove_file(&image);
                if let Some(e) = &r.open_error {
                    bad.push(("reopen_ok", json!({"actor": true}), format!("image after the flush at step {i}: {e}")));
                    continue;
                }
                if r.dump != model.dump() {
                    bad.push((
                        "acknowledged_before_flush_is_durable",
                        json!({"actor": true, "missing": model.dump().iter().filter(|e| !r.dump.contains(e)).count()}),
                        format!("through the store actor, history {hist:?}: the file copied right after the flush acknowledged at step {i} holds {} but the writes acknowledged before it give {}", show_entries(&r.dump), show_entries(&model.dump())),
                    ));
                }
                for inc in r.inconsistencies {
                    bad.push(("recovered_store_is_consistent", json!({"actor": true}), format!("image after the flush at step {i}: {inc}")));
                }
            }
        }
    }
    // shutdown hands the store back; what it holds must be in the file once it is dropped
    let store = block_on(h.shutdown());
    drop(store);
    let r = recover(&db, dir.path());
    if r.open_error.is_some() || r.dump != model.dump() {
        bad.push((
            "acknowledged_before_flush_is_durable",
            json!({"actor": true, "after_shutdown": true}),
            format!("through the store actor, history {hist:?}: after shutdown (and dropping the store handed back) the file holds {} but the acknowledged writes give {} ({:?})", show_entries(&r.dump), show_entries(&model.dump()), r.open_error),
        ));
    }
    bad
}

/// The process is killed right after a node with a file-backed docs store was started for the
/// first time (within the commit delay, before any request that commits): the directory as it is
/// at that moment must be one the node can be started from again.
fn node_first_start() -> Vec<(&'static str, Value, String)> {
    let mut bad = vec![];
    let rt = super::live::runtime();
    let res: anyhow::Result<()> = rt.block_on(async {
        let dir = tempfile::tempdir()?;
        let node = super::live::live_node_at(0x79, Some(dir.path())).await?;
        let image = tempfile::tempdir()?;
        for f in std::fs::read_dir(dir.path())? {
            let f = f?;
            if f.file_type()?.is_file() {
                std::fs::copy(f.path(), image.path().join(f.file_name()))?;
            }
        }
        let _ = tokio::time::timeout(std::time::Duration::from_secs(10), node.router.shutdown()).await;
        drop(node);
        match super::live::live_node_at(0x7a, Some(image.path())).await {
            Ok(again) => {
                if let Err(e) = again.docs.api().author_default().await {
                    bad.push(("reopen_ok", json!({"node": true}), format!("a node restarted from the directory of a node killed right after its first start has no usable default author: {e:#}")));
                }
                let _ = tokio::time::timeout(std::time::Duration::from_secs(10), again.router.shutdown()).await;
            }
            Err(e) => bad.push(("reopen_ok", json!({"node": true}), format!("a node with a file-backed docs store was killed right after its first start; it cannot be started again from its directory: {e:#}"))),
        }
        Ok(())
    });
    drop(rt);
    if let Err(e) = res {
        bad.push(("MACHINERY", json!({}), format!("node first start scenario: {e:#}")));
    }
    bad
}

fn run_actor_family(ctx: &Ctx, report: &mut Report, ordinal: &mut u64) {
    let depth = if ctx.quick() { 4 } else { 5 };
    for d in 1..=depth {
        for_each_sequence(AOPS.len(), d, |seq| {
            let hist: Vec<AOp> = seq.iter().map(|&i| AOPS[i]).collect();
            // histories that end with a flush and hold a write (the others are prefixes of those)
            if hist.last() != Some(&AOp::Flush) || !hist.iter().any(|o| matches!(o, AOp::InsA | AOp::InsAb | AOp::DelA | AOp::SyncIn)) {
                return;
            }
            if hist.iter().filter(|o| matches!(o, AOp::Pause)).count() > 1 {
                return;
            }
            *ordinal += 1;
            if !ctx.mine(*ordinal) {
                return;
            }
            report.evaluations += 1;
            report.nontrivial += 1;
            report.count("family_E_actor_histories", 1);
            let case = json!({"actor_hist": hist});
            match catch(|| actor_history(&hist)) {
                Err(p) => report.violation("no_panic", json!({"actor": true}), case, format!("panic: {p}"), *ordinal),
                Ok(bad) => {
                    for (o, w, d) in bad {
                        report.violation(o, w, case.clone(), d, *ordinal);
                    }
                }
            }
        });
    }
}

fn run(ctx: &Ctx, report: &mut Report) {
    crate::util::silence_panics();
    let mut ordinal = 0u64;
    if ctx.shard == 13 % ctx.of {
        report.evaluations += 1;
        report.count("node_killed_right_after_first_start", 1);
        let case = json!({"node_first_start": true});
        match catch(node_first_start) {
            Err(p) => report.violation("no_panic", json!({"node": true}), case, format!("panic: {p}"), 0),
            Ok(bad) => {
                for (o, w, d) in bad {
                    if o == "MACHINERY" {
                        report.machinery_error(d);
                    } else {
                        report.violation(o, w, case.clone(), d, 0);
                    }
                }
            }
        }
    }
    run_actor_family(ctx, report, &mut ordinal);
    let fams: Vec<(usize, usize)> = if ctx.quick() {
        vec![(4, 1), (3, 2)]
    } else {
        vec![(5, 1), (4, 2)]
    };
    for (depth, k) in fams {
        for d in 1..=depth {
            for_each_sequence(OPS.len(), d, |seq| {
                ordinal += 1;
                if !ctx.mine(ordinal) {
                    return;
                }
                let hist: Vec<Op> = seq.iter().map(|&i| OPS[i]).collect();
                check_history(&hist, k, report, ordinal);
            });
        }
    }
    // family B: per-document settings, removal and re-creation
    let (depth_b, k_b) = if ctx.quick() { (3, 2) } else { (4, 2) };
    for d in 1..=depth_b {
        for_each_sequence(OPS_B.len(), d, |seq| {
            ordinal += 1;
            if !ctx.mine(ordinal) {
                return;
            }
            let hist: Vec<Op> = seq.iter().map(|&i| OPS_B[i]).collect();
            check_history(&hist, k_b, report, ordinal);
        });
    }
    // family C: a full peer cache
    let depth_c = if ctx.quick() { 2 } else { 3 };
    for d in 1..=depth_c {
        for_each_sequence(OPS_C.len(), d, |seq| {
            ordinal += 1;
            if !ctx.mine(ordinal) {
                return;
            }
            let mut hist: Vec<Op> = PREFIX_C.to_vec();
            hist.extend(seq.iter().map(|&i| OPS_C[i]));
            check_history_from(&hist, PREFIX_C.len(), 2, report, ordinal);
        });
    }
    // family D: one operation supersedes 1100 durable entries
    let depth_d = if ctx.quick() { 2 } else { 3 };
    for d in 1..=depth_d {
        for_each_sequence(OPS_D.len(), d, |seq| {
            ordinal += 1;
            if !ctx.mine(ordinal) {
                return;
            }
            let mut hist: Vec<Op> = PREFIX_D.to_vec();
            hist.extend(seq.iter().map(|&i| OPS_D[i]));
            report.count("family_D_histories", 1);
            check_history_from(&hist, PREFIX_D.len(), if ctx.quick() { 1 } else { 2 }, report, ordinal);
        });
    }
    report.fact("deviation_bound_completed", json!(2));
}

fn replay(case: &Value) -> anyhow::Result<(bool, String)> {
    if case.get("node_first_start").is_some() {
        return match catch(node_first_start) {
            Err(p) => Ok((true, format!("panic: {p}"))),
            Ok(bad) => {
                let out: String = bad.iter().map(|(o, _, d)| format!("FAILED {o}: {d}\n")).collect();
                Ok((!bad.is_empty(), format!("node killed right after its first start\n{out}")))
            }
        };
    }
    if let Some(h) = case.get("actor_hist") {
        let hist: Vec<AOp> = serde_json::from_value(h.clone())?;
        return match catch(|| actor_history(&hist)) {
            Err(p) => Ok((true, format!("panic: {p}"))),
            Ok(bad) => {
                let out: String = bad.iter().map(|(o, _, d)| format!("FAILED {o}: {d}\n")).collect();
                Ok((!bad.is_empty(), format!("through the store actor: {hist:?}\n{out}")))
            }
        };
    }
    let hist: Vec<Op> = serde_json::from_value(case["hist"].clone())?;
    let forced: BTreeSet<u64> = serde_json::from_value(case["forced"].clone())?;
    let dir = scratch_dir();
    let mut cache = HashMap::new();
    let mut seen = BTreeSet::new();
    match catch(|| {
        let rr = run_history(&hist, &forced, dir.path());
        evaluate(&hist, &forced, &rr, dir.path(), &mut cache, &mut seen)
    }) {
        Err(p) => {
            iroh_docs::verif::set_store_access_callback(None);
            Ok((true, format!("panic: {p}")))
        }
        Ok((bad, _)) => {
            let mut out = format!("history {hist:?} forced-old at access points {forced:?}\n");
            for (o, _, d) in &bad {
                out.push_str(&format!("FAILED {o}: {d}\n"));
            }
            Ok((!bad.is_empty(), out))
        }
    }
}
