pub mod common;

pub mod recon;

pub mod apifam;
pub mod live;
pub mod oldfmt;

pub mod c01;
pub mod c02;
pub mod c03;
pub mod c04;
pub mod c05;
pub mod c06;
pub mod c07;
pub mod c08;
pub mod c09;
pub mod c10;
pub mod c11;
pub mod c12;
pub mod c13;
pub mod c14;
pub mod c15;
pub mod c16;
pub mod c17;
pub mod c18;

use crate::PropDef;

pub fn all() -> Vec<PropDef> {
    vec![c01::def(), c02::def(), c03::def(), c04::def(), c05::def(), c06::def(), c07::def(), c08::def(), c09::def(), c10::def(), c11::def(), c12::def(), c13::def(), c14::def(), c15::def(), c16::def(), c17::def(), c18::def()]
}
