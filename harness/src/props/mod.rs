pub mod common;

pub mod c02;

use crate::PropDef;

pub fn all() -> Vec<PropDef> {
    vec![c02::def()]
}
