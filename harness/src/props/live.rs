//! Family L of C04: the swarm as it is deployed end to end — N real nodes in this process, each a
//! real `Docs` engine (live actor, gossip receive loop, store actor) behind a real `Router` on a
//! loopback QUIC endpoint. The histories are enumerated exhaustively (writes, prefix deletions,
//! joining, leaving, waiting for quiescence); what the network does in between is *not* controlled
//! (real gossip, real sessions), so one execution per history is observed, and the oracle is the
//! one thing the statement promises whatever the schedule: once nothing is written any more and
//! complete sessions have been run along a connected set of pairs until a full pass transfers
//! nothing, every node holds the merge of all accepted local writes — and never anything nobody
//! wrote. The closing phase therefore *asks* for sessions (`start_sync` naming the neighbour, a
//! `DirectJoin` dial) and reads the engine's own `SyncFinished` events: a pass counts only if every
//! pair of the spanning tree reported a successful session that started after the pass began.
//! If no such session can be obtained the premise of the statement is not met and nothing is
//! concluded (counted in the evidence, never an alarm: whether nodes are ready for a session is
//! C11's business, whether a session ends cleanly C10's).

use std::{collections::BTreeSet, time::Duration};

use iroh_docs::{api::Doc, store::Query, Author, AuthorId, Capability};
use n0_future::StreamExt;
use serde::{Deserialize, Serialize};
use serde_json::{json, Value};

use super::{apifam::secret, common::set_clock};
use crate::{
    report::Report,
    universe::{NOW, T0},
    Ctx,
};

pub type Bad = Vec<(&'static str, Value, String)>;

/// (author, key, timestamp, content hash, content length)
type Row = ([u8; 32], Vec<u8>, u64, [u8; 32], u64);

#[derive(Debug, Clone, Copy, PartialEq, Eq, Serialize, Deserialize)]
pub enum LEv {
    /// node n writes key number k (0: "k1x", 1: "k2")
    W(u8, u8),
    /// node n deletes the prefix "k1"
    D(u8),
    /// every node calls `start_sync` (node 0 without peers, the others naming node 0)
    J,
    /// wait until all nodes hold the merge of what has been written so far (only meaningful
    /// while every node syncs the document; otherwise a no-op)
    Q,
    /// the last node leaves the document (`Doc::leave`)
    Leave,
    /// the last node (the one with a file-backed docs store) is shut down and started again from
    /// its directory; it has to open the document and join again
    Restart,
}

const KEYS: [&[u8]; 2] = [b"k1x", b"k2"];
const PREFIX: &[u8] = b"k1";

pub struct LiveNode {
    pub router: iroh::protocol::Router,
    pub docs: iroh_docs::protocol::Docs,
    pub author: AuthorId,
    pub blobs: iroh_blobs::store::mem::MemStore,
    pub seed: u8,
    /// directory of the docs store when it is file-backed
    pub dir: Option<tempfile::TempDir>,
}

pub async fn live_node(seed: u8) -> anyhow::Result<LiveNode> {
    live_node_at(seed, None).await
}

pub async fn live_node_at(seed: u8, dir: Option<&std::path::Path>) -> anyhow::Result<LiveNode> {
    use iroh::endpoint::presets;
    let ep = iroh::Endpoint::builder(presets::Minimal)
        .secret_key(iroh::SecretKey::from_bytes(&[seed; 32]))
        .bind()
        .await
        .map_err(|e| anyhow::anyhow!("bind: {e}"))?;
    let gossip = iroh_gossip::net::Gossip::builder().spawn(ep.clone());
    let blobs = iroh_blobs::store::mem::MemStore::new();
    let builder = match dir {
        Some(d) => iroh_docs::protocol::Docs::persistent(d.to_path_buf()),
        None => iroh_docs::protocol::Docs::memory(),
    };
    let docs = match builder.spawn(ep.clone(), (*blobs).clone(), gossip.clone()).await {
        Ok(d) => d,
        Err(e) => {
            ep.close().await;
            return Err(e);
        }
    };
    let router = iroh::protocol::Router::builder(ep.clone())
        .accept(iroh_blobs::ALPN, iroh_blobs::BlobsProtocol::new(&blobs, None))
        .accept(iroh_docs::ALPN, docs.clone())
        .accept(iroh_gossip::ALPN, gossip.clone())
        .spawn();
    let author = Author::from_bytes(&[seed ^ 0x0f; 32]);
    docs.api().author_import(author.clone()).await?;
    Ok(LiveNode { router, docs, author: author.id(), blobs, seed, dir: None })
}

async fn dump(doc: &Doc) -> Result<BTreeSet<Row>, String> {
    let st = doc.get_many(Query::all().include_empty()).await.map_err(|e| format!("{e:#}"))?;
    tokio::pin!(st);
    let mut out = BTreeSet::new();
    while let Some(item) = st.next().await {
        let e = item.map_err(|e| format!("{e:#}"))?;
        out.insert((e.author().to_bytes(), e.key().to_vec(), e.timestamp(), *e.content_hash().as_bytes(), e.content_len()));
    }
    Ok(out)
}

/// The merge of all accepted local writes (statement of C02, on rows).
fn merge(written: &[Row]) -> BTreeSet<Row> {
    written
        .iter()
        .filter(|e| {
            !written.iter().any(|o| {
                if o.0 != e.0 {
                    return false;
                }
                let (ov, ev) = ((o.2, o.3), (e.2, e.3));
                if o.1 == e.1 {
                    ov > ev
                } else {
                    e.1.starts_with(&o.1) && ov >= ev
                }
            })
        })
        .cloned()
        .collect()
}

fn show(rows: &BTreeSet<Row>) -> String {
    let v: Vec<String> = rows.iter().map(|r| format!("{:02x}:{}@{}{}", r.0[0], String::from_utf8_lossy(&r.1), r.2 as i64 - T0 as i64, if r.4 == 0 { "(del)" } else { "" })).collect();
    format!("{{{}}}", v.join(", "))
}

/// Waits (at most `patience`) until every node's dump equals the merge of `written`. Never a
/// verdict: without sessions being asked for, the statement promises nothing about *when*.
async fn settle(docs: &[Doc], written: &[Row], patience: Duration, foreign: &mut Option<String>) -> bool {
    let want = merge(written);
    let all: BTreeSet<Row> = written.iter().cloned().collect();
    let start = std::time::Instant::now();
    loop {
        let mut equal = true;
        for (n, d) in docs.iter().enumerate() {
            match dump(d).await {
                Ok(got) => {
                    if let Some(x) = got.iter().find(|r| !all.contains(*r)) {
                        foreign.get_or_insert_with(|| format!("node {n} holds an entry nobody wrote: {}", show(&[x.clone()].into_iter().collect())));
                    }
                    equal &= got == want;
                }
                Err(_) => equal = false,
            }
        }
        if equal {
            return true;
        }
        if start.elapsed() > patience {
            return false;
        }
        tokio::time::sleep(Duration::from_millis(20)).await;
    }
}

type SessionLog = std::sync::Arc<std::sync::Mutex<Vec<iroh_docs::engine::SyncEvent>>>;

/// Subscribes to a document's live events and collects the `SyncFinished` ones.
async fn session_log(doc: &Doc) -> Result<(SessionLog, tokio::task::JoinHandle<()>), String> {
    let mut st = doc.subscribe().await.map_err(|e| format!("subscribe: {e:#}"))?;
    let log: SessionLog = Default::default();
    let log2 = log.clone();
    let task = tokio::spawn(async move {
        while let Some(ev) = st.next().await {
            if let Ok(iroh_docs::engine::LiveEvent::SyncFinished(ev)) = ev {
                log2.lock().unwrap().push(ev);
            }
        }
    });
    Ok((log, task))
}

/// Asks node `i` for a session with node 0 until its engine reports a successful one that
/// started after this call began. Returns the number of entries it transferred, `None` if no
/// such session was reported within the deadline.
async fn forced_session(doc: &Doc, log: &SessionLog, peer: iroh::PublicKey, addr: iroh::EndpointAddr, deadline: Duration) -> Option<usize> {
    let begun = n0_future::time::SystemTime::now();
    let start = std::time::Instant::now();
    let mut asked = std::time::Instant::now() - Duration::from_secs(1);
    loop {
        if let Some(ev) = log.lock().unwrap().iter().find(|ev| ev.peer == peer && ev.started >= begun && ev.finished >= begun && ev.result.is_ok()) {
            let d = ev.result.as_ref().unwrap();
            return Some(d.entries_received + d.entries_sent);
        }
        if start.elapsed() > deadline {
            return None;
        }
        if asked.elapsed() > Duration::from_millis(250) {
            asked = std::time::Instant::now();
            let _ = doc.start_sync(vec![addr.clone()]).await;
        }
        tokio::time::sleep(Duration::from_millis(5)).await;
    }
}

#[derive(Default)]
pub struct Stats {
    pub settled_by_itself: u64,
    pub not_settled_by_itself: u64,
    pub premise_not_met: u64,
    pub passes: u64,
    pub not_settled_examples: Vec<String>,
    pub downloads_expected: u64,
}

/// `dec`: the clock of every write is *earlier* than that of the write before it.
fn row_of(e: &iroh_docs::Entry) -> Row {
    (e.author().to_bytes(), e.key().to_vec(), e.timestamp(), *e.content_hash().as_bytes(), e.content_len())
}

type EventLog = std::sync::Arc<std::sync::Mutex<Vec<iroh_docs::engine::LiveEvent>>>;

/// Subscribes to a document through the docs API (replica events of the store actor merged
/// with the live actor's events, as applications see them) and collects everything.
async fn event_log(doc: &Doc) -> Result<(EventLog, tokio::task::JoinHandle<()>), String> {
    let mut st = doc.subscribe().await.map_err(|e| format!("subscribe: {e:#}"))?;
    let log: EventLog = Default::default();
    let log2 = log.clone();
    let task = tokio::spawn(async move {
        while let Some(ev) = st.next().await {
            if let Ok(ev) = ev {
                log2.lock().unwrap().push(ev);
            }
        }
    });
    Ok((log, task))
}

/// C12 on the live swarm: what a subscriber of node `i` saw, against what node `i` wrote and holds.
fn event_verdicts(i: usize, log: &EventLog, local_writes: &[Row], all: &BTreeSet<Row>, held: &BTreeSet<Row>, own_author: [u8; 32]) -> Vec<(&'static str, String)> {
    use iroh_docs::engine::LiveEvent;
    let evs = log.lock().unwrap();
    let mut out = vec![];
    let locals: Vec<Row> = evs.iter().filter_map(|e| if let LiveEvent::InsertLocal { entry } = e { Some(row_of(entry)) } else { None }).collect();
    if locals != local_writes {
        out.push(("live_local_events_match_accepted_writes", format!("node {i}: InsertLocal events {} but the accepted local writes were {}", show_list(&locals), show_list(local_writes))));
    }
    let remotes: Vec<Row> = evs.iter().filter_map(|e| if let LiveEvent::InsertRemote { entry, .. } = e { Some(row_of(entry)) } else { None }).collect();
    for r in &remotes {
        if !all.contains(r) {
            out.push(("live_event_entries_were_written", format!("node {i}: InsertRemote event for an entry nobody wrote: {}", show_list(&[r.clone()]))));
        } else if r.0 == own_author {
            out.push(("live_no_remote_event_for_own_entries", format!("node {i}: InsertRemote event for an entry the node wrote itself (it cannot have entered again): {}", show_list(&[r.clone()]))));
        }
        if remotes.iter().filter(|x| *x == r).count() > 1 {
            out.push(("live_remote_event_at_most_once", format!("node {i}: {} InsertRemote events for {}", remotes.iter().filter(|x| *x == r).count(), show_list(&[r.clone()]))));
        }
    }
    for h in held {
        if h.0 != own_author && !remotes.contains(h) {
            out.push(("live_remote_event_for_every_entry_held", format!("node {i} holds {} (written elsewhere) but its subscriber saw no InsertRemote event for it; events: {}", show_list(&[h.clone()]), show_list(&remotes))));
        }
    }
    out
}

fn show_list(rows: &[Row]) -> String {
    let v: Vec<String> = rows.iter().map(|r| format!("{:02x}:{}@{}{}", r.0[0], String::from_utf8_lossy(&r.1), r.2 as i64 - T0 as i64, if r.4 == 0 { "(del)" } else { "" })).collect();
    format!("[{}]", v.join(", "))
}

/// The download policies the last node of the swarm is given in the C15 family, with their
/// definition written out (statement of C15) next to them.
pub fn policies() -> Vec<(iroh_docs::store::DownloadPolicy, fn(&[u8]) -> bool)> {
    use iroh_docs::store::{DownloadPolicy, FilterKind};
    vec![
        (DownloadPolicy::default(), |_| true),
        (DownloadPolicy::NothingExcept(vec![FilterKind::Prefix(bytes::Bytes::from_static(b"k1"))]), |k| k.starts_with(b"k1")),
        (DownloadPolicy::EverythingExcept(vec![FilterKind::Exact(bytes::Bytes::from_static(b"k2"))]), |k| k != b"k2"),
        (DownloadPolicy::NothingExcept(vec![]), |_| false),
        (DownloadPolicy::EverythingExcept(vec![FilterKind::Prefix(bytes::Bytes::from_static(b"k")), FilterKind::Exact(bytes::Bytes::from_static(b"zz"))]), |k| !k.starts_with(b"k") && k != b"zz"),
    ]
}

async fn has_blob(node: &LiveNode, hash: &[u8; 32]) -> bool {
    matches!(node.blobs.blobs().status(iroh_blobs::Hash::from_bytes(*hash)).await, Ok(iroh_blobs::api::blobs::BlobStatus::Complete { .. }))
}

/// `which`: "C04" reports the swarm clauses, "C12" the subscriber clauses, "C15:<i>" gives the
/// last node download policy number i and reports which contents it fetched.
pub async fn exec(nodes: &mut Vec<LiveNode>, hist: &[LEv], dec: bool, salt: u64, deadline: Duration, stats: &mut Stats, which: &str) -> Bad {
    let policy_no: Option<usize> = which.strip_prefix("C15:").and_then(|i| i.parse().ok());
    let which = if policy_no.is_some() { "C15" } else { which };
    let mut bad: Bad = vec![];
    let n = nodes.len();
    let sec = secret(salt, 7);
    set_clock(NOW);
    let mut docs: Vec<Doc> = vec![];
    for node in nodes.iter() {
        match node.docs.api().import_namespace(Capability::Write(sec.clone())).await {
            Ok(d) => docs.push(d),
            Err(e) => return vec![("machinery", json!({}), format!("import: {e:#}"))],
        }
    }
    if let Some(i) = policy_no {
        if let Err(e) = docs[n - 1].set_download_policy(policies()[i].0.clone()).await {
            return vec![("live_policy_can_be_set", json!({"live": true}), format!("set_download_policy on an existing, open document: {e:#}"))];
        }
    }
    let addr0 = nodes[0].router.endpoint().addr();
    let mut event_logs = vec![];
    let mut event_tasks = vec![];
    if which == "C12" || which == "C11" {
        for d in &docs {
            match event_log(d).await {
                Ok((l, t)) => {
                    event_logs.push(l);
                    event_tasks.push(t);
                }
                Err(e) => return vec![("machinery", json!({}), e)],
            }
        }
    }
    let mut local_writes: Vec<Vec<Row>> = vec![vec![]; n];
    let mut written: Vec<Row> = vec![];
    let mut syncing = vec![false; n];
    let mut foreign: Option<String> = None;
    let witness = |stage: &str| json!({"live": true, "nodes": n, "stage": stage});
    let join_all = |docs: &[Doc]| {
        let docs = docs.to_vec();
        let addr0 = addr0.clone();
        async move {
            for (i, d) in docs.iter().enumerate() {
                let peers = if i == 0 { vec![] } else { vec![addr0.clone()] };
                d.start_sync(peers).await.map_err(|e| format!("start_sync on node {i}: {e:#}"))?;
            }
            Ok::<(), String>(())
        }
    };
    for (step, ev) in hist.iter().enumerate() {
        let ts = if dec { T0 + 100 - step as u64 } else { T0 + 10 + step as u64 };
        match *ev {
            LEv::W(node, k) => {
                let (node, key) = (node as usize, KEYS[k as usize]);
                set_clock(ts);
                let res = docs[node].set_bytes(nodes[node].author, key.to_vec(), format!("v-{salt}-{node}-{k}-{step}").into_bytes()).await;
                set_clock(NOW);
                if res.is_ok() {
                    match docs[node].get_exact(nodes[node].author, key, false).await {
                        Ok(Some(e)) => {
                            written.push(row_of(&e));
                            local_writes[node].push(row_of(&e));
                        }
                        other => bad.push(("accepted_write_is_readable", witness("write"), format!("node {node} accepted a write of {:?} but reads back {other:?}", String::from_utf8_lossy(key)))),
                    }
                }
            }
            LEv::D(node) => {
                let node = node as usize;
                set_clock(ts);
                let res = docs[node].del(nodes[node].author, PREFIX.to_vec()).await;
                set_clock(NOW);
                if res.is_ok() {
                    match docs[node].get_exact(nodes[node].author, PREFIX, true).await {
                        Ok(Some(e)) => {
                            written.push(row_of(&e));
                            local_writes[node].push(row_of(&e));
                        }
                        other => bad.push(("accepted_write_is_readable", witness("delete"), format!("node {node} accepted a prefix deletion but reads back {other:?}"))),
                    }
                }
            }
            LEv::J => {
                if let Err(e) = join_all(&docs).await {
                    bad.push(("start_sync_ok", witness("join"), e));
                }
                syncing.iter_mut().for_each(|s| *s = true);
            }
            LEv::Q => {
                if syncing.iter().all(|s| *s) {
                    if settle(&docs, &written, PATIENCE, &mut foreign).await {
                        stats.settled_by_itself += 1;
                    } else {
                        stats.not_settled_by_itself += 1;
                        stats.not_settled_examples.push(format!("{:?} (waiting point at step {step}), clocks {}", hist, if dec { "stepping back" } else { "increasing" }));
                    }
                }
            }
            LEv::Restart => {
                let i = n - 1;
                if nodes[i].dir.is_none() {
                    continue;
                }
                let _ = docs[i].close().await;
                let mut old = nodes.remove(i);
                let dir = old.dir.take().expect("dir");
                let seed = old.seed;
                let _ = tokio::time::timeout(Duration::from_secs(10), old.router.shutdown()).await;
                drop(old);
                // start again from the directory (the database file is released when the old
                // store actor has gone)
                let started = std::time::Instant::now();
                let mut fresh = loop {
                    match live_node_at(seed, Some(dir.path())).await {
                        Ok(nn) => break nn,
                        Err(e) if started.elapsed() > Duration::from_secs(15) => return vec![("machinery", json!({}), format!("restart of node {i}: {e:#}"))],
                        Err(_) => tokio::time::sleep(Duration::from_millis(50)).await,
                    }
                };
                fresh.dir = Some(dir);
                nodes.push(fresh);
                syncing[i] = false;
                match nodes[i].docs.api().open(sec.id()).await {
                    Ok(Some(d)) => docs[i] = d,
                    other => {
                        bad.push(("document_survives_restart", witness("restart"), format!("node {i} was shut down and started again from its directory; opening the document gives {:?}", other.map(|o| o.is_some()).map_err(|e| e.to_string()))));
                        break;
                    }
                }
            }
            LEv::Leave => {
                if let Err(e) = docs[n - 1].leave().await {
                    bad.push(("leave_ok", witness("leave"), format!("{e:#}")));
                }
                syncing[n - 1] = false;
            }
        }
    }
    if !syncing.iter().all(|s| *s) {
        if let Err(e) = join_all(&docs).await {
            bad.push(("start_sync_ok", witness("join"), e));
        }
    }
    if settle(&docs, &written, PATIENCE, &mut foreign).await {
        stats.settled_by_itself += 1;
    } else {
        stats.not_settled_by_itself += 1;
        stats.not_settled_examples.push(format!("{:?} (end), clocks {}", hist, if dec { "stepping back" } else { "increasing" }));
    }
    // closing phase: complete sessions along the star around node 0 until a full pass transfers
    // nothing; then every node must hold the merge
    let id0 = nodes[0].router.endpoint().id();
    let mut logs = vec![];
    let mut tasks = vec![];
    for d in docs.iter().skip(1) {
        match session_log(d).await {
            Ok((l, t)) => {
                logs.push(l);
                tasks.push(t);
            }
            Err(e) => return vec![("machinery", json!({}), e)],
        }
    }
    let mut quiet = false;
    let mut premise = true;
    let max_passes = n + 3;
    'passes: for _ in 0..max_passes {
        stats.passes += 1;
        let mut moved = 0;
        for i in 1..n {
            match forced_session(&docs[i], &logs[i - 1], id0, addr0.clone(), deadline).await {
                Some(k) => moved += k,
                None => {
                    premise = false;
                    break 'passes;
                }
            }
        }
        if moved == 0 {
            quiet = true;
            break;
        }
    }
    for t in tasks {
        t.abort();
    }
    if !premise {
        stats.premise_not_met += 1;
        bad.push(("premise_not_met", witness("closing"), format!("no successful session could be obtained from the engines within {deadline:?}")));
    } else if !quiet {
        bad.push(("closing_phase_terminates", witness("closing"), format!("complete sessions along the star around node 0 still transfer entries after {max_passes} passes")));
    } else {
        let want = merge(&written);
        let all: BTreeSet<Row> = written.iter().cloned().collect();
        let mut differ = vec![];
        for (i, d) in docs.iter().enumerate() {
            match dump(d).await {
                Ok(got) => {
                    if let Some(x) = got.iter().find(|r| !all.contains(*r)) {
                        foreign.get_or_insert_with(|| format!("node {i} holds an entry nobody wrote: {}", show(&[x.clone()].into_iter().collect())));
                    }
                    if got != want {
                        differ.push(format!("node {i} holds {}", show(&got)));
                    }
                }
                Err(e) => differ.push(format!("node {i}: dump failed: {e}")),
            }
        }
        if !differ.is_empty() {
            bad.push(("converges_to_merge_of_local_writes", witness("closing"), format!("after complete sessions (reported successful by the engines) along the star around node 0 until a full pass transferred nothing: {}; the merge of all accepted local writes is {}", differ.join("; "), show(&want))));
        }
    }
    if which == "C12" && premise && quiet {
        // every event that is going to arrive has been caused; give the streams time to deliver
        let all: BTreeSet<Row> = written.iter().cloned().collect();
        let start = std::time::Instant::now();
        loop {
            let mut verdicts = vec![];
            for (i, d) in docs.iter().enumerate() {
                let held = dump(d).await.unwrap_or_default();
                let own = nodes[i].author.to_bytes();
                verdicts.extend(event_verdicts(i, &event_logs[i], &local_writes[i], &all, &held, own));
            }
            // only "an event is missing" can heal by waiting
            let may_heal = !verdicts.is_empty() && verdicts.iter().all(|(o, _)| *o == "live_remote_event_for_every_entry_held" || *o == "live_local_events_match_accepted_writes");
            if may_heal && start.elapsed() < deadline {
                tokio::time::sleep(Duration::from_millis(20)).await;
                continue;
            }
            for (o, d) in verdicts {
                bad.push((o, witness("events"), d));
            }
            break;
        }
    }
    if which == "C11" {
        use iroh_docs::engine::LiveEvent;
        // (S1) in a node's own record the sessions with one peer never overlap: a session is in
        // progress from the moment the node dialed / accepted until it reports it finished
        for (i, log) in event_logs.iter().enumerate() {
            let evs = log.lock().unwrap();
            let mut by_peer: std::collections::BTreeMap<[u8; 32], Vec<(n0_future::time::SystemTime, n0_future::time::SystemTime, String)>> = Default::default();
            for ev in evs.iter() {
                if let LiveEvent::SyncFinished(s) = ev {
                    let (a, b) = if s.started <= s.finished { (s.started, s.finished) } else { (s.finished, s.started) };
                    by_peer.entry(*s.peer.as_bytes()).or_default().push((a, b, format!("{:?}/{}", s.origin, if s.result.is_ok() { "ok" } else { "failed" })));
                }
            }
            for (peer, mut v) in by_peer {
                v.sort();
                for w in v.windows(2) {
                    if w[1].0 < w[0].1 {
                        bad.push(("live_sessions_of_a_pair_do_not_overlap", witness("sessions"), format!("node {i} reports two sessions with peer {:02x}.. that were in progress at the same time: {} and {} (the second started {:?} before the first finished)", peer[0], w[0].2, w[1].2, w[0].1.duration_since(w[1].0).unwrap_or_default())));
                    }
                }
            }
        }
        // (S4) nothing was in flight any more when the closing phase asked for sessions: a node
        // that neither completes nor fails a single session although it is asked again and again
        // is permanently marked busy (sessions that run and fail are not this property's business)
        if !premise {
            let any_report = logs.iter().any(|l| !l.lock().unwrap().is_empty());
            if !any_report {
                bad.push(("live_pair_is_ready_for_a_new_session", witness("closing"), format!("the nodes were asked for a session every 250 ms for {deadline:?} after all traffic had ended; no session was even reported as finished or failed")));
            }
        }
    }
    if let (Some(i), true, true) = (policy_no, premise, quiet) {
        // the contents written elsewhere: fetched by the last node exactly when its policy selects the key
        let me = n - 1;
        let own = nodes[me].author.to_bytes();
        let (_, selects) = policies()[i];
        let others: Vec<&Row> = written.iter().filter(|r| r.0 != own && r.4 > 0).collect();
        let wanted: Vec<&Row> = others.iter().copied().filter(|r| selects(&r.1)).collect();
        // only what the node still holds must arrive (a superseded entry's content may rightly be skipped)
        let held = dump(&docs[me]).await.unwrap_or_default();
        let start = std::time::Instant::now();
        let mut missing = vec![];
        loop {
            missing.clear();
            for r in &wanted {
                if held.contains(*r) && !has_blob(&nodes[me], &r.3).await {
                    missing.push((*r).clone());
                }
            }
            if missing.is_empty() || start.elapsed() > deadline {
                break;
            }
            tokio::time::sleep(Duration::from_millis(20)).await;
        }
        if !missing.is_empty() {
            bad.push(("live_selected_content_is_fetched", witness("downloads"), format!("node {me} with policy {:?}: the contents of {} (selected by the policy, available at their writers, entries held) were not fetched within {deadline:?}", policies()[i].0, show_list(&missing))));
        }
        // give a wrong download the time the right ones took, at least 300 ms
        tokio::time::sleep(Duration::from_millis(300)).await;
        let mut surplus = vec![];
        for r in &others {
            if !selects(&r.1) && has_blob(&nodes[me], &r.3).await {
                surplus.push((*r).clone());
            }
        }
        if !surplus.is_empty() {
            bad.push(("live_unselected_content_is_not_fetched", witness("downloads"), format!("node {me} with policy {:?}: fetched the contents of {} although the policy does not select these keys", policies()[i].0, show_list(&surplus))));
        }
        stats.downloads_expected += wanted.len() as u64;
    }
    for t in event_tasks {
        t.abort();
    }
    if std::env::var_os("VP_LIVE_DEBUG").is_some() {
        eprintln!("debug: written {} -> merge {}", show(&written.iter().cloned().collect()), show(&merge(&written)));
        for (i, d) in docs.iter().enumerate() {
            eprintln!("debug: node {i} holds {:?}", dump(d).await.map(|r| show(&r)));
        }
    }
    if let Some(f) = foreign {
        bad.push(("only_written_entries", witness("any"), f));
    }
    // tidy up: the nodes serve the next history
    for (i, d) in docs.iter().enumerate() {
        let _ = d.leave().await;
        let _ = d.close().await;
        let _ = nodes[i].docs.api().drop_doc(sec.id()).await;
    }
    set_clock(NOW);
    // only the clauses of the asking property
    bad.retain(|(o, _, _)| *o == "machinery" || *o == "premise_not_met" || (which != "C04") == o.starts_with("live_"));
    bad
}

pub fn runtime() -> tokio::runtime::Runtime {
    tokio::runtime::Builder::new_multi_thread().worker_threads(2).enable_all().build().expect("runtime")
}

/// `persistent_last`: the docs store of the last node lives in a directory (it can be restarted).
async fn nodes(n: usize, persistent_last: bool) -> anyhow::Result<Vec<LiveNode>> {
    let mut v = vec![];
    for i in 0..n {
        if persistent_last && i + 1 == n {
            let dir = tempfile::tempdir()?;
            let mut node = live_node_at(0x71 + i as u8, Some(dir.path())).await?;
            node.dir = Some(dir);
            v.push(node);
        } else {
            v.push(live_node(0x71 + i as u8).await?);
        }
    }
    Ok(v)
}

async fn shutdown(nodes: Vec<LiveNode>) {
    for node in nodes {
        let _ = tokio::time::timeout(Duration::from_secs(10), node.router.shutdown()).await;
    }
}

/// A second document that all nodes of the worker sync for as long as the worker lives: one
/// entry per node, converged before the first history. Whatever the histories do to *their*
/// documents, this one must not change (an entry, event or deletion attributed to the wrong
/// document would show here).
struct Bystander {
    secret: iroh_docs::NamespaceSecret,
    expected: BTreeSet<Row>,
}

async fn bystander_doc(node: &LiveNode, b: &Bystander, addr0: Option<iroh::EndpointAddr>) -> Result<Doc, String> {
    let doc = node.docs.api().import_namespace(Capability::Write(b.secret.clone())).await.map_err(|e| format!("{e:#}"))?;
    doc.start_sync(addr0.into_iter().collect()).await.map_err(|e| format!("{e:#}"))?;
    Ok(doc)
}

async fn setup_bystander(nodes: &[LiveNode]) -> Result<Bystander, String> {
    let mut b = Bystander { secret: secret(0xb757, 9), expected: BTreeSet::new() };
    let addr0 = nodes[0].router.endpoint().addr();
    let mut docs = vec![];
    for (i, node) in nodes.iter().enumerate() {
        let doc = bystander_doc(node, &b, (i > 0).then(|| addr0.clone())).await?;
        set_clock(T0 + 5);
        doc.set_bytes(node.author, format!("by{i}").into_bytes(), format!("bystander-{i}").into_bytes()).await.map_err(|e| format!("{e:#}"))?;
        set_clock(NOW);
        if let Ok(Some(e)) = doc.get_exact(node.author, format!("by{i}").as_bytes(), false).await {
            b.expected.insert(row_of(&e));
        }
        docs.push(doc);
    }
    // converge (ask for sessions until everyone holds everything; this is set-up, not a verdict)
    let start = std::time::Instant::now();
    loop {
        let mut all = true;
        for d in &docs {
            all &= dump(d).await.map(|r| r == b.expected).unwrap_or(false);
        }
        if all {
            return Ok(b);
        }
        if start.elapsed() > Duration::from_secs(60) {
            return Err("the bystander document did not converge within 60 s".into());
        }
        for d in docs.iter().skip(1) {
            let _ = d.start_sync(vec![addr0.clone()]).await;
        }
        tokio::time::sleep(Duration::from_millis(200)).await;
    }
}

/// After a history: the bystander document on every node.
async fn check_bystander(nodes: &[LiveNode], b: &Bystander) -> Option<String> {
    let addr0 = nodes[0].router.endpoint().addr();
    for (i, node) in nodes.iter().enumerate() {
        // (a restarted node has to open the document again; `import` of a known document opens it)
        let doc = match bystander_doc(node, b, (i > 0).then(|| addr0.clone())).await {
            Ok(d) => d,
            Err(e) => return Some(format!("node {i}: the bystander document cannot be opened: {e}")),
        };
        let got = dump(&doc).await;
        let _ = doc.close().await;
        match got {
            Ok(rows) if rows == b.expected => {}
            Ok(rows) => {
                // a restarted node may have to fetch the other nodes' entries again only if it lost
                // them; losing or gaining anything is a change
                return Some(format!("node {i}: the bystander document holds {} but it was left at {}", show(&rows), show(&b.expected)));
            }
            Err(e) => return Some(format!("node {i}: the bystander document cannot be read: {e}")),
        }
    }
    None
}

fn alphabet(n: u8, which: &str) -> Vec<LEv> {
    let mut evs = vec![];
    for node in 0..n {
        evs.push(LEv::W(node, 0));
        evs.push(LEv::W(node, 1));
        evs.push(LEv::D(node));
    }
    evs.extend([LEv::J, LEv::Q, LEv::Leave]);
    if which == "C04" {
        evs.push(LEv::Restart);
    }
    evs
}

// ---------------------------------------------------------------------------------------
// Declined requests between real nodes (C10: a declined request changes nothing in the
// acceptor's store; C11: a request for a document that is not being synced is declined).
// Node B holds the document but does not sync it (variant 0), holds an entry of it (1), or has
// dropped it and then called `start_sync` through a handle that survived the drop (2: the call
// fails, the node must not count the document as syncing afterwards). Node A dials B.
// ---------------------------------------------------------------------------------------

pub async fn decline_scenario(variant: u8, salt: u64) -> anyhow::Result<Vec<(&'static str, String)>> {
    use iroh_docs::engine::LiveEvent;
    let mut bad = vec![];
    set_clock(NOW);
    let a = live_node(0x75).await?;
    let b = live_node(0x76).await?;
    let sec = secret(salt, 11);
    let doc_a = a.docs.api().import_namespace(Capability::Write(sec.clone())).await?;
    let doc_b = b.docs.api().import_namespace(Capability::Write(sec.clone())).await?;
    set_clock(T0 + 3);
    doc_a.set_bytes(a.author, b"ka".to_vec(), b"from a".to_vec()).await?;
    if variant >= 1 {
        doc_b.set_bytes(b.author, b"kb".to_vec(), b"from b".to_vec()).await?;
    }
    set_clock(NOW);
    let mut stale: Option<Doc> = None;
    if variant == 2 {
        // a second handle survives the drop; start_sync through it has to fail
        let h2 = b.docs.api().open(sec.id()).await?.ok_or_else(|| anyhow::anyhow!("open"))?;
        let _ = doc_b.close().await;
        let _ = b.docs.api().drop_doc(sec.id()).await;
        let res = h2.start_sync(vec![]).await;
        if res.is_ok() {
            // (not a verdict of these properties; recorded for the reader of the replay)
            eprintln!("note: start_sync on a dropped document succeeded");
        }
        stale = Some(h2);
    }
    let before = if variant == 2 { None } else { Some((dump(&doc_b).await, doc_b.get_sync_peers().await.map_err(|e| e.to_string()), doc_b.get_download_policy().await.map_err(|e| e.to_string()))) };
    let (log, task) = event_log(&doc_a).await.map_err(|e| anyhow::anyhow!(e))?;
    doc_a.start_sync(vec![b.router.endpoint().addr()]).await?;
    // A's dial to B ends one way or the other
    let start = std::time::Instant::now();
    let outcome = loop {
        let found = log.lock().unwrap().iter().find_map(|e| if let LiveEvent::SyncFinished(s) = e { Some(s.result.clone()) } else { None });
        if let Some(o) = found {
            break Some(o);
        }
        if start.elapsed() > Duration::from_secs(90) {
            break None;
        }
        tokio::time::sleep(Duration::from_millis(10)).await;
    };
    task.abort();
    match &outcome {
        Some(Ok(d)) => bad.push(("request_for_a_document_not_being_synced_is_declined", format!("variant {variant}: node B does not sync the document, yet node A's request ended as a successful session ({} sent, {} received)", d.entries_sent, d.entries_received))),
        Some(Err(_)) => {}
        None => bad.push(("dial_ends", format!("variant {variant}: node A's dial to a node that does not sync the document was not reported as finished within 90 s"))),
    }
    // give B's bookkeeping of the declined request a moment, then look at its store
    tokio::time::sleep(Duration::from_millis(150)).await;
    if let Some(before) = before {
        let after = (dump(&doc_b).await, doc_b.get_sync_peers().await.map_err(|e| e.to_string()), doc_b.get_download_policy().await.map_err(|e| e.to_string()));
        if after != before {
            bad.push(("declined_request_changes_nothing", format!("variant {variant}: node B declined the request; its document before: entries {:?}, peers {:?}; after: entries {:?}, peers {:?}", before.0.as_ref().map(|d| d.len()), before.1, after.0.as_ref().map(|d| d.len()), after.1)));
        }
    }
    drop(stale);
    let _ = tokio::time::timeout(Duration::from_secs(5), a.router.shutdown()).await;
    let _ = tokio::time::timeout(Duration::from_secs(5), b.router.shutdown()).await;
    Ok(bad)
}

/// `which`: "C10" reports the store clause, "C11" the decline clause.
pub fn run_decline_family(ctx: &Ctx, report: &mut Report, which: &'static str) {
    for variant in 0..3u8 {
        let ordinal = (1u64 << 45) + 3 + 5 * variant as u64;
        if !ctx.mine(ordinal) {
            continue;
        }
        let rt = runtime();
        let res = rt.block_on(decline_scenario(variant, ordinal));
        drop(rt);
        report.evaluations += 1;
        report.nontrivial += 1;
        report.count("declined_requests_between_real_nodes", 1);
        let case = json!({"decline": variant, "salt": ordinal});
        match res {
            Err(e) => report.machinery_error(format!("decline scenario {variant}: {e:#}")),
            Ok(bad) => {
                for (o, d) in bad {
                    let mine = match which {
                        "C10" => o == "declined_request_changes_nothing" || o == "dial_ends",
                        _ => o == "request_for_a_document_not_being_synced_is_declined",
                    };
                    if mine {
                        report.violation(o, json!({"live": true, "variant": variant}), case.clone(), d, ordinal);
                    }
                }
            }
        }
    }
}

pub fn replay_decline(case: &Value, which: &'static str) -> anyhow::Result<Option<(bool, String)>> {
    let Some(v) = case.get("decline").and_then(|v| v.as_u64()) else { return Ok(None) };
    let salt = case["salt"].as_u64().unwrap_or(7);
    let rt = runtime();
    let bad = rt.block_on(decline_scenario(v as u8, salt))?;
    drop(rt);
    let bad: Vec<_> = bad
        .into_iter()
        .filter(|(o, _)| match which {
            "C10" => *o == "declined_request_changes_nothing" || *o == "dial_ends",
            _ => *o == "request_for_a_document_not_being_synced_is_declined",
        })
        .collect();
    for (o, d) in &bad {
        eprintln!("detail: {o}: {d}");
    }
    let names: BTreeSet<&str> = bad.iter().map(|(o, _)| *o).collect();
    let out: String = names.iter().map(|o| format!("FAILED {o}\n")).collect();
    Ok(Some((!bad.is_empty(), format!("declined request between real nodes, variant {v}\n{out}"))))
}

const SHORT: Duration = Duration::from_secs(20);
const LONG: Duration = Duration::from_secs(120);
/// how long a history waits for the swarm to converge by itself (a timing point, not an oracle)
const PATIENCE: Duration = Duration::from_secs(2);

pub fn run_live_family(ctx: &Ctx, report: &mut Report, which: &'static str) {
    let plan = match (which, ctx.quick()) {
        ("C04", true) => vec![(2u8, 3usize), (3, 2)],
        ("C04", false) => vec![(2, 4), (3, 3)],
        ("C15", true) => vec![(2, 2), (3, 1)],
        ("C11", true) => vec![(2, 3)],
        ("C11", false) => vec![(2, 4), (3, 3)],
        ("C15", false) => vec![(2, 3), (3, 2)],
        (_, true) => vec![(2, 2), (3, 2)],
        (_, false) => vec![(2, 3), (3, 3)],
    };
    let variants: Vec<String> = if which == "C15" { (0..policies().len()).map(|i| format!("C15:{i}")).collect() } else { vec![which.to_string()] };
    for (n, depth) in plan {
        let evs = alphabet(n, which);
        let mut cases: Vec<(u64, Vec<LEv>, bool, String)> = vec![];
        let mut ordinal = (1u64 << 46) + ((n as u64) << 40);
        for d in 1..=depth {
            crate::util::for_each_sequence(evs.len(), d, |ix| {
                let hist: Vec<LEv> = ix.iter().map(|&i| evs[i]).collect();
                if !hist.iter().any(|e| matches!(e, LEv::W(..) | LEv::D(..))) {
                    return;
                }
                if which == "C15" && !hist.iter().any(|e| matches!(e, LEv::W(node, _) if *node != n - 1)) {
                    // nothing for the policy holder to fetch
                    return;
                }
                for dec in [false, true] {
                    for v in &variants {
                        ordinal += 1;
                        if ctx.mine(ordinal) {
                            cases.push((ordinal, hist.clone(), dec, v.clone()));
                        }
                    }
                }
            });
        }
        if cases.is_empty() {
            continue;
        }
        let rt = runtime();
        let mut stats = Stats::default();
        let results: anyhow::Result<Vec<(u64, Vec<LEv>, bool, Bad, bool, String)>> = rt.block_on(async {
            let mut ns = nodes(n as usize, which == "C04").await?;
            let bystander = if which == "C04" { Some(setup_bystander(&ns).await.map_err(|e| anyhow::anyhow!("bystander document: {e}"))?) } else { None };
            // C12: a subscriber of a *second* document of node 0 lives through all histories of the
            // worker; after every history (which ends with its own document being dropped) a
            // write to the second document must still reach it
            let mut other_sub = None;
            if which == "C12" {
                let doc = ns[0].docs.api().import_namespace(Capability::Write(secret(0xb758, 9))).await?;
                let (log, task) = event_log(&doc).await.map_err(|e| anyhow::anyhow!(e))?;
                other_sub = Some((doc, log, task, 0u64));
            }
            let mut out = vec![];
            for (ord, hist, dec, which) in cases {
                let which = which.as_str();
                if crate::util::watch::stopped() {
                    break;
                }
                let mut bad = exec(&mut ns, &hist, dec, ord, SHORT, &mut stats, which).await;
                let mut rerun = false;
                if bad.iter().any(|(o, _, _)| *o == "premise_not_met" || *o == "live_selected_content_is_fetched" || *o == "live_pair_is_ready_for_a_new_session") {
                    // a loaded machine: once more, with a long deadline
                    rerun = true;
                    bad = exec(&mut ns, &hist, dec, ord ^ (1 << 39), LONG, &mut stats, which).await;
                }
                if let Some((doc, log, _task, n_written)) = &mut other_sub {
                    *n_written += 1;
                    set_clock(T0 + 1000 + *n_written);
                    let wrote = doc.set_bytes(ns[0].author, format!("other{n_written}").into_bytes(), format!("other-{n_written}").into_bytes()).await;
                    set_clock(NOW);
                    let start = std::time::Instant::now();
                    let mut seen;
                    loop {
                        seen = log.lock().unwrap().iter().filter(|e| matches!(e, iroh_docs::engine::LiveEvent::InsertLocal { .. })).count() as u64;
                        if seen >= *n_written || start.elapsed() > Duration::from_secs(10) {
                            break;
                        }
                        tokio::time::sleep(Duration::from_millis(5)).await;
                    }
                    if wrote.is_ok() && seen != *n_written {
                        bad.push(("live_subscriber_of_another_document_unaffected", json!({"live": true, "nodes": n}), format!("a subscriber of a second document of node 0 (attached when the worker started) has seen {seen} of the {n_written} writes to that document; the last one came after this history had dropped its own document")));
                        // count from what it has seen, so that the next history is judged on its own
                        *n_written = seen;
                    }
                }
                if let Some(b) = &bystander {
                    if let Some(d) = check_bystander(&ns, b).await {
                        bad.push(("other_documents_of_the_node_untouched", json!({"live": true, "nodes": n}), d));
                    }
                }
                out.push((ord, hist, dec, bad, rerun, which.to_string()));
            }
            shutdown(ns).await;
            Ok(out)
        });
        report.count("live_settled_by_itself_within_2s", stats.settled_by_itself);
        report.count("live_not_settled_by_itself_within_2s", stats.not_settled_by_itself);
        report.count("live_closing_passes", stats.passes);
        for ex in stats.not_settled_examples.iter().take(8) {
            report.count(&format!("live_not_settled_by_itself: {n} nodes, {ex}"), 1);
        }
        drop(rt);
        match results {
            Err(e) => report.machinery_error(format!("live family: cannot set up {n} nodes: {e:#}")),
            Ok(rs) => {
                report.count("live_contents_expected_to_be_fetched", stats.downloads_expected);
                for (ord, hist, dec, bad, rerun, variant) in rs {
                    report.evaluations += 1;
                    report.traces += 1;
                    report.transitions += hist.len() as u64;
                    report.nontrivial += 1;
                    report.count("live_node_histories", 1);
                    if rerun {
                        report.count("live_node_histories_run_again_with_long_deadline", 1);
                    }
                    let case = json!({"live": {"nodes": n, "hist": hist, "dec": dec, "which": variant}, "salt": ord});
                    for (o, w, d) in bad {
                        if o == "machinery" {
                            report.machinery_error(format!("live family: {d}"));
                        } else if o == "premise_not_met" {
                            // not a verdict about C04 (see the module text)
                            report.count("live_premise_not_met_no_successful_session", 1);
                        } else {
                            report.violation(o, w, case.clone(), format!("{n} real nodes, history {hist:?}, clocks {}: {d}", if dec { "stepping back" } else { "increasing" }), ord);
                        }
                    }
                }
            }
        }
    }
}

pub fn replay_live(case: &Value, which: &'static str) -> anyhow::Result<Option<(bool, String)>> {
    let Some(c) = case.get("live") else { return Ok(None) };
    let n = c["nodes"].as_u64().unwrap_or(2) as usize;
    let hist: Vec<LEv> = serde_json::from_value(c["hist"].clone())?;
    let dec = c["dec"].as_bool().unwrap_or(false);
    let salt = case["salt"].as_u64().unwrap_or(1);
    let which: String = c.get("which").and_then(|w| w.as_str()).unwrap_or(which).to_string();
    let which = which.as_str();
    let rt = runtime();
    let bad: anyhow::Result<Bad> = rt.block_on(async {
        let mut ns = nodes(n, which == "C04").await?;
        let mut stats = Stats::default();
        let mut b = exec(&mut ns, &hist, dec, salt, SHORT, &mut stats, which).await;
        if b.iter().any(|(o, _, _)| *o == "premise_not_met" || *o == "live_selected_content_is_fetched" || *o == "live_pair_is_ready_for_a_new_session") {
            b = exec(&mut ns, &hist, dec, salt ^ (1 << 39), LONG, &mut stats, which).await;
        }
        b.retain(|(o, _, _)| *o != "premise_not_met");
        shutdown(ns).await;
        Ok(b)
    });
    let bad = bad?;
    // the network schedule is not controlled: the details (which node lags at the deadline) may
    // differ between two executions, the verdict per oracle must not
    for (o, _, d) in &bad {
        eprintln!("detail: {o}: {d}");
    }
    let names: BTreeSet<&str> = bad.iter().map(|(o, _, _)| *o).collect();
    let out: String = names.iter().map(|o| format!("FAILED {o}\n")).collect();
    Ok(Some((!bad.is_empty(), format!("{n} real nodes, history {hist:?}, clocks {}\n{out}", if dec { "stepping back" } else { "increasing" }))))
}
