//! C15 — download policies persist and decide downloads exactly as specified.

use std::str::FromStr;

use bytes::Bytes;
use iroh_docs::{
    store::{DownloadPolicy, FilterKind},
    sync::{Entry, Event, Record, RecordIdentifier, SignedEntry},
    Capability, ContentStatus, NamespaceId,
};
use serde_json::{json, Value};

use super::recon::scratch_dir;
use crate::{
    report::Report,
    sut::{block_on, Sut, PEER},
    universe::{author, ns_id, ns_secret, show_key, Val, NOW, T0},
    util::catch,
    Ctx, PropDef, Tier,
};

pub fn def() -> PropDef {
    PropDef {
        id: "C15",
        level: "exploration",
        rule: "through the docs API of a real Engine: every history of <= 3 (thorough 4) events over {write, delete prefix, set one of three policies, open one more handle, close, drop_doc, import again} that sets a policy — the policy read afterwards is the one set last since the document was created, and setting succeeds only on an existing document; all policies of both kinds with <= 2 filters, each filter exact/prefix over byte strings of length <= 2 from {a, b, ':', 0xff, 0x00} (empty filter, non-UTF-8, a colon for the textual form), evaluated on all keys of length <= 3 over the same bytes against the two-line definition; every filter over a richer byte set (additionally space, newline, tab and a two-byte UTF-8 character) through Display -> FromStr; set/get on existing and missing documents in memory and through reopen of a file-backed store; every history of length <= d over {set policy q on document 0|1 (6 policies incl. the default and both empty kinds), set on a missing document, reopen}: after every step each document reads what was set last on it, and — the same histories through the store actor with both documents kept open and subscribed — a fresh entry at a matching and at a non-matching key, arriving as a single remote insert and inside a reconciliation message, carries the download flag of the policy in force at that moment; should_download of real remote-insert events for every policy with <= 1 filter x every key; non-trivial = a policy with at least one filter evaluated on a key that at least one of its filters matches",
        assumptions: &["filters longer than 2 bytes (3 in thorough for the textual form) and more than 2 filters per policy are outside the alphabet"],
        bound: |t| match t {
            Tier::Quick => json!({"policies": 7814, "keys": 156, "textual_filters": "length <= 2", "persisted_policies": "all in memory, every 16th through file reopen", "policy_histories": "depth <= 3 in memory, <= 2 file-backed with reopen"}),
            Tier::Thorough => json!({"policies": 7814, "keys": 156, "textual_filters": "length <= 3", "persisted_policies": "all in memory, every 4th through file reopen", "policy_histories": "depth <= 4 in memory, <= 3 file-backed with reopen"}),
        },
        run,
        replay,
        shards: |_| 16,
    }
}

const BYTES: [u8; 5] = [0x61, 0x62, 0x3a, 0xff, 0x00];

/// Bytes for the textual form: additionally whitespace (space, newline, tab) and the two bytes of
/// a two-byte UTF-8 character (valid together, invalid alone).
const TEXT_BYTES: [u8; 10] = [0x61, 0x62, 0x3a, 0xff, 0x00, 0x20, 0x0a, 0x09, 0xc3, 0xa9];

fn strings(max: usize) -> Vec<Vec<u8>> {
    strings_over(&BYTES, max)
}

fn strings_over(alphabet: &[u8], max: usize) -> Vec<Vec<u8>> {
    let mut out = vec![vec![]];
    let mut frontier = vec![vec![]];
    for _ in 0..max {
        let mut next = vec![];
        for s in &frontier {
            for &b in alphabet {
                let mut s2: Vec<u8> = s.clone();
                s2.push(b);
                next.push(s2);
            }
        }
        out.extend(next.iter().cloned());
        frontier = next;
    }
    out
}

/// (is_exact, bytes)
type F = (bool, Vec<u8>);
/// (nothing_except, filters)
type P = (bool, Vec<F>);

fn filter(f: &F) -> FilterKind {
    if f.0 {
        FilterKind::Exact(Bytes::from(f.1.clone()))
    } else {
        FilterKind::Prefix(Bytes::from(f.1.clone()))
    }
}

fn policy(p: &P) -> DownloadPolicy {
    let fs = p.1.iter().map(filter).collect();
    if p.0 {
        DownloadPolicy::NothingExcept(fs)
    } else {
        DownloadPolicy::EverythingExcept(fs)
    }
}

fn f_matches(f: &F, key: &[u8]) -> bool {
    if f.0 {
        f.1 == key
    } else {
        key.starts_with(&f.1)
    }
}

fn definition(p: &P, key: &[u8]) -> bool {
    let any = p.1.iter().any(|f| f_matches(f, key));
    if p.0 {
        any
    } else {
        !any
    }
}

fn entry_for(key: &[u8]) -> Entry {
    Entry::new(
        RecordIdentifier::new(ns_id(0), author(0).id(), key),
        Record::new(Val::X.hash_len().0, 1, T0 + 1),
    )
}

fn show_p(p: &P) -> String {
    let fs: Vec<String> = p
        .1
        .iter()
        .map(|f| format!("{}:\"{}\"", if f.0 { "exact" } else { "prefix" }, show_key(&f.1)))
        .collect();
    format!(
        "{}[{}]",
        if p.0 { "NothingExcept" } else { "EverythingExcept" },
        fs.join(",")
    )
}

fn all_policies() -> Vec<P> {
    let ss = strings(2);
    let mut filters: Vec<F> = vec![];
    for e in [true, false] {
        for s in &ss {
            filters.push((e, s.clone()));
        }
    }
    let mut out = vec![];
    for kind in [true, false] {
        out.push((kind, vec![]));
        for f in &filters {
            out.push((kind, vec![f.clone()]));
        }
        for f in &filters {
            for g in &filters {
                out.push((kind, vec![f.clone(), g.clone()]));
            }
        }
    }
    out
}

fn check_matches(p: &P, keys: &[Vec<u8>]) -> (Vec<(&'static str, String)>, u64, u64) {
    let pol = policy(p);
    let mut bad = vec![];
    let mut nt = 0;
    for k in keys {
        let got = pol.matches(&entry_for(k));
        let want = definition(p, k);
        if !p.1.is_empty() && p.1.iter().any(|f| f_matches(f, k)) {
            nt += 1;
        }
        if got != want {
            bad.push((
                "matches_equals_definition",
                format!("{} on key \"{}\": impl={got} definition={want}", show_p(p), show_key(k)),
            ));
        }
    }
    (bad, keys.len() as u64, nt)
}

fn check_text(f: &F) -> Vec<(&'static str, String)> {
    let fk = filter(f);
    let s = fk.to_string();
    match FilterKind::from_str(&s) {
        Ok(back) if back == fk => vec![],
        Ok(back) => vec![(
            "filter_survives_textual_form",
            format!("{fk:?} -> {s:?} -> {back:?}"),
        )],
        Err(e) => vec![(
            "filter_survives_textual_form",
            format!("{fk:?} -> {s:?} -> error {e:#}"),
        )],
    }
}

fn check_persist(p: &P, file: bool) -> Vec<(&'static str, String)> {
    let mut bad = vec![];
    let pol = policy(p);
    let dir = file.then(scratch_dir);
    let path = dir.as_ref().map(|d| d.path().join("docs.redb"));
    let mut sut = match &path {
        Some(p) => Sut::persistent(p).expect("store"),
        None => Sut::memory(),
    };
    sut.store
        .import_namespace(Capability::Write(ns_secret(0)))
        .expect("import");
    sut.store
        .import_namespace(Capability::Write(ns_secret(1)))
        .expect("import");
    let missing = NamespaceId::from(&[0x66u8; 32]);
    // default before set
    match sut.store.get_download_policy(&ns_id(0)) {
        Ok(d) if d == DownloadPolicy::default() => {}
        other => bad.push(("default_policy_before_set", format!("{other:?}"))),
    }
    if sut.store.set_download_policy(&missing, pol.clone()).is_ok() {
        bad.push((
            "set_only_for_existing_document",
            "set_download_policy succeeded for a missing document".into(),
        ));
    }
    if let Err(e) = sut.store.set_download_policy(&ns_id(0), pol.clone()) {
        bad.push(("set_ok", format!("{e:#}")));
    }
    if file {
        sut.store.flush().expect("flush");
        drop(sut);
        sut = Sut::persistent(path.as_ref().unwrap()).expect("reopen");
    }
    match sut.store.get_download_policy(&ns_id(0)) {
        Ok(got) if got == pol => {}
        other => bad.push((
            "policy_returned_unchanged",
            format!("set {} got {other:?} (reopen={file})", show_p(p)),
        )),
    }
    // other documents unaffected
    match sut.store.get_download_policy(&ns_id(1)) {
        Ok(d) if d == DownloadPolicy::default() => {}
        other => bad.push(("other_document_unaffected", format!("{other:?}"))),
    }
    match sut.store.get_download_policy(&missing) {
        Ok(d) if d == DownloadPolicy::default() => {}
        other => bad.push(("missing_document_has_default", format!("{other:?}"))),
    }
    bad
}

fn check_events(p: &P, keys: &[Vec<u8>]) -> Vec<(&'static str, String)> {
    crate::props::common::set_clock(NOW);
    let mut bad = vec![];
    let ns = ns_id(0);
    let mut sut = Sut::memory_with(&[0]);
    sut.store
        .set_download_policy(&ns, policy(p))
        .expect("set policy");
    let (tx, rx) = async_channel::unbounded();
    let mut r = sut.store.open_replica(&ns).expect("open");
    iroh_docs::verif::replica_subscribe(&mut r, tx);
    // longest keys first: a shorter key prunes its children but is itself inserted, so every
    // key yields exactly one event
    for k in keys.iter().rev() {
        // unrelated authors per key would be overkill: keys may prune each other, so use a fresh
        // timestamp order that never rejects: increasing timestamps, prefix keys last is not
        // needed because pruning does not suppress the event of the inserted entry
        let e = SignedEntry::from_parts(
            &ns_secret(0),
            &author(0),
            k,
            Record::new(Val::X.hash_len().0, 1, T0 + 5),
        );
        let res = block_on(r.insert_remote_entry(e, PEER, ContentStatus::Complete));
        let ev = rx.try_recv().ok();
        match (res, ev) {
            (Ok(_), Some(Event::RemoteInsert { should_download, entry, .. })) => {
                let want = definition(p, k);
                if should_download != want || entry.key() != &k[..] {
                    bad.push((
                        "should_download_equals_policy",
                        format!(
                            "{} key \"{}\": event says {should_download}, definition {want}",
                            show_p(p),
                            show_key(k)
                        ),
                    ));
                }
            }
            (r, e) => bad.push((
                "event_iff_inserted",
                format!("key \"{}\": result {r:?} event {}", show_key(k), e.is_some()),
            )),
        }
    }
    bad
}

/// The same policy histories through the store actor, with both documents kept open (sync on, one
/// subscriber each) across all policy changes: after every step a fresh entry arrives at a key the
/// filters of the history policies match ("a") and at one they do not ("b"), once as a single
/// remote insert and once inside a reconciliation message, and the download flag of the event must
/// follow the policy that is in force *now* (not the one in force when the document was opened or
/// when the previous entry arrived).
fn check_history_open(hist: &[H]) -> Vec<(&'static str, String)> {
    use iroh_docs::actor::{OpenOpts, SyncHandle};
    let pols = history_policies();
    let mut bad = vec![];
    crate::props::common::set_clock(NOW);
    let mut store = iroh_docs::store::Store::memory();
    for d in [0u8, 1] {
        store.import_namespace(Capability::Write(ns_secret(d))).expect("import");
    }
    let h = SyncHandle::spawn(store, None, "c15".into());
    let mut rxs = vec![];
    for d in [0u8, 1] {
        let (tx, rx) = async_channel::unbounded();
        block_on(h.open(ns_id(d), OpenOpts::default().sync().subscribe(tx))).expect("open");
        rxs.push(rx);
    }
    // a second store plays the remote peer of the reconciliation messages
    let mut peer = Sut::memory_with(&[0, 1]);
    let missing = NamespaceId::from(&[0x66u8; 32]);
    let mut model: [P; 2] = [(false, vec![]), (false, vec![])];
    'steps: for (i, (target, q)) in hist.iter().enumerate() {
        let pol = &pols[*q as usize];
        match target {
            0 | 1 => {
                if let Err(e) = block_on(h.set_download_policy(ns_id(*target), policy(pol))) {
                    bad.push(("set_ok", format!("step {i} (store actor): {e:#}")));
                }
                model[*target as usize] = pol.clone();
            }
            2 => {
                if block_on(h.set_download_policy(missing, policy(pol))).is_ok() {
                    bad.push(("set_only_for_existing_document", format!("step {i} (store actor): set_download_policy succeeded for a missing document")));
                }
            }
            _ => {}
        }
        for d in 0..2usize {
            match block_on(h.get_download_policy(ns_id(d as u8))) {
                Ok(got) if got == policy(&model[d]) => {}
                other => bad.push(("policy_returned_unchanged", format!("after step {i} (store actor): document {d} was last set to {} but reads {other:?}", show_p(&model[d])))),
            }
            while rxs[d].try_recv().is_ok() {}
            for (path, key) in [(0u8, &b"a"[..]), (0, b"b"), (1, b"a"), (1, b"b")] {
                // fresh (author, key, timestamp) per step and path, so every entry is applied
                let e = SignedEntry::from_parts(
                    &ns_secret(d as u8),
                    &author(path),
                    key,
                    Record::new(Val::X.hash_len().0, 1, T0 + 5 + i as u64),
                );
                let applied = if path == 0 {
                    block_on(h.insert_remote(ns_id(d as u8), e, PEER, ContentStatus::Complete)).is_ok()
                } else {
                    // the peer holds the entry; a reconciliation session brings it over
                    let _ = peer.remote(ns_id(d as u8), e);
                    let mut peer_state = Default::default();
                    let mut ours = Default::default();
                    let mut ok = true;
                    let mut msg = block_on(h.sync_initial_message(ns_id(d as u8))).ok();
                    let mut to_peer = true;
                    let mut rounds = 0;
                    while let Some(m) = msg.take() {
                        rounds += 1;
                        if rounds > 60 {
                            ok = false;
                            break;
                        }
                        msg = if to_peer {
                            peer.sync_process(ns_id(d as u8), m, PEER, &mut peer_state).ok().flatten()
                        } else {
                            match block_on(h.sync_process_message(ns_id(d as u8), m, PEER, ours)) {
                                Ok((reply, st)) => {
                                    ours = st;
                                    reply
                                }
                                Err(_) => {
                                    ok = false;
                                    ours = Default::default();
                                    None
                                }
                            }
                        };
                        to_peer = !to_peer;
                    }
                    ok
                };
                let mut flags = vec![];
                while let Ok(ev) = rxs[d].try_recv() {
                    if let Event::RemoteInsert { should_download, entry, .. } = ev {
                        if entry.key() == key {
                            flags.push(should_download);
                        }
                    }
                }
                let want = definition(&model[d], key);
                if !applied || flags != vec![want] {
                    bad.push((
                        "should_download_follows_the_policy_in_force",
                        format!(
                            "after step {i} of {:?}: document {d} (kept open in the store actor) has policy {}; a fresh entry at \"{}\" arriving {} gave applied={applied}, download flags {flags:?}, the policy says {want}",
                            hist.iter().map(|(t, q)| format!("{}:{}", t, show_p(&pols[*q as usize]))).collect::<Vec<_>>(),
                            show_p(&model[d]),
                            show_key(key),
                            if path == 0 { "as a single remote insert" } else { "inside a reconciliation message" },
                        ),
                    ));
                }
            }
        }
        if !bad.is_empty() {
            break 'steps;
        }
    }
    let _ = block_on(h.shutdown());
    bad
}

/// Policies of the history family: the default, both empty kinds, and a few with filters.
fn history_policies() -> Vec<P> {
    vec![
        (false, vec![]), // EverythingExcept[] = the default
        (true, vec![]),
        (false, vec![(false, b"a".to_vec())]),
        (true, vec![(false, b"a".to_vec())]),
        (true, vec![(true, vec![])]),
        (false, vec![(true, b"a".to_vec()), (false, b"b".to_vec())]),
    ]
}

/// One step of a policy history: (target, policy index). target 0 | 1 = set on that document,
/// 2 = set on a missing document (must fail and change nothing), 3 = flush + reopen (file only).
type H = (u8, u8);

/// Every read after every step must return what was set last on that document (or the default).
fn check_history(hist: &[H], file: bool) -> Vec<(&'static str, String)> {
    let pols = history_policies();
    let mut bad = vec![];
    let dir = file.then(scratch_dir);
    let path = dir.as_ref().map(|d| d.path().join("docs.redb"));
    let mut sut = match &path {
        Some(p) => Sut::persistent(p).expect("store"),
        None => Sut::memory(),
    };
    for d in [0u8, 1] {
        sut.store
            .import_namespace(Capability::Write(ns_secret(d)))
            .expect("import");
    }
    let missing = NamespaceId::from(&[0x66u8; 32]);
    let mut model: [P; 2] = [(false, vec![]), (false, vec![])];
    for (i, (target, q)) in hist.iter().enumerate() {
        let pol = &pols[*q as usize];
        match target {
            0 | 1 => {
                if let Err(e) = sut.store.set_download_policy(&ns_id(*target), policy(pol)) {
                    bad.push(("set_ok", format!("step {i}: {e:#}")));
                }
                model[*target as usize] = pol.clone();
            }
            2 => {
                if sut.store.set_download_policy(&missing, policy(pol)).is_ok() {
                    bad.push((
                        "set_only_for_existing_document",
                        format!("step {i}: set_download_policy succeeded for a missing document"),
                    ));
                }
            }
            _ => {
                if file {
                    sut.store.flush().expect("flush");
                    drop(sut);
                    sut = Sut::persistent(path.as_ref().unwrap()).expect("reopen");
                }
            }
        }
        for d in [0u8, 1] {
            match sut.store.get_download_policy(&ns_id(d)) {
                Ok(got) if got == policy(&model[d as usize]) => {}
                other => bad.push((
                    "policy_returned_unchanged",
                    format!(
                        "after step {i} of {:?}: document {d} was last set to {} but reads {other:?} (file={file})",
                        hist.iter().map(|(t, q)| format!("{}:{}", t, show_p(&pols[*q as usize]))).collect::<Vec<_>>(),
                        show_p(&model[d as usize])
                    ),
                )),
            }
        }
        match sut.store.get_download_policy(&missing) {
            Ok(d) if d == DownloadPolicy::default() => {}
            other => bad.push(("missing_document_has_default", format!("after step {i}: {other:?}"))),
        }
        if !bad.is_empty() {
            break;
        }
    }
    bad
}

fn history_symbols(file: bool) -> Vec<H> {
    let n = history_policies().len() as u8;
    let mut v = vec![];
    for t in [0u8, 1] {
        for q in 0..n {
            v.push((t, q));
        }
    }
    v.push((2, 3));
    if file {
        v.push((3, 0));
    }
    v
}

fn run(ctx: &Ctx, report: &mut Report) {
    crate::util::silence_panics();
    if ctx.shard == 12 % ctx.of {
        report.evaluations += 1;
        report.count("old_format_store_files", 1);
        let case = json!({"old_format_peers": 2});
        match crate::util::catch(|| super::oldfmt::check(2, "C15")) {
            Err(p) => report.violation("no_panic", json!({"old_format": true}), case, format!("panic: {p}"), 0),
            Ok(bad) => {
                for (o, d) in bad {
                    if o == "MACHINERY" {
                        report.machinery_error(d);
                    } else {
                        report.violation(o, json!({"old_format": true}), case.clone(), d, 0);
                    }
                }
            }
        }
    }
    super::apifam::run_life_family(ctx, report, "C15");
    super::live::run_live_family(ctx, report, "C15");
    let keys = strings(3);
    let pols = all_policies();
    report.fact("policies", json!(pols.len()));
    report.fact("keys", json!(keys.len()));
    let mut ordinal = 0u64;
    let file_every = if ctx.quick() { 16 } else { 4 };
    for (i, p) in pols.iter().enumerate() {
        ordinal += 1;
        if !ctx.mine(ordinal) {
            continue;
        }
        let case = json!({"policy": p});
        let res = catch(|| {
            let (mut bad, n, nt) = check_matches(p, &keys);
            let mut n = n;
            bad.extend(check_persist(p, false));
            n += 1;
            if i % file_every == 0 {
                bad.extend(check_persist(p, true));
                n += 1;
            }
            if p.1.len() <= 1 {
                bad.extend(check_events(p, &keys));
                n += keys.len() as u64;
            }
            (bad, n, nt)
        });
        match res {
            Err(pn) => report.violation("no_panic", json!({}), case, format!("panic: {pn}"), ordinal),
            Ok((bad, n, nt)) => {
                report.evaluations += n;
                report.nontrivial += nt;
                report.outcome(format!("{}:{}", p.0, p.1.len()));
                for (o, d) in bad {
                    report.violation(o, json!({"kind": if p.0 {"nothing_except"} else {"everything_except"}, "filters": p.1.len()}), case.clone(), d, ordinal);
                }
                if p.1.len() == 2 && p.1[0].1.len() == 1 {
                    report.sample(|| json!({"policy": show_p(p), "keys_evaluated": keys.len()}));
                }
            }
        }
    }
    // histories of policy changes: a later set replaces an earlier one (including a return to
    // the default), per document, across reopen
    for (file, depth) in [(false, if ctx.quick() { 3 } else { 4 }), (true, if ctx.quick() { 2 } else { 3 })] {
        let symbols = history_symbols(file);
        for d in 1..=depth {
            crate::util::for_each_sequence(symbols.len(), d, |seq| {
                ordinal += 1;
                if !ctx.mine(ordinal) {
                    return;
                }
                let hist: Vec<H> = seq.iter().map(|&i| symbols[i]).collect();
                report.evaluations += 1;
                report.traces += 1;
                let nt = hist.iter().enumerate().any(|(i, (t, _))| *t < 2 && hist[..i].iter().any(|(t2, _)| t2 == t));
                if nt {
                    report.nontrivial += 1;
                }
                let case = json!({"history": hist, "file": file});
                match catch(|| {
                    let mut b = check_history(&hist, file);
                    if !file {
                        b.extend(check_history_open(&hist));
                    }
                    b
                }) {
                    Err(pn) => report.violation("no_panic", json!({"family": "history"}), case, format!("panic: {pn}"), ordinal),
                    Ok(bad) => {
                        for (o, d) in bad {
                            report.violation(o, json!({"family": "history", "file": file}), case.clone(), d, ordinal);
                        }
                    }
                }
            });
        }
    }
    // textual form
    let text_strings = strings_over(&TEXT_BYTES, if ctx.quick() { 2 } else { 3 });
    for e in [true, false] {
        for s in &text_strings {
            ordinal += 1;
            if !ctx.mine(ordinal) {
                continue;
            }
            report.evaluations += 1;
            let f: F = (e, s.clone());
            let case = json!({"filter": f});
            match catch(|| check_text(&f)) {
                Err(pn) => report.violation("no_panic", json!({}), case, format!("panic: {pn}"), ordinal),
                Ok(bad) => {
                    for (o, d) in bad {
                        report.violation(o, json!({"utf8": std::str::from_utf8(s).is_ok(), "contains_colon": s.contains(&0x3a)}), case.clone(), d, ordinal);
                    }
                }
            }
        }
    }
}

fn replay(case: &Value) -> anyhow::Result<(bool, String)> {
    if let Some(n) = case.get("old_format_peers").and_then(|n| n.as_u64()) {
        let bad = crate::util::catch(|| super::oldfmt::check(n as u8, "C15")).map_err(|p| anyhow::anyhow!(p))?;
        let out: String = bad.iter().map(|(o, d)| format!("FAILED {o}: {d}\n")).collect();
        return Ok((!bad.is_empty(), format!("store file of the redb 2.x format\n{out}")));
    }
    if let Some(r) = super::apifam::replay_life(case, "C15")? {
        return Ok(r);
    }
    if let Some(r) = super::live::replay_live(case, "C15:0")? {
        return Ok(r);
    }
    let keys = strings(3);
    if let Some(f) = case.get("filter") {
        let f: F = serde_json::from_value(f.clone())?;
        let bad = check_text(&f);
        let out: String = bad.iter().map(|(o, d)| format!("FAILED {o}: {d}\n")).collect();
        return Ok((!bad.is_empty(), out));
    }
    if let Some(h) = case.get("history") {
        let hist: Vec<H> = serde_json::from_value(h.clone())?;
        let file = case["file"].as_bool().unwrap_or(false);
        return match catch(|| {
            let mut b = check_history(&hist, file);
            if !file {
                b.extend(check_history_open(&hist));
            }
            b
        }) {
            Err(pn) => Ok((true, format!("panic: {pn}"))),
            Ok(bad) => {
                let out: String = bad.iter().map(|(o, d)| format!("FAILED {o}: {d}\n")).collect();
                Ok((!bad.is_empty(), format!("policy history (target, policy index) {hist:?} file={file}\n{out}")))
            }
        };
    }
    let p: P = serde_json::from_value(case["policy"].clone())?;
    match catch(|| {
        let (mut bad, _, _) = check_matches(&p, &keys);
        bad.extend(check_persist(&p, false));
        bad.extend(check_persist(&p, true));
        if p.1.len() <= 1 {
            bad.extend(check_events(&p, &keys));
        }
        bad
    }) {
        Err(pn) => Ok((true, format!("panic: {pn}"))),
        Ok(bad) => {
            let mut out = format!("policy {}\n", show_p(&p));
            for (o, d) in &bad {
                out.push_str(&format!("FAILED {o}: {d}\n"));
            }
            Ok((!bad.is_empty(), out))
        }
    }
}
