//! C01 — pairwise reconciliation converges to the join of both replicas.

use serde_json::{json, Value};

use super::recon::*;
use crate::{
    refmodel::ModelReplica,
    report::Report,
    universe::{ns_id, show_entries, Spec, Val},
    util::{catch, fnv},
    Ctx, PropDef, Tier,
};

pub fn def() -> PropDef {
    PropDef {
        id: "C01",
        level: "model_checking",
        rule: "all ordered pairs (initiator state, acceptor state) of distinct replica states reachable by offering a subset of the entry universe to a fresh real replica; per pair, backend (in-memory / file-backed redb) and (max_set_size, split_factor) setting one complete session by ping-pong of Replica::sync_initial_message / sync_process_message followed immediately by a second one; non-trivial = the two sets differ and an entry of one side is prefix-related (same author; equal key, prefix, tombstone or tie) to a different entry of the other side",
        assumptions: &[
            "fingerprint (XOR of blake3) collisions are outside the alphabet",
            "values outside the alphabet (long keys, more than a handful of entries per side) are not covered",
            "non-default reconciliation parameters are injected through the SyncConfig::default() override hook; Replica itself always uses the default",
        ],
        bound: |t| match t {
            Tier::Quick => json!({"families": ["S12<=3: all ordered pairs, default parameters, memory", "large family (7-entry base, <=2 substitutions): base<->variant, default, memory", "all pairs of subsets of 8 flat keys under (max_set_size 1, split_factor 3)", "S12<=2 non-trivial pairs: parameters (1,3),(2,2),(3,4) in memory, default on file-backed", "big sets: 4 shapes of 300 entries per side, both initiators"], "message_bound": "4 + 2*(|SA|+|SB|)"}),
            Tier::Thorough => json!({"families": ["flat keys: all 256^2 pairs of subsets of 8 under settings (1,4) (1,5) (2,3) (4,2) (5,3)", "S16<=3: all ordered pairs, default, memory", "S24<=2: all ordered pairs, all four parameter settings, memory; non-trivial pairs default on file", "large family (7-entry base, <=2 substitutions): all ordered pairs default memory; base<->variant all parameters both backends", "all pairs of subsets of 9 flat keys under (1,3), (3,4), (2,2)", "big sets: 4 shapes of 1100 entries per side, both initiators, also (3,4), file-backed, actor-held"], "message_bound": "4 + 2*(|SA|+|SB|)"}),
        },
        run,
        replay,
        shards: |_| 16,
    }
}

pub struct Case<'a> {
    pub a: &'a State,
    pub b: &'a State,
    pub cfg: Cfg,
    pub backend: BackendKind,
}

pub fn case_json(a: &[Spec], b: &[Spec], cfg: Cfg, backend: BackendKind) -> Value {
    json!({"a": a, "b": b, "cfg": [cfg.0, cfg.1], "backend": backend})
}

/// Execute one case. Returns (violations (oracle, witness, detail), outcome rendering, messages).
pub fn run_case(
    a: &State,
    b: &State,
    cfg: Cfg,
    backend: BackendKind,
) -> (Vec<(&'static str, Value, String)>, String, usize) {
    run_case_ext(a, b, cfg, backend, None)
}

/// `recreate`: after the two sessions, replica A's document is removed from its store and created
/// again (empty, same store); one more session, initiated by A (`Some(true)`) or by B, must bring
/// both back to the join. A replica state reached through removal and re-creation is as reachable
/// as any other.
pub fn run_case_ext(
    a: &State,
    b: &State,
    cfg: Cfg,
    backend: BackendKind,
    recreate: Option<bool>,
) -> (Vec<(&'static str, Value, String)>, String, usize) {
    let ns = ns_id(0);
    let mut bad = vec![];
    let wit = |extra: Value| {
        let mut w = json!({"cfg": format!("{:?}", cfg), "backend": backend});
        if let (Some(o), Some(e)) = (w.as_object_mut(), extra.as_object()) {
            for (k, v) in e {
                o.insert(k.clone(), v.clone());
            }
        }
        w
    };
    let mut pa = Party::build(backend, 0, &a.offered);
    let mut pb = Party::build(backend, 0, &b.offered);
    if pa.dump(ns) != a.model.dump() || pb.dump(ns) != b.model.dump() {
        // precondition (C02) does not hold for this state; reported under C02, noted here
        bad.push((
            "start_state_is_reachable_antichain",
            wit(json!({})),
            format!(
                "start state differs from the model: A impl={} model={} | B impl={} model={}",
                show_entries(&pa.dump(ns)),
                show_entries(&a.model.dump()),
                show_entries(&pb.dump(ns)),
                show_entries(&b.model.dump())
            ),
        ));
    }
    let join = ModelReplica::join(&a.model, &b.model);
    let bound = 4 + 2 * (a.model.len() + b.model.len());
    let s1 = match run_session(&mut pa, &mut pb, ns, cfg, bound, None) {
        Ok(s) => s,
        Err(e) => {
            bad.push((
                "session_returns_ok",
                wit(json!({})),
                format!("session failed: {e:#}"),
            ));
            return (bad, "error".into(), 0);
        }
    };
    if !s1.terminated {
        bad.push((
            "terminates_within_bound",
            wit(json!({})),
            format!("no termination within {bound} messages"),
        ));
    }
    let (da, db) = (pa.dump(ns), pb.dump(ns));
    let want = join.dump();
    if da != want || db != want {
        bad.push((
            "converges_to_join",
            wit(json!({"a_ok": da == want, "b_ok": db == want})),
            format!(
                "after one session: A={} B={} join={}",
                show_entries(&da),
                show_entries(&db),
                show_entries(&want)
            ),
        ));
    }
    if s1.a.num_sent != s1.b.num_recv || s1.b.num_sent != s1.a.num_recv {
        bad.push((
            "counters_mirror",
            wit(json!({})),
            format!(
                "A sent/recv={}/{} B sent/recv={}/{}",
                s1.a.num_sent, s1.a.num_recv, s1.b.num_sent, s1.b.num_recv
            ),
        ));
    }
    for (side, c, o) in [("A", &s1.a_carried, &s1.a), ("B", &s1.b_carried, &s1.b)] {
        if let Some(m) = c.mismatch(o) {
            bad.push((
                "outcome_reports_what_was_carried",
                wit(json!({"side": side})),
                format!("{side}: {m}"),
            ));
        }
    }
    // second session transfers nothing
    match run_session(&mut pa, &mut pb, ns, cfg, bound, None) {
        Err(e) => bad.push((
            "session_returns_ok",
            wit(json!({"second": true})),
            format!("second session failed: {e:#}"),
        )),
        Ok(s2) => {
            if s2.a.num_sent + s2.a.num_recv + s2.b.num_sent + s2.b.num_recv != 0 || !s2.terminated
            {
                bad.push((
                    "second_session_transfers_nothing",
                    wit(json!({})),
                    format!(
                        "second session: A sent/recv={}/{} B sent/recv={}/{} messages={}",
                        s2.a.num_sent, s2.a.num_recv, s2.b.num_sent, s2.b.num_recv, s2.messages
                    ),
                ));
            }
            if pa.dump(ns) != da || pb.dump(ns) != db {
                bad.push((
                    "second_session_changes_nothing",
                    wit(json!({})),
                    "a second session changed a replica".to_string(),
                ));
            }
        }
    }
    if let Some(a_initiates) = recreate {
        if let Party::Real { sut, .. } = &mut pa {
            let removed = sut.store.remove_replica(&ns);
            let created = sut.store.import_namespace(iroh_docs::Capability::Write(crate::universe::ns_secret(0)));
            if removed.is_err() || created.is_err() {
                bad.push(("session_returns_ok", wit(json!({"recreate": true})), format!("remove / re-create failed: {removed:?} {:?}", created.map(|_| ()))));
            }
        }
        let after_removal = pa.dump(ns);
        if !after_removal.is_empty() {
            bad.push(("converges_to_join", wit(json!({"recreate": true, "recreated_replica_not_empty": true})), format!("the re-created replica holds {}", show_entries(&after_removal))));
        }
        let res = if a_initiates {
            run_session(&mut pa, &mut pb, ns, cfg, bound, None)
        } else {
            run_session(&mut pb, &mut pa, ns, cfg, bound, None)
        };
        match res {
            Err(e) => bad.push(("session_returns_ok", wit(json!({"recreate": true})), format!("session after re-creation failed: {e:#}"))),
            Ok(s3) => {
                let (da3, db3) = (pa.dump(ns), pb.dump(ns));
                if !s3.terminated || da3 != want || db3 != want {
                    bad.push((
                        "converges_to_join",
                        wit(json!({"recreate": true, "a_ok": da3 == want, "b_ok": db3 == want, "initiator": if a_initiates { "re-created" } else { "peer" }})),
                        format!("A's document was removed and re-created, then one more session ({} initiating): A={} B={} expected {}", if a_initiates { "A" } else { "B" }, show_entries(&da3), show_entries(&db3), show_entries(&want)),
                    ));
                }
            }
        }
    }
    let rendering = format!(
        "msgs={} a={}/{} b={}/{} final={}",
        s1.messages,
        s1.a.num_sent,
        s1.a.num_recv,
        s1.b.num_sent,
        s1.b.num_recv,
        show_entries(&da)
    );
    (bad, rendering, s1.messages)
}

fn run(ctx: &Ctx, report: &mut Report) {
    crate::util::silence_panics();
    let mut ordinal = 0u64;
    let mut exec_rc = |report: &mut Report, a: &State, b: &State, cfg: Cfg, backend: BackendKind, recreate: Option<bool>| {
        ordinal += 1;
        if !ctx.mine(ordinal) {
            return;
        }
        one(report, a, b, cfg, backend, recreate, ordinal);
    };
    // life cycle: after the sessions A's document is removed and created again, one more session
    // (either side initiating) must restore it
    {
        let s12 = states_from_subsets(&universe12(), 2);
        for a in &s12 {
            for b in &s12 {
                if b.model.len() == 0 {
                    continue;
                }
                exec_rc(report, a, b, DEFAULT_CFG, BackendKind::Mem, Some(true));
                exec_rc(report, a, b, DEFAULT_CFG, BackendKind::Mem, Some(false));
                if nontrivial_pair(a, b) && !ctx.quick() {
                    exec_rc(report, a, b, DEFAULT_CFG, BackendKind::File, Some(true));
                }
            }
        }
    }
    // replicas held open by a store actor across both sessions (what an open replica keeps between
    // operations must not change the outcome)
    {
        let s12 = states_from_subsets(&universe12(), 2);
        for a in &s12 {
            for b in &s12 {
                if nontrivial_pair(a, b) && (!ctx.quick() || a.offered.len() + b.offered.len() <= 3) {
                    exec_rc(report, a, b, DEFAULT_CFG, BackendKind::Actor, None);
                    if !ctx.quick() {
                        exec_rc(report, a, b, (1, 3), BackendKind::Actor, None);
                    }
                }
            }
        }
        let flat = flat_states(if ctx.quick() { 5 } else { 8 });
        for a in &flat {
            for b in &flat {
                exec_rc(report, a, b, (1, 3), BackendKind::Actor, None);
            }
        }
    }
    // big sets: hundreds of entries per side (many levels of range splitting, long messages),
    // shapes: everything against nothing, interleaved halves, overlapping thirds, and equal sets
    // that differ in three newer versions and one newer deletion marker covering a fifth
    {
        let n: usize = if ctx.quick() { 300 } else { 1100 };
        let key = |i: usize| format!("k{i:04}").into_bytes();
        let all: Vec<Spec> = (0..n).map(|i| Spec::new(0, (i % 2) as u8, &key(i), 1, Val::X)).collect();
        let evens: Vec<Spec> = all.iter().step_by(2).cloned().collect();
        let odds: Vec<Spec> = all.iter().skip(1).step_by(2).cloned().collect();
        let first: Vec<Spec> = all[..2 * n / 3].to_vec();
        let last: Vec<Spec> = all[n / 3..].to_vec();
        let mut newer = all.clone();
        for i in [0, n / 2, n - 1] {
            newer[i] = Spec::new(0, (i % 2) as u8, &key(i), 2, Val::Y);
        }
        // a marker of author 0 at the prefix "k00": supersedes that author's k0000..k0099
        newer.push(Spec::new(0, 0, b"k00", 3, Val::Del));
        let shapes: Vec<(Vec<Spec>, Vec<Spec>)> = vec![(all.clone(), vec![]), (evens, odds), (first, last), (all.clone(), newer)];
        for (x, y) in shapes {
            let (sx, sy) = (state_of(x), state_of(y));
            report.count("big_set_pairs", 2);
            exec_rc(report, &sx, &sy, DEFAULT_CFG, BackendKind::Mem, None);
            exec_rc(report, &sy, &sx, DEFAULT_CFG, BackendKind::Mem, None);
            if !ctx.quick() {
                exec_rc(report, &sx, &sy, (3, 4), BackendKind::Mem, None);
                exec_rc(report, &sy, &sx, DEFAULT_CFG, BackendKind::File, None);
                exec_rc(report, &sx, &sy, DEFAULT_CFG, BackendKind::Actor, None);
            }
        }
    }
    let mut exec = |report: &mut Report, a: &State, b: &State, cfg: Cfg, backend: BackendKind| exec_rc(report, a, b, cfg, backend, None);
    match ctx.tier {
        Tier::Quick => {
            let s12_3 = states_from_subsets(&universe12(), 3);
            report.fact("states_S12_le3", json!(s12_3.len()));
            for a in &s12_3 {
                for b in &s12_3 {
                    exec(report, a, b, DEFAULT_CFG, BackendKind::Mem);
                }
            }
            // larger states (7..9 entries per side: two and three levels of range splitting)
            let large = large_family();
            report.fact("states_large", json!(large.len()));
            let base = &large[0];
            for v in &large {
                exec(report, base, v, DEFAULT_CFG, BackendKind::Mem);
                exec(report, v, base, DEFAULT_CFG, BackendKind::Mem);
            }
            // all pairs of subsets of 8 flat keys under split factor 3 (with the default
            // factor 2 the middle-pivot code of the splitting step never runs)
            let flat = flat_states(8);
            report.fact("states_flat", json!(flat.len()));
            for a in &flat {
                for b in &flat {
                    exec(report, a, b, (1, 3), BackendKind::Mem);
                }
            }
            let s12 = states_from_subsets(&universe12(), 2);
            report.fact("states_S12_le2", json!(s12.len()));
            for a in &s12 {
                for b in &s12 {
                    if nontrivial_pair(a, b) {
                        for cfg in &CFGS[1..] {
                            exec(report, a, b, *cfg, BackendKind::Mem);
                        }
                        exec(report, a, b, DEFAULT_CFG, BackendKind::File);
                    }
                }
            }
        }
        Tier::Thorough => {
            let s16 = states_from_subsets(&universe16(), 3);
            report.fact("states_S16", json!(s16.len()));
            for a in &s16 {
                for b in &s16 {
                    exec(report, a, b, DEFAULT_CFG, BackendKind::Mem);
                }
            }
            let s24 = states_from_subsets(&universe24(), 2);
            report.fact("states_S24", json!(s24.len()));
            for a in &s24 {
                for b in &s24 {
                    for cfg in CFGS {
                        exec(report, a, b, cfg, BackendKind::Mem);
                    }
                    if nontrivial_pair(a, b) {
                        exec(report, a, b, DEFAULT_CFG, BackendKind::File);
                    }
                }
            }
            let flat = flat_states(9);
            report.fact("states_flat", json!(flat.len()));
            for a in &flat {
                for b in &flat {
                    for cfg in [(1usize, 3usize), (3, 4), (2, 2)] {
                        exec(report, a, b, cfg, BackendKind::Mem);
                    }
                }
            }
            // further legal settings (wider splits, larger item sets) on all pairs of subsets of 8
            let flat8 = flat_states(8);
            for a in &flat8 {
                for b in &flat8 {
                    for cfg in [(1usize, 4usize), (1, 5), (2, 3), (4, 2), (5, 3)] {
                        exec(report, a, b, cfg, BackendKind::Mem);
                    }
                }
            }
            let large = large_family();
            report.fact("states_large", json!(large.len()));
            for a in &large {
                for b in &large {
                    exec(report, a, b, DEFAULT_CFG, BackendKind::Mem);
                }
            }
            let base = &large[0];
            for v in &large {
                for cfg in CFGS {
                    for backend in [BackendKind::Mem, BackendKind::File] {
                        exec(report, base, v, cfg, backend);
                        exec(report, v, base, cfg, backend);
                    }
                }
            }
        }
    }
}

fn one(report: &mut Report, a: &State, b: &State, cfg: Cfg, backend: BackendKind, recreate: Option<bool>, ordinal: u64) {
    report.evaluations += 1;
    report.traces += 1;
    // for the flat-key family (no prefix relations by construction) a pair is non-trivial when
    // the sets differ and at least one side has to split a range
    let nt = nontrivial_pair(a, b)
        || (a.canon != b.canon && a.model.len().max(b.model.len()) >= 2 && a.canon.iter().all(|s| s.key.starts_with(b"k")));
    if nt {
        report.nontrivial += 1;
    }
    let case = || {
        let mut c = case_json(&a.offered, &b.offered, cfg, backend);
        if let Some(r) = recreate {
            c["recreate"] = json!(r);
        }
        c
    };
    let _watch = crate::util::watch::enter("reconciliation session pair", case());
    match catch(|| run_case_ext(a, b, cfg, backend, recreate)) {
        Err(p) => report.violation(
            "no_panic",
            json!({"cfg": format!("{:?}", cfg), "backend": backend}),
            case(),
            format!("panic: {p}"),
            ordinal,
        ),
        Ok((bad, rendering, messages)) => {
            report.transitions += messages as u64;
            report.maximum("max_messages_in_a_session", messages as u64);
            report.maximum(
                "max_entries_per_side",
                a.model.len().max(b.model.len()) as u64,
            );
                        report.outcome(format!("{:016x}", fnv(rendering.as_bytes())));
            for (oracle, witness, detail) in bad {
                report.violation(oracle, witness, case(), detail, ordinal);
            }
            if nt && (messages >= 4 || report.samples.is_empty()) {
                report.sample(|| {
                    json!({"a": a.canon.iter().map(|s| s.to_string()).collect::<Vec<_>>(),
                           "b": b.canon.iter().map(|s| s.to_string()).collect::<Vec<_>>(),
                           "cfg": [cfg.0, cfg.1], "backend": backend, "observed": rendering})
                });
            }
        }
    }
}

pub fn case_from_json(v: &Value) -> anyhow::Result<(State, State, Cfg, BackendKind)> {
    let a: Vec<Spec> = serde_json::from_value(v["a"].clone())?;
    let b: Vec<Spec> = serde_json::from_value(v["b"].clone())?;
    let cfg: (usize, usize) = serde_json::from_value(v["cfg"].clone())?;
    let backend: BackendKind = serde_json::from_value(v["backend"].clone())?;
    Ok((state_of(a), state_of(b), cfg, backend))
}

fn replay(case: &Value) -> anyhow::Result<(bool, String)> {
    let (a, b, cfg, backend) = case_from_json(case)?;
    let recreate = case.get("recreate").and_then(|r| r.as_bool());
    match catch(|| run_case_ext(&a, &b, cfg, backend, recreate)) {
        Err(p) => Ok((true, format!("panic: {p}"))),
        Ok((bad, rendering, _)) => {
            let mut out = format!(
                "A offered {:?}\nB offered {:?}\ncfg={cfg:?} backend={backend:?}\nobserved: {rendering}\n",
                a.offered.iter().map(|s| s.to_string()).collect::<Vec<_>>(),
                b.offered.iter().map(|s| s.to_string()).collect::<Vec<_>>()
            );
            for (o, _, d) in &bad {
                out.push_str(&format!("FAILED {o}: {d}\n"));
            }
            Ok((!bad.is_empty(), out))
        }
    }
}
