//! C04 — a swarm of replicas is eventually consistent despite loss, dups and reordering.

use std::collections::BTreeSet;

use iroh_docs::sync::SignedEntry;
use serde::{Deserialize, Serialize};
use serde_json::{json, Value};

use super::{
    common::set_clock,
    recon::{run_session, scratch_dir, BackendKind, Party, DEFAULT_CFG},
};
use crate::{
    explore::{bfs_nd, Outcome as BfsOutcome},
    refmodel::ModelReplica,
    report::Report,
    sut::{Outcome, Sut},
    universe::{author, ns_id, show_entries, Spec, Val, NOW, T0},
    util::catch,
    Ctx, PropDef, Tier,
};

pub fn def() -> PropDef {
    PropDef {
        id: "C04",
        level: "model_checking",
        rule: "explicit-state search over N real replicas of one document: events W(r,op,ts) local insert/delete at replica r with the clock pinned to any of three timestamps (every skew, including clocks stepping back), G(e,r) delivery of any previously written entry to any replica through the remote-insert path (subsumes drop, duplication, reordering of the broadcast), S(i,j,k) the first k messages of a reconciliation session i->j and then abort (k = all: complete), R(r) close and reopen replica r's store from its file; on every newly discovered state a closing phase is run for every spanning tree of the N replicas and for the complete graph: complete sessions along the edges until a full pass transfers nothing; invariants: every replica holds only entries some replica wrote (full equality incl. signatures), a session or delivery only moves a replica upward in the merge order, closing terminates within N passes and leaves every replica equal to the merge of all accepted local writes; canonical state = (written set, dump of every replica, kind of transaction every replica's store holds); no observation is made inside a history (the state before its last event comes from a separate replay); non-trivial = states in which at least two replicas differ before closing; family H: three replicas held open by store actors for the whole history (writes and complete sessions through SyncHandle), closing along 4 topologies; family L: 2 and 3 real nodes in one process (Docs engine with live actor and gossip receive loop, Router, QUIC endpoints on loopback), every history of writes, prefix deletions, join (start_sync), leave, and waiting points, with clocks increasing and stepping back; the network schedule inside a history is the real one (one execution per history); closing phase = sessions asked of the engines (start_sync naming the neighbour) along the star around node 0, counted only when the engine reports a successful session that started after the request, repeated until a full pass transfers nothing, then every node must hold the merge of all accepted local writes and nothing nobody wrote; a history for which no successful session can be obtained is counted as premise-not-met and is not a verdict",
        assumptions: &[
            "iroh-gossip is abstracted as unreliable broadcast (drop / duplicate / reorder); its own delivery guarantees are not checked",
            "replicas 0 and 2 share an author, replica 1 uses a second one",
            "family L: the order of network events inside a history is not controlled (real gossip and QUIC on loopback); exhaustive over histories, one schedule each",
        ],
        bound: |t| match t {
            Tier::Quick => json!({"N=2": "depth <= 3", "N=3": "depth <= 2", "ops": ["ins a", "ins ab", "ins ''", "del a"], "timestamps": 3, "family H": "histories <= 3 (+ depth 4 with exactly two writes)", "family L (real nodes)": "2 nodes: histories <= 3 over 9 events; 3 nodes: histories <= 2 over 12 events; x 2 clock directions"}),
            Tier::Thorough => json!({"N=2": "depth <= 5", "N=3": "depth <= 3", "N=4": "depth <= 3 (ops ins ab, del a)", "N=5": "depth <= 2 (ops ins ab, del a)", "family H": "histories <= 4 (+ depth 5 with exactly two writes)", "family L (real nodes)": "2 nodes: histories <= 4 over 9 events; 3 nodes: histories <= 3 over 12 events; x 2 clock directions"}),
        },
        run,
        replay,
        shards: |_| 16,
    }
}

#[derive(Debug, Clone, Copy, PartialEq, Eq, Serialize, Deserialize)]
pub enum Op {
    InsA,
    InsAb,
    InsRoot,
    DelA,
}

impl Op {
    fn key_val(self) -> (&'static [u8], Val) {
        match self {
            Op::InsA => (b"a", Val::X),
            Op::InsAb => (b"ab", Val::X),
            Op::InsRoot => (b"", Val::Y),
            Op::DelA => (b"a", Val::Del),
        }
    }
}

#[derive(Debug, Clone, Copy, PartialEq, Eq, Serialize, Deserialize)]
pub enum Ev {
    /// local write at replica r with the clock at T0+ts
    W(u8, Op, u64),
    /// deliver the i-th written entry to replica r
    G(usize, u8),
    /// first k messages of a session i -> j (k = 0: run to completion)
    S(u8, u8, usize),
    /// restart replica r from disk
    R(u8),
}

fn author_of(r: u8) -> u8 {
    r % 2
}

fn events(n: u8, ops: &[Op], depth: usize) -> Vec<Ev> {
    let mut v = vec![];
    for r in 0..n {
        for op in ops {
            for ts in 1..=3 {
                v.push(Ev::W(r, *op, ts));
            }
        }
    }
    for i in 0..depth {
        for r in 0..n {
            v.push(Ev::G(i, r));
        }
    }
    for i in 0..n {
        for j in 0..n {
            if i != j {
                for k in [1usize, 2, 3, 0] {
                    v.push(Ev::S(i, j, k));
                }
            }
        }
    }
    for r in 0..n {
        v.push(Ev::R(r));
    }
    v
}

struct Swarm {
    parties: Vec<Party>,
    paths: Vec<Option<std::path::PathBuf>>,
    _dirs: Vec<tempfile::TempDir>,
}

fn build(n: u8, persistent: bool) -> Swarm {
    let mut parties = vec![];
    let mut paths = vec![];
    let mut dirs = vec![];
    for _ in 0..n {
        if persistent {
            let d = scratch_dir();
            let p = d.path().join("docs.redb");
            let sut = Sut::persistent_with(&p, &[0]).expect("store");
            parties.push(Party::Real { sut, _dir: None });
            paths.push(Some(p));
            dirs.push(d);
        } else {
            parties.push(Party::build(BackendKind::Mem, 0, &[]));
            paths.push(None);
        }
    }
    Swarm {
        parties,
        paths,
        _dirs: dirs,
    }
}

fn sut_of(p: &mut Party) -> &mut Sut {
    match p {
        Party::Real { sut, .. } => sut,
        _ => unreachable!(),
    }
}

type Bad = Vec<(&'static str, Value, String)>;

struct Replayed {
    swarm: Swarm,
    written: Vec<SignedEntry>,
    bad: Bad,
    observed: String,
}

/// Replay a history on a fresh swarm. None if the last event is not enabled.
///
/// Observing a store changes the kind of transaction it holds (a dump turns an open write
/// transaction into a read snapshot), and later operations may depend on that. The history under
/// test therefore contains no observations: the state *before* the last event, which the
/// per-step invariants need, comes from a replay of its own of the history without that event.
fn replay_history(n: u8, hist: &[Ev]) -> Option<Replayed> {
    let persistent = hist.iter().any(|e| matches!(e, Ev::R(_)));
    let before = match hist.split_last() {
        None => None,
        Some((_, prefix)) => {
            let mut rp = run_events(n, prefix, persistent, None)?;
            let ns = ns_id(0);
            Some(rp.swarm.parties.iter_mut().map(|p| p.dump(ns)).collect::<Vec<_>>())
        }
    };
    run_events(n, hist, persistent, before)
}

fn run_events(n: u8, hist: &[Ev], persistent: bool, before_last: Option<Vec<Vec<SignedEntry>>>) -> Option<Replayed> {
    set_clock(NOW);
    let ns = ns_id(0);
    let mut swarm = build(n, persistent);
    let mut written: Vec<SignedEntry> = vec![];
    let mut bad: Bad = vec![];
    let mut observed = String::new();
    for (i, ev) in hist.iter().enumerate() {
        let last = i + 1 == hist.len() && before_last.is_some();
        let mut step_bad: Bad = vec![];
        let mut touched: Vec<u8> = vec![];
        match *ev {
            Ev::W(r, op, ts) => {
                let (key, val) = op.key_val();
                let e = Spec::new(0, author_of(r), key, ts, val).signed();
                set_clock(T0 + ts);
                let got = sut_of(&mut swarm.parties[r as usize]).local_insert(ns, &author(author_of(r)), key, val);
                set_clock(NOW);
                if last {
                    let mut model = ModelReplica::spec(&before_last.as_ref().unwrap()[r as usize]);
                    let want = match model.put(&e) {
                        crate::refmodel::PutOutcome::Inserted { removed } => Outcome::Inserted(removed),
                        crate::refmodel::PutOutcome::Superseded => Outcome::Newer,
                    };
                    if got != want {
                        step_bad.push(("local_write_outcome", json!({}), format!("{ev:?}: impl={got:?} model={want:?}")));
                    }
                }
                if matches!(got, Outcome::Inserted(_)) && !written.contains(&e) {
                    written.push(e);
                }
                observed = format!("W->{got:?}");
                touched.push(r);
            }
            Ev::G(w, r) => {
                let e = written.get(w)?.clone();
                let got = sut_of(&mut swarm.parties[r as usize]).remote(ns, e);
                observed = format!("G->{got:?}");
                touched.push(r);
            }
            Ev::S(a, b, k) => {
                let (pa, pb) = two(&mut swarm.parties, a as usize, b as usize);
                match run_session(pa, pb, ns, DEFAULT_CFG, 64, if k == 0 { None } else { Some(k) }) {
                    Ok(s) => observed = format!("S->msgs={} a={}/{} b={}/{}", s.messages, s.a.num_sent, s.a.num_recv, s.b.num_sent, s.b.num_recv),
                    Err(e) => step_bad.push(("session_returns_ok", json!({}), format!("{ev:?}: {e:#}"))),
                }
                touched.extend([a, b]);
            }
            Ev::R(r) => {
                let path = swarm.paths[r as usize].clone().expect("persistent");
                // drop (flushes) and reopen
                let old = std::mem::replace(&mut swarm.parties[r as usize], Party::Ref(iroh_docs::verif::Adapter(super::recon::RefBackend::default())));
                drop(old);
                let sut = Sut::persistent(&path).expect("reopen");
                swarm.parties[r as usize] = Party::Real { sut, _dir: None };
                observed = "R".into();
                touched.push(r);
            }
        }
        // invariants after the last event (every shorter history is a state of its own)
        if !last {
            continue;
        }
        let before = before_last.as_ref().unwrap();
        for r in 0..n {
            let now = swarm.parties[r as usize].dump(ns);
            if let Some(x) = now.iter().find(|e| !written.contains(e)) {
                step_bad.push((
                    "replicas_hold_only_written_entries",
                    json!({}),
                    format!("replica {r} holds {} which nobody wrote", crate::universe::show_entry(x)),
                ));
            }
            if !touched.contains(&r) {
                if now != before[r as usize] {
                    step_bad.push(("untouched_replica_unchanged", json!({}), format!("{ev:?} changed replica {r}")));
                }
            } else {
                // upward move: new == merge(old ∪ new)
                let mut all = before[r as usize].clone();
                all.extend(now.iter().cloned());
                let merged = ModelReplica::spec(&all).dump();
                if merged != now {
                    step_bad.push((
                        "state_moves_upward_in_merge_order",
                        json!({"event": format!("{ev:?}").split('(').next().unwrap_or("").to_string()}),
                        format!("{ev:?} at replica {r}: before={} after={} merge={}", show_entries(&before[r as usize]), show_entries(&now), show_entries(&merged)),
                    ));
                }
            }
        }
        bad.extend(step_bad);
    }
    Some(Replayed {
        swarm,
        written,
        bad,
        observed,
    })
}

fn two(v: &mut [Party], a: usize, b: usize) -> (&mut Party, &mut Party) {
    assert!(a != b);
    if a < b {
        let (l, r) = v.split_at_mut(b);
        (&mut l[a], &mut r[0])
    } else {
        let (l, r) = v.split_at_mut(a);
        (&mut r[0], &mut l[b])
    }
}

/// All spanning trees of K_n (as edge lists) plus the complete graph.
fn topologies(n: u8) -> Vec<Vec<(u8, u8)>> {
    let mut edges = vec![];
    for i in 0..n {
        for j in (i + 1)..n {
            edges.push((i, j));
        }
    }
    let mut out = vec![];
    let m = edges.len();
    for mask in 0u32..(1 << m) {
        if mask.count_ones() as u8 != n - 1 {
            continue;
        }
        let sel: Vec<(u8, u8)> = (0..m).filter(|i| mask >> i & 1 == 1).map(|i| edges[i]).collect();
        // connected?
        let mut comp: Vec<u8> = (0..n).collect();
        for _ in 0..n {
            for (a, b) in &sel {
                let c = comp[*a as usize].min(comp[*b as usize]);
                comp[*a as usize] = c;
                comp[*b as usize] = c;
            }
        }
        if comp.iter().all(|c| *c == 0) {
            out.push(sel);
        }
    }
    if n > 2 {
        out.push(edges);
    }
    out
}

/// Closing phase on a freshly replayed swarm.
fn closing(n: u8, hist: &[Ev], topo: &[(u8, u8)]) -> Bad {
    let ns = ns_id(0);
    let mut bad = vec![];
    let persistent = hist.iter().any(|e| matches!(e, Ev::R(_)));
    let Some(mut rp) = run_events(n, hist, persistent, None) else {
        return bad;
    };
    let want = ModelReplica::spec(&rp.written).dump();
    let mut passes = 0;
    loop {
        passes += 1;
        let mut transferred = 0;
        for (a, b) in topo {
            let (pa, pb) = two(&mut rp.swarm.parties, *a as usize, *b as usize);
            match run_session(pa, pb, ns, DEFAULT_CFG, 64, None) {
                Ok(s) => {
                    transferred += s.a.num_sent + s.a.num_recv;
                    if !s.terminated {
                        bad.push(("closing_session_terminates", json!({}), format!("session {a}->{b} did not terminate")));
                    }
                }
                Err(e) => bad.push(("closing_session_ok", json!({}), format!("{e:#}"))),
            }
        }
        if transferred == 0 {
            break;
        }
        if passes > n as usize + 1 {
            bad.push((
                "closing_terminates_within_n_passes",
                json!({"n": n}),
                format!("still transferring after {passes} passes over {topo:?}"),
            ));
            break;
        }
    }
    for r in 0..n {
        let got = rp.swarm.parties[r as usize].dump(ns);
        if got != want {
            bad.push((
                "swarm_converges_to_merge_of_accepted_writes",
                json!({"n": n, "complete_graph": topo.len() as u8 > n - 1}),
                format!(
                    "after closing along {topo:?} ({passes} passes) replica {r} holds {} expected {}",
                    show_entries(&got),
                    show_entries(&want)
                ),
            ));
        }
    }
    bad
}

fn explore(ctx: &Ctx, report: &mut Report, n: u8, ops: &[Op], depth: usize) {
    let evs = events(n, ops, depth);
    let topos = topologies(n);
    report.fact(&format!("events_n{n}"), json!(evs.len()));
    report.fact(&format!("topologies_n{n}"), json!(topos.len()));
    let ns = ns_id(0);
    let mut evals = 0u64;
    let mut nt = 0u64;
    let mut closed: BTreeSet<String> = BTreeSet::new();
    bfs_nd(ctx, report, &evs, depth, 1, if ctx.quick() { 1 } else { 2 }, |h, report, ordinal| {
        let case = json!({"n": n, "hist": h});
        let _watch = crate::util::watch::enter_secs("swarm history incl. closing phase", case.clone(), 120);
        match catch(|| replay_history(n, h)) {
            Err(p) => {
                report.violation("no_panic", json!({}), case, format!("panic: {p}"), ordinal);
                None
            }
            Ok(None) => None,
            Ok(Some(mut rp)) => {
                evals += 1;
                for (o, w, d) in rp.bad.drain(..) {
                    report.violation(o, w, case.clone(), d, ordinal);
                }
                // hidden state first (the dumps below change it), then the observable state
                let kinds: Vec<&'static str> = rp.swarm.parties.iter_mut().map(|p| sut_of(p).store.verif_transaction_kind()).collect();
                let dumps: Vec<Vec<SignedEntry>> = rp.swarm.parties.iter_mut().map(|p| p.dump(ns)).collect();
                let mut written_sorted: Vec<String> = rp.written.iter().map(crate::universe::show_entry).collect();
                written_sorted.sort();
                let key = format!(
                    "{written_sorted:?}|{:?}|{}|{kinds:?}",
                    dumps.iter().map(|d| show_entries(d)).collect::<Vec<_>>(),
                    rp.written.len()
                );
                let differ = dumps.windows(2).any(|w| w[0] != w[1]);
                if differ {
                    nt += 1;
                }
                let nwritten = rp.written.len();
                let observed = rp.observed.clone();
                drop(rp);
                // closing phase once per distinct state
                if closed.insert(key.clone()) {
                    for topo in &topos {
                        report.count("closing_phases", 1);
                        match catch(|| closing(n, h, topo)) {
                            Err(p) => report.violation("no_panic", json!({"closing": true}), json!({"n": n, "hist": h, "topology": topo}), format!("panic: {p}"), ordinal),
                            Ok(bad) => {
                                for (o, w, d) in bad {
                                    report.violation(o, w, json!({"n": n, "hist": h, "topology": topo}), d, ordinal);
                                }
                            }
                        }
                    }
                    if differ && h.len() >= 2 {
                        report.sample(|| json!({"n": n, "history": h.iter().map(|e| format!("{e:?}")).collect::<Vec<_>>(), "replicas": dumps.iter().map(|d| show_entries(d)).collect::<Vec<_>>(), "closing_topologies": topos.len()}));
                    }
                }
                // G(i, r) is enabled only for written entries
                let mask: Vec<bool> = evs
                    .iter()
                    .map(|e| match e {
                        Ev::G(i, _) => *i < nwritten,
                        _ => true,
                    })
                    .collect();
                Some(BfsOutcome {
                    key,
                    observed,
                    enabled: Some(mask),
                })
            }
        }
    });
    report.evaluations += evals;
    report.nontrivial += nt;
}

// ---------------------------------------------------------------------------------------
// Family H: the swarm as it is deployed — every replica is held open by its node's store actor
// for the whole history (writes, deliveries and the messages of all sessions go through the
// `SyncHandle`), so whatever an open replica keeps between operations is in play.
// ---------------------------------------------------------------------------------------

#[derive(Debug, Clone, Copy, PartialEq, Eq, Serialize, Deserialize)]
pub enum HEv {
    /// node r writes key k1 / k2 / the prefix-related k1x
    W(u8, u8),
    /// a complete session i -> j
    S(u8, u8),
}

const HKEYS: [&[u8]; 3] = [b"k1", b"k2", b"k1x"];

fn h_session(hs: &[iroh_docs::actor::SyncHandle], i: usize, j: usize) -> Result<usize, String> {
    use crate::sut::block_on_park;
    let ns = ns_id(0);
    let peer = |r: usize| [0x60 + r as u8; 32];
    let mut st = [iroh_docs::SyncOutcome::default(), iroh_docs::SyncOutcome::default()];
    let mut msg = Some(block_on_park(hs[i].sync_initial_message(ns)).map_err(|e| format!("initial: {e:#}"))?);
    let mut to_j = true;
    let mut rounds = 0;
    while let Some(m) = msg.take() {
        rounds += 1;
        if rounds > 60 {
            return Err("no termination within 60 messages".into());
        }
        let (at, from, slot) = if to_j { (j, peer(i), 1) } else { (i, peer(j), 0) };
        let (reply, s2) = block_on_park(hs[at].sync_process_message(ns, m, from, std::mem::take(&mut st[slot]))).map_err(|e| format!("process: {e:#}"))?;
        st[slot] = s2;
        msg = reply;
        to_j = !to_j;
    }
    Ok(st[0].num_recv + st[0].num_sent + st[1].num_recv + st[1].num_sent)
}

/// Runs the history on three actor-held replicas, then the closing phase along `topo`.
fn actor_swarm(hist: &[HEv], topo: &[(u8, u8)]) -> Bad {
    use crate::sut::{block_on_park, handle_dump};
    use iroh_docs::actor::{OpenOpts, SyncHandle};
    let ns = ns_id(0);
    let mut bad: Bad = vec![];
    set_clock(NOW);
    let hs: Vec<SyncHandle> = (0..3)
        .map(|r| {
            let mut store = iroh_docs::store::Store::memory();
            store.import_namespace(iroh_docs::Capability::Write(crate::universe::ns_secret(0))).expect("import");
            store.import_author(author(author_of(r))).expect("author");
            let h = SyncHandle::spawn(store, None, format!("c04-{r}"));
            block_on_park(h.open(ns, OpenOpts::default().sync())).expect("open");
            h
        })
        .collect();
    let mut written: Vec<SignedEntry> = vec![];
    for (step, ev) in hist.iter().enumerate() {
        match *ev {
            HEv::W(r, k) => {
                let ts = 10 + step as u64;
                let spec = Spec::new(0, author_of(r), HKEYS[k as usize], ts, Val::X);
                set_clock(T0 + ts);
                let (hash, len) = Val::X.hash_len();
                let res = block_on_park(hs[r as usize].insert_local(ns, author(author_of(r)).id(), bytes::Bytes::copy_from_slice(HKEYS[k as usize]), hash, len));
                set_clock(NOW);
                if res.is_ok() {
                    written.push(spec.signed());
                }
            }
            HEv::S(i, j) => {
                if let Err(e) = h_session(&hs, i as usize, j as usize) {
                    bad.push(("session_returns_ok", json!({"actor_held": true}), format!("session {i}->{j}: {e}")));
                }
            }
        }
    }
    let want = ModelReplica::spec(&written).dump();
    // closing phase
    let mut quiet = false;
    for _pass in 0..4 {
        let mut moved = 0;
        for (i, j) in topo {
            match h_session(&hs, *i as usize, *j as usize) {
                Ok(n) => moved += n,
                Err(e) => bad.push(("session_returns_ok", json!({"actor_held": true, "closing": true}), format!("closing session {i}->{j}: {e}"))),
            }
        }
        if moved == 0 {
            quiet = true;
            break;
        }
    }
    if !quiet {
        bad.push(("closing_phase_terminates", json!({"actor_held": true}), "sessions still transfer entries after 4 passes over 3 replicas".into()));
    }
    for (r, h) in hs.iter().enumerate() {
        match block_on_park(handle_dump(h, ns)) {
            Ok(d) if d == want => {}
            Ok(d) => bad.push((
                "converges_to_merge_of_local_writes",
                json!({"actor_held": true, "replica": r, "missing": want.iter().filter(|e| !d.contains(e)).count(), "surplus": d.iter().filter(|e| !want.contains(e)).count()}),
                format!("replicas held open by their store actors, closing sessions along {topo:?}: replica {r} holds {} but the merge of all local writes is {}", show_entries(&d), show_entries(&want)),
            )),
            Err(e) => bad.push(("session_returns_ok", json!({"actor_held": true}), format!("dump of replica {r}: {e}"))),
        }
    }
    for h in hs {
        let _ = block_on_park(h.shutdown());
    }
    bad
}

fn h_topologies() -> Vec<Vec<(u8, u8)>> {
    vec![
        vec![(0, 1), (1, 2)],
        vec![(0, 1), (0, 2)],
        vec![(2, 1), (1, 0)],
        vec![(0, 1), (0, 2), (1, 2), (1, 0), (2, 0), (2, 1)],
    ]
}

fn run_actor_swarm(ctx: &Ctx, report: &mut Report) {
    let mut evs: Vec<HEv> = vec![];
    for r in 0..3u8 {
        for k in 0..2u8 {
            evs.push(HEv::W(r, k));
        }
    }
    evs.push(HEv::W(0, 2));
    for i in 0..3u8 {
        for j in 0..3u8 {
            if i != j {
                evs.push(HEv::S(i, j));
            }
        }
    }
    let full_depth = if ctx.quick() { 3 } else { 4 };
    let mut ordinal = 1u64 << 42;
    for depth in 1..=full_depth + 1 {
        crate::util::for_each_sequence(evs.len(), depth, |ix| {
            let hist: Vec<HEv> = ix.iter().map(|&i| evs[i]).collect();
            let writes = hist.iter().filter(|e| matches!(e, HEv::W(..))).count();
            if depth > full_depth && writes != 2 {
                // one step deeper: the histories with exactly two writes (in every arrangement)
                return;
            }
            if writes == 0 {
                return;
            }
            ordinal += 1;
            if !ctx.mine(ordinal) {
                return;
            }
            for topo in h_topologies() {
                report.evaluations += 1;
                report.traces += 1;
                report.transitions += hist.len() as u64 + topo.len() as u64;
                report.nontrivial += 1;
                report.count("actor_held_histories", 1);
                let case = json!({"actor_held": {"hist": hist, "topology": topo}});
                let _watch = crate::util::watch::enter_secs("actor-held swarm history incl. closing phase", case.clone(), 120);
                match catch(|| actor_swarm(&hist, &topo)) {
                    Err(p) => report.violation("no_panic", json!({"actor_held": true}), case, format!("panic: {p}"), ordinal),
                    Ok(bad) => {
                        for (o, w, d) in bad {
                            report.violation(o, w, case.clone(), d, ordinal);
                        }
                    }
                }
            }
        });
    }
}

fn run(ctx: &Ctx, report: &mut Report) {
    crate::util::silence_panics();
    run_actor_swarm(ctx, report);
    super::live::run_live_family(ctx, report, "C04");
    let all = [Op::InsA, Op::InsAb, Op::InsRoot, Op::DelA];
    let two_ops = [Op::InsAb, Op::DelA];
    if ctx.quick() {
        explore(ctx, report, 2, &all, 3);
        explore(ctx, report, 3, &all, 2);
    } else {
        explore(ctx, report, 2, &all, 5);
        explore(ctx, report, 3, &all, 3);
        explore(ctx, report, 4, &two_ops, 3);
        explore(ctx, report, 5, &two_ops, 2);
    }
}

fn replay(case: &Value) -> anyhow::Result<(bool, String)> {
    if let Some(r) = super::live::replay_live(case, "C04")? {
        return Ok(r);
    }
    if let Some(c) = case.get("actor_held") {
        let hist: Vec<HEv> = serde_json::from_value(c["hist"].clone())?;
        let topo: Vec<(u8, u8)> = serde_json::from_value(c["topology"].clone())?;
        return match catch(|| actor_swarm(&hist, &topo)) {
            Err(p) => Ok((true, format!("panic: {p}"))),
            Ok(bad) => {
                let out: String = bad.iter().map(|(o, _, d)| format!("FAILED {o}: {d}\n")).collect();
                Ok((!bad.is_empty(), format!("actor-held swarm, history {hist:?}, closing along {topo:?}\n{out}")))
            }
        };
    }
    let n = case["n"].as_u64().unwrap_or(2) as u8;
    let hist: Vec<Ev> = serde_json::from_value(case["hist"].clone())?;
    let mut out = format!("N={n} history {hist:?}\n");
    let mut failed = false;
    match catch(|| replay_history(n, &hist)) {
        Err(p) => return Ok((true, format!("panic: {p}"))),
        Ok(None) => return Ok((false, "history not enabled".into())),
        Ok(Some(mut rp)) => {
            let ns = ns_id(0);
            for (r, p) in rp.swarm.parties.iter_mut().enumerate() {
                out.push_str(&format!("replica {r}: {}\n", show_entries(&p.dump(ns))));
            }
            out.push_str(&format!("last: {}\n", rp.observed));
            for (o, _, d) in &rp.bad {
                failed = true;
                out.push_str(&format!("FAILED {o}: {d}\n"));
            }
        }
    }
    let topos: Vec<Vec<(u8, u8)>> = match case.get("topology") {
        Some(t) if !t.is_null() => vec![serde_json::from_value(t.clone())?],
        _ => topologies(n),
    };
    for topo in topos {
        for (o, _, d) in catch(|| closing(n, &hist, &topo)).map_err(|e| anyhow::anyhow!(e))? {
            failed = true;
            out.push_str(&format!("FAILED {o}: {d}\n"));
        }
    }
    Ok((failed, out))
}
