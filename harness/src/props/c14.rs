//! C14 — the store actor honours open/close counting and the sync switch.

use std::{future::Future, pin::Pin};

use iroh_docs::{
    actor::{OpenOpts, SyncHandle},
    store::{Query, Store},
    sync::{Event, SignedEntry},
    Capability, ContentStatus,
};
use serde::{Deserialize, Serialize};
use serde_json::{json, Value};

use super::common::set_clock;
use crate::{
    explore::{bfs_nd, Outcome as BfsOutcome},
    refmodel::{ModelReplica, PutOutcome},
    report::Report,
    sut::{block_on_park, handle_get_many, Sut, PEER},
    universe::{author, ns_id, ns_secret, show_entries, Spec, Val, NOW, T0},
    util::catch,
    Ctx, PropDef, Tier,
};

pub fn def() -> PropDef {
    PropDef {
        id: "C14",
        level: "model_checking",
        rule: "explicit-state search over requests {open, open+sync, open+subscribe, close, set_sync on/off, insert, delete, get_exact, get_many, subscribe, unsubscribe, drop, import (write), import (read-only, second document), insert_remote, sync_initial_message, sync_process_message (first message of a session, and a later one with progress handed in), get_state} x two documents against the real SyncHandle and its actor thread; every history is executed twice: awaiting every reply before the next request, and pipelined (all requests enqueued back-to-back in order, replies collected afterwards); every reply must equal the reference model's reply after exactly the earlier requests; after the history shutdown must hand back a store equal to the model; canonical state = (get_state of both documents, entries, listed namespaces); since the actor is a single consumer of one FIFO queue, client concurrency is observable only as an enqueue order, so all merges of two clients' request sequences are among the enumerated histories; family S: every history of <= 2 (thorough 3) requests over a 10-request alphabet with a second client's stop request queued at every position among them, all enqueued back-to-back: every request is answered, the ones before the stop as the model says, the ones behind it with an error (get_many: its stream ends), the store handed back = the state before the stop; family A: the actor is stalled on a full one-slot subscriber channel, 1-2 (thorough 3) requests are queued and their futures dropped at once, then five observing requests are queued and the subscriber drained: replies and the store handed back reflect the abandoned requests; non-trivial = histories with at least two opens or a close/drop after an open",
        assumptions: &[
            "async_channel is a linearizable FIFO and the actor a single consumer: concurrent clients reduce to enqueue orders",
            "drop_replica releases the caller's handle and then removes the document iff no handle remains (as the API layer defines it); the model mirrors that",
        ],
        bound: |t| match t {
            Tier::Quick => json!({"family_S": "depth <= 2", "family_A": "1..2 abandoned requests over 36", "depth": 4, "events": 40}),
            Tier::Thorough => json!({"family_S": "depth <= 3", "family_A": "1..3 abandoned requests", "depth": 6, "events": 40}),
        },
        run,
        replay,
        shards: |_| 16,
    }
}

#[derive(Debug, Clone, Copy, PartialEq, Eq, Serialize, Deserialize)]
pub enum Req {
    Open(u8),
    OpenSync(u8),
    OpenSub(u8),
    /// open with a subscriber whose receiver is already gone: an open like any other (a handle
    /// more); the dead subscriber disappears with the next event
    OpenSubDead(u8),
    Close(u8),
    SyncOn(u8),
    SyncOff(u8),
    Insert(u8),
    Delete(u8),
    GetExact(u8),
    GetMany(u8),
    Subscribe(u8),
    Unsubscribe(u8),
    Drop(u8),
    Import(u8),
    /// import the read-only capability (creates the document read-only if it does not exist;
    /// never takes the write capability away). Only for document 1, which does not exist at
    /// the start: `ImportRead, OpenSub, Import` is an upgrade of an open, subscribed document.
    ImportRead(u8),
    InsertRemote(u8),
    SyncInitial(u8),
    /// process a (valid, entry-free) reconciliation message of a peer
    SyncProcess(u8),
    /// a later message of a session that is already under way: the caller hands in the progress
    /// (counters) of the earlier messages
    SyncProcessLater(u8),
    GetState(u8),
    /// set a download policy: needs the document to exist (open or not); on a document that
    /// does not exist it fails and must change nothing
    SetPolicy(u8),
    /// register a useful peer: same
    RegisterPeer(u8),
}

fn requests() -> Vec<Req> {
    let mut v = vec![];
    for d in 0..2u8 {
        v.extend([
            Req::Open(d),
            Req::OpenSync(d),
            Req::OpenSub(d),
            Req::Close(d),
            Req::SyncOn(d),
            Req::SyncOff(d),
            Req::Insert(d),
            Req::Delete(d),
            Req::GetExact(d),
            Req::GetMany(d),
            Req::Subscribe(d),
            Req::Unsubscribe(d),
            Req::Drop(d),
            Req::Import(d),
            Req::InsertRemote(d),
            Req::SyncInitial(d),
            Req::SyncProcess(d),
            Req::SyncProcessLater(d),
            Req::GetState(d),
            Req::SetPolicy(d),
            Req::RegisterPeer(d),
        ]);
    }
    v.push(Req::ImportRead(1));
    v.push(Req::OpenSubDead(0));
    v
}

#[derive(Debug, Clone, Default)]
struct Doc {
    exists: bool,
    handles: usize,
    sync: bool,
    subscribers: usize,
    /// how many of the subscriptions were made through `Subscribe` and not yet unsubscribed
    unsubscribable: usize,
    entries: ModelReplica,
    policy_set: bool,
    peer_registered: bool,
    /// the write capability has been imported (document 0 starts with it)
    writable: bool,
    /// subscribers whose receiver is gone (removed when the next event is sent)
    dead: usize,
}

impl Doc {
    fn open(&self) -> bool {
        self.handles > 0
    }
    fn close_one(&mut self) -> bool {
        if !self.open() {
            return true;
        }
        self.handles -= 1;
        if self.handles == 0 {
            self.sync = false;
            self.subscribers = 0;
            self.unsubscribable = 0;
            self.dead = 0;
            true
        } else {
            false
        }
    }
}

fn remote_entry(d: u8) -> SignedEntry {
    Spec::new(d, 1, b"r", 1, Val::Y).signed()
}

fn local_entry(d: u8, step: usize, del: bool) -> SignedEntry {
    Spec::new(d, 0, b"k", 10 + step as u64, if del { Val::Del } else { Val::X }).signed()
}

/// Model reply (as a canonical string) and state update.
fn model_step(m: &mut [Doc; 2], r: Req, step: usize) -> String {
    let ok = "Ok".to_string();
    let err = "Err".to_string();
    match r {
        Req::Open(d) | Req::OpenSync(d) | Req::OpenSub(d) | Req::OpenSubDead(d) => {
            let doc = &mut m[d as usize];
            if !doc.exists {
                return err;
            }
            doc.handles += 1;
            if matches!(r, Req::OpenSubDead(_)) {
                doc.subscribers += 1;
                doc.dead += 1;
            }
            if matches!(r, Req::OpenSync(_)) {
                doc.sync = true;
            }
            if matches!(r, Req::OpenSub(_)) {
                doc.subscribers += 1;
            }
            ok
        }
        Req::Close(d) => format!("Ok({})", m[d as usize].close_one()),
        Req::SyncOn(d) | Req::SyncOff(d) => {
            let doc = &mut m[d as usize];
            if !doc.open() {
                return err;
            }
            doc.sync = matches!(r, Req::SyncOn(_));
            ok
        }
        Req::Insert(d) | Req::Delete(d) => {
            let doc = &mut m[d as usize];
            if !doc.open() || !doc.writable {
                return err;
            }
            let e = local_entry(d, step, matches!(r, Req::Delete(_)));
            match doc.entries.put(&e) {
                PutOutcome::Inserted { removed } => {
                    doc.subscribers -= doc.dead;
                    doc.dead = 0;
                    if matches!(r, Req::Delete(_)) {
                        format!("Ok({removed})")
                    } else {
                        ok
                    }
                }
                PutOutcome::Superseded => err,
            }
        }
        Req::GetExact(d) => {
            let doc = &m[d as usize];
            if !doc.open() {
                return err;
            }
            let e = doc
                .entries
                .get(&author(0).id(), b"k")
                .filter(|e| Val::of(e) != Some(Val::Del));
            format!("Ok({})", e.map(crate::universe::show_entry).unwrap_or("None".into()))
        }
        Req::GetMany(d) => {
            let doc = &m[d as usize];
            if !doc.open() {
                return err;
            }
            format!("Ok({})", show_entries(&doc.entries.dump()))
        }
        Req::Subscribe(d) => {
            let doc = &mut m[d as usize];
            if !doc.open() {
                return err;
            }
            doc.subscribers += 1;
            doc.unsubscribable += 1;
            ok
        }
        Req::Unsubscribe(d) => {
            let doc = &mut m[d as usize];
            if !doc.open() {
                return err;
            }
            if doc.unsubscribable > 0 {
                doc.unsubscribable -= 1;
                doc.subscribers -= 1;
            }
            ok
        }
        Req::Drop(d) => {
            let doc = &mut m[d as usize];
            let closed = doc.close_one();
            if closed {
                let existed = doc.exists;
                *doc = Doc::default();
                let _ = existed;
                ok
            } else {
                err
            }
        }
        Req::Import(d) => {
            m[d as usize].exists = true;
            m[d as usize].writable = true;
            ok
        }
        Req::ImportRead(d) => {
            m[d as usize].exists = true;
            ok
        }
        Req::InsertRemote(d) => {
            let doc = &mut m[d as usize];
            if !doc.open() || !doc.sync {
                return err;
            }
            match doc.entries.put(&remote_entry(d)) {
                PutOutcome::Inserted { .. } => {
                    doc.subscribers -= doc.dead;
                    doc.dead = 0;
                    ok
                }
                PutOutcome::Superseded => err,
            }
        }
        Req::SyncInitial(d) | Req::SyncProcess(d) | Req::SyncProcessLater(d) => {
            let doc = &m[d as usize];
            if doc.open() && doc.sync {
                ok
            } else {
                err
            }
        }
        Req::GetState(d) => {
            let doc = &m[d as usize];
            if !doc.open() {
                return err;
            }
            format!("Ok(sync={} subs={} handles={})", doc.sync, doc.subscribers, doc.handles)
        }
        Req::SetPolicy(d) => {
            let doc = &mut m[d as usize];
            if !doc.exists {
                return err;
            }
            doc.policy_set = true;
            ok
        }
        Req::RegisterPeer(d) => {
            let doc = &mut m[d as usize];
            if !doc.exists {
                return err;
            }
            doc.peer_registered = true;
            ok
        }
    }
}

fn the_policy() -> iroh_docs::store::DownloadPolicy {
    iroh_docs::store::DownloadPolicy::NothingExcept(vec![iroh_docs::store::FilterKind::Prefix(
        bytes::Bytes::from_static(b"k"),
    )])
}

type Subs = [Vec<(async_channel::Sender<Event>, async_channel::Receiver<Event>)>; 2];

/// The request as a future producing the canonical reply string.
fn issue<'a>(
    h: &'a SyncHandle,
    r: Req,
    _step: usize,
    subs: &'a std::cell::RefCell<Subs>,
    keep: &'a std::cell::RefCell<Vec<async_channel::Receiver<Event>>>,
) -> Pin<Box<dyn Future<Output = String> + 'a>> {
    let res = |r: anyhow::Result<()>| if r.is_ok() { "Ok".to_string() } else { "Err".to_string() };
    Box::pin(async move {
        match r {
            Req::Open(d) => res(h.open(ns_id(d), OpenOpts::default()).await),
            Req::OpenSync(d) => res(h.open(ns_id(d), OpenOpts::default().sync()).await),
            Req::OpenSub(d) => {
                let (tx, rx) = async_channel::unbounded();
                keep.borrow_mut().push(rx);
                res(h.open(ns_id(d), OpenOpts::default().subscribe(tx)).await)
            }
            Req::OpenSubDead(d) => {
                let (tx, rx) = async_channel::unbounded();
                drop(rx);
                res(h.open(ns_id(d), OpenOpts::default().subscribe(tx)).await)
            }
            Req::Close(d) => match h.close(ns_id(d)).await {
                Ok(b) => format!("Ok({b})"),
                Err(_) => "Err".into(),
            },
            Req::SyncOn(d) => res(h.set_sync(ns_id(d), true).await),
            Req::SyncOff(d) => res(h.set_sync(ns_id(d), false).await),
            Req::Insert(d) => {
                // the timestamp is taken by the actor thread when it processes the request; the
                // clock is process-global, so pin it per request only in sequential mode. In
                // pipelined mode the harness pre-pins nothing: see `exec` (timestamps differ,
                // and the comparison there ignores them).
                let (hash, len) = Val::X.hash_len();
                res(h
                    .insert_local(ns_id(d), author(0).id(), bytes::Bytes::from_static(b"k"), hash, len)
                    .await)
            }
            Req::Delete(d) => match h
                .delete_prefix(ns_id(d), author(0).id(), bytes::Bytes::from_static(b"k"))
                .await
            {
                Ok(n) => format!("Ok({n})"),
                Err(_) => "Err".into(),
            },
            Req::GetExact(d) => match h
                .get_exact(ns_id(d), author(0).id(), bytes::Bytes::from_static(b"k"), false)
                .await
            {
                Ok(e) => format!("Ok({})", e.as_ref().map(crate::universe::show_entry).unwrap_or("None".into())),
                Err(_) => "Err".into(),
            },
            Req::GetMany(d) => {
                match handle_get_many(h, ns_id(d), Query::all().include_empty().build()).await {
                    Ok(v) => format!("Ok({})", show_entries(&v)),
                    Err(_) => "Err".into(),
                }
            }
            Req::Subscribe(d) => {
                // registered in the harness's bookkeeping when the request is issued (a later
                // unsubscribe that is queued right behind it must name this channel), taken out
                // again if the request fails
                let (tx, rx) = async_channel::unbounded();
                subs.borrow_mut()[d as usize].push((tx.clone(), rx));
                let r = h.subscribe(ns_id(d), tx.clone()).await;
                if r.is_err() {
                    let mut s = subs.borrow_mut();
                    if let Some(pos) = s[d as usize].iter().rposition(|(t, _)| t.same_channel(&tx)) {
                        let (_, rx) = s[d as usize].remove(pos);
                        keep.borrow_mut().push(rx);
                    }
                }
                res(r)
            }
            Req::Unsubscribe(d) => {
                let pair = subs.borrow_mut()[d as usize].pop();
                let (tx, rx) = pair.unwrap_or_else(async_channel::unbounded);
                let r = h.unsubscribe(ns_id(d), tx).await;
                keep.borrow_mut().push(rx);
                res(r)
            }
            Req::Drop(d) => res(h.drop_replica(ns_id(d)).await),
            Req::Import(d) => res(h
                .import_namespace(Capability::Write(ns_secret(d)))
                .await
                .map(|_| ())),
            Req::ImportRead(d) => res(h.import_namespace(Capability::Read(ns_id(d))).await.map(|_| ())),
            Req::InsertRemote(d) => res(h
                .insert_remote(ns_id(d), remote_entry(d), PEER, ContentStatus::Missing)
                .await),
            Req::SyncInitial(d) => res(h.sync_initial_message(ns_id(d)).await.map(|_| ())),
            Req::SyncProcess(d) | Req::SyncProcessLater(d) => {
                // the opening message of an empty peer replica: a fingerprint, no entries
                let msg = {
                    let mut peer = Sut::memory_with(&[d]);
                    peer.sync_initial(ns_id(d)).expect("initial")
                };
                let mut progress = iroh_docs::SyncOutcome::default();
                if matches!(r, Req::SyncProcessLater(_)) {
                    progress.num_recv = 3;
                    progress.num_sent = 2;
                }
                res(h
                    .sync_process_message(ns_id(d), msg, PEER, progress)
                    .await
                    .map(|_| ()))
            }
            Req::GetState(d) => match h.get_state(ns_id(d)).await {
                Ok(s) => format!("Ok(sync={} subs={} handles={})", s.sync, s.subscribers, s.handles),
                Err(_) => "Err".into(),
            },
            Req::SetPolicy(d) => res(h.set_download_policy(ns_id(d), the_policy()).await),
            Req::RegisterPeer(d) => res(h.register_useful_peer(ns_id(d), PEER).await),
        }
    })
}

fn fresh_handle() -> SyncHandle {
    let mut store = Store::memory();
    store
        .import_namespace(Capability::Write(ns_secret(0)))
        .expect("import");
    store.import_author(author(0)).expect("author");
    SyncHandle::spawn(store, None, "c14".into())
}

/// Strip timestamps from a reply (pipelined mode cannot pin the clock per request).
fn strip_ts(s: &str) -> String {
    let mut out = String::new();
    let mut chars = s.chars().peekable();
    while let Some(c) = chars.next() {
        out.push(c);
        if c == '@' {
            while chars.peek().map(|c| c.is_ascii_digit()).unwrap_or(false) {
                chars.next();
            }
        }
    }
    out
}

type Bad = Vec<(&'static str, Value, String)>;

fn exec(hist: &[Req]) -> (Bad, String, String) {
    let mut bad: Bad = vec![];
    // ---------------- sequential ----------------
    let mut m: [Doc; 2] = Default::default();
    m[0].exists = true;
    m[0].writable = true;
    let mut want = vec![];
    let h = fresh_handle();
    let subs = std::cell::RefCell::new(Subs::default());
    let keep = std::cell::RefCell::new(vec![]);
    let mut got = vec![];
    for (i, r) in hist.iter().enumerate() {
        set_clock(T0 + 10 + i as u64);
        let g = block_on_park(issue(&h, *r, i, &subs, &keep));
        set_clock(NOW);
        let w = model_step(&mut m, *r, i);
        if g != w && i + 1 == hist.len() {
            let gate = matches!(r, Req::InsertRemote(_) | Req::SyncInitial(_));
            bad.push((
                "reply_equals_model",
                json!({"request": format!("{r:?}").split('(').next().unwrap_or("").to_string(), "sync_gated": gate, "impl_ok": g.starts_with("Ok"), "model_ok": w.starts_with("Ok")}),
                format!("request {i} {r:?}: impl={g} model={w}"),
            ));
        }
        got.push(g);
        want.push(w);
    }
    // observable state after the history; the kind of transaction the actor's store holds is
    // hidden state that later requests may depend on, so it belongs to the canonical key (asked
    // first: the other observations below may change it)
    let mut key = String::new();
    key.push_str(block_on_park(h.verif_transaction_kind()).unwrap_or("?"));
    key.push('|');
    for d in 0..2u8 {
        let st = block_on_park(h.get_state(ns_id(d))).ok();
        let doc = &m[d as usize];
        let w = doc.open().then_some((doc.sync, doc.subscribers, doc.handles));
        let g = st.map(|s| (s.sync, s.subscribers, s.handles));
        if g != w {
            bad.push((
                "open_state_equals_model",
                json!({"handles_differ": g.map(|x| x.2) != w.map(|x| x.2), "sync_differs": g.map(|x| x.0) != w.map(|x| x.0), "subscribers_differ": g.map(|x| x.1) != w.map(|x| x.1)}),
                format!("doc {d}: get_state={g:?} model={w:?}"),
            ));
        }
        key.push_str(&format!("{g:?}|"));
    }
    let store = block_on_park(h.shutdown()).expect("shutdown");
    let mut s2 = Sut { store };
    let listed: Vec<u8> = {
        let mut v: Vec<u8> = s2
            .store
            .list_namespaces()
            .expect("list")
            .map(|r| if r.expect("ns").0 == ns_id(0) { 0 } else { 1 })
            .collect();
        v.sort();
        v
    };
    let want_listed: Vec<u8> = (0..2u8).filter(|d| m[*d as usize].exists).collect();
    if listed != want_listed {
        bad.push((
            "shutdown_store_equals_model",
            json!({"what": "documents"}),
            format!("documents in the returned store {listed:?} model {want_listed:?}"),
        ));
    }
    for d in 0..2u8 {
        let dump = s2.dump(ns_id(d));
        let w = m[d as usize].entries.dump();
        if dump != w {
            bad.push((
                "shutdown_store_equals_model",
                json!({"what": "entries"}),
                format!(
                    "doc {d}: returned store holds {} model {}",
                    show_entries(&dump),
                    show_entries(&w)
                ),
            ));
        }
        key.push_str(&show_entries(&dump));
        key.push('|');
        // policy and useful peers of the returned store
        let doc = &m[d as usize];
        let pol = s2.store.get_download_policy(&ns_id(d)).expect("policy");
        let want_pol = if doc.policy_set { the_policy() } else { Default::default() };
        if pol != want_pol {
            bad.push((
                "shutdown_store_equals_model",
                json!({"what": "policy"}),
                format!("doc {d}: returned store has policy {pol:?}, model {want_pol:?}"),
            ));
        }
        let peers: Option<Vec<[u8; 32]>> = s2.store.get_sync_peers(&ns_id(d)).expect("peers").map(|i| i.collect());
        let want_peers = doc.peer_registered.then(|| vec![PEER]);
        if peers != want_peers {
            bad.push((
                "shutdown_store_equals_model",
                json!({"what": "peers"}),
                format!("doc {d}: returned store lists peers {:?}, model {:?}", peers.as_ref().map(|v| v.len()), want_peers.as_ref().map(|v| v.len())),
            ));
        }
        key.push_str(&format!("{}{}|", doc.policy_set as u8, doc.peer_registered as u8));
    }
    key.push_str(&format!("{listed:?}"));
    drop(s2);
    drop(keep);
    drop(subs);

    // ---------------- pipelined ----------------
    if hist.len() >= 2 {
        let h = fresh_handle();
        let subs = std::cell::RefCell::new(Subs::default());
        let keep = std::cell::RefCell::new(vec![]);
        set_clock(T0 + 10);
        let mut futs: Vec<Pin<Box<dyn Future<Output = String> + '_>>> = hist
            .iter()
            .enumerate()
            .map(|(i, r)| issue(&h, *r, i, &subs, &keep))
            .collect();
        // first poll of each future, in order: enqueues the request (the queue never fills here)
        let waker = std::task::Waker::noop();
        let mut cx = std::task::Context::from_waker(waker);
        let mut early: Vec<Option<String>> = vec![];
        for f in futs.iter_mut() {
            match f.as_mut().poll(&mut cx) {
                std::task::Poll::Ready(v) => early.push(Some(v)),
                std::task::Poll::Pending => early.push(None),
            }
        }
        let mut piped = vec![];
        for (f, e) in futs.into_iter().zip(early) {
            piped.push(match e {
                Some(v) => v,
                None => block_on_park(f),
            });
        }
        set_clock(NOW);
        // timestamps of local writes differ from the sequential run: compare modulo timestamps;
        // with one pinned clock value for all requests a second insert at the same key is
        // superseded, so replies of later writes may legitimately be Err: compare only requests
        // that are not local writes, plus writes when the history holds a single write per doc
        let writes_per_doc = |d: u8| {
            hist.iter()
                .filter(|r| matches!(r, Req::Insert(x) | Req::Delete(x) if *x == d))
                .count()
        };
        let comparable = writes_per_doc(0) <= 1 && writes_per_doc(1) <= 1;
        if comparable {
            for (i, (p, w)) in piped.iter().zip(want.iter()).enumerate() {
                if strip_ts(p) != strip_ts(w) {
                    bad.push((
                        "pipelined_reply_equals_model",
                        json!({"request": format!("{:?}", hist[i]).split('(').next().unwrap_or("").to_string()}),
                        format!("pipelined request {i} {:?}: impl={p} model={w}", hist[i]),
                    ));
                }
            }
        }
        let _ = block_on_park(h.shutdown());
        drop(keep);
        drop(subs);
    }
    let observed = got.last().cloned().unwrap_or_default();
    (bad, key, observed)
}

/// Family S: a second client stops the actor while requests of the first are queued around the
/// stop request. Everything is enqueued back-to-back in the order `hist[..k]`, shutdown,
/// `hist[k..]`; then all replies are collected. Every request must be answered (a reply or an
/// error, never silence), the requests before the stop as the model says, the ones behind it with
/// an error, and the store handed back must hold exactly the state after `hist[..k]`.
fn exec_shutdown(hist: &[Req], k: usize, deadline: std::time::Duration) -> Bad {
    let mut bad: Bad = vec![];
    let mut m: [Doc; 2] = Default::default();
    m[0].exists = true;
    m[0].writable = true;
    let want: Vec<String> = hist[..k].iter().enumerate().map(|(i, r)| model_step(&mut m, *r, i)).collect();
    let h = fresh_handle();
    let h2 = h.clone();
    let subs = std::cell::RefCell::new(Subs::default());
    let keep = std::cell::RefCell::new(vec![]);
    set_clock(T0 + 10);
    enum Out {
        Reply(String),
        Store(Option<Store>),
    }
    let mut futs: Vec<Pin<Box<dyn Future<Output = Out> + '_>>> = vec![];
    for (i, r) in hist.iter().enumerate() {
        if i == k {
            futs.push(Box::pin(async { Out::Store(h2.shutdown().await.ok()) }));
        }
        let f = issue(&h, *r, i, &subs, &keep);
        futs.push(Box::pin(async move { Out::Reply(f.await) }));
    }
    if k == hist.len() {
        futs.push(Box::pin(async { Out::Store(h2.shutdown().await.ok()) }));
    }
    struct Parker(std::thread::Thread);
    impl std::task::Wake for Parker {
        fn wake(self: std::sync::Arc<Self>) {
            self.0.unpark();
        }
    }
    let waker = std::task::Waker::from(std::sync::Arc::new(Parker(std::thread::current())));
    let mut cx = std::task::Context::from_waker(&waker);
    let mut outs: Vec<Option<Out>> = futs.iter().map(|_| None).collect();
    let start = std::time::Instant::now();
    loop {
        let mut pending = false;
        for (f, o) in futs.iter_mut().zip(outs.iter_mut()) {
            if o.is_none() {
                match f.as_mut().poll(&mut cx) {
                    std::task::Poll::Ready(v) => *o = Some(v),
                    std::task::Poll::Pending => pending = true,
                }
            }
        }
        if !pending || start.elapsed() > deadline {
            break;
        }
        std::thread::park_timeout(std::time::Duration::from_millis(2));
    }
    set_clock(NOW);
    drop(futs);
    let writes = hist[..k].iter().filter(|r| matches!(r, Req::Insert(_) | Req::Delete(_))).count();
    let mut ri = 0usize;
    for (slot, o) in outs.into_iter().enumerate() {
        let is_shutdown = slot == k;
        match o {
            None => bad.push((
                "every_request_is_answered",
                json!({"request": if is_shutdown { "Shutdown".to_string() } else { format!("{:?}", hist[ri]).split('(').next().unwrap_or("").to_string() }, "behind_the_stop": !is_shutdown && ri >= k}),
                format!("no reply within {deadline:?} to {} (queue order: {:?}, stop request at position {k})", if is_shutdown { "the stop request".to_string() } else { format!("request {ri} {:?}", hist[ri]) }, hist),
            )),
            Some(Out::Store(None)) => bad.push(("shutdown_hands_back_the_store", json!({}), "shutdown returned an error".into())),
            Some(Out::Store(Some(store))) => {
                let mut s2 = Sut { store };
                for d in 0..2u8 {
                    if !m[d as usize].exists {
                        continue;
                    }
                    let dump = s2.dump(ns_id(d));
                    let w = m[d as usize].entries.dump();
                    if writes <= 1 && show_entries(&dump).len() != show_entries(&w).len() || dump.len() != w.len() {
                        bad.push((
                            "shutdown_store_equals_model",
                            json!({"what": "entries", "queued_around_stop": true}),
                            format!("doc {d}: the store handed back holds {}, the requests acknowledged before the stop give {}", show_entries(&dump), show_entries(&w)),
                        ));
                    }
                }
            }
            // get_many answers through a stream that a stopping actor simply ends (its streaming
            // tasks are aborted, and a dropped request drops the stream's sender): the stream API
            // cannot carry "not processed", so for this request only "the stream ends" is checked
            Some(Out::Reply(_)) if matches!(hist[ri], Req::GetMany(_)) => {}
            Some(Out::Reply(g)) => {
                if ri < k {
                    if writes <= 1 && strip_ts(&g) != strip_ts(&want[ri]) {
                        bad.push((
                            "pipelined_reply_equals_model",
                            json!({"request": format!("{:?}", hist[ri]).split('(').next().unwrap_or("").to_string(), "before_stop": true}),
                            format!("request {ri} {:?} queued before the stop: impl={g} model={}", hist[ri], want[ri]),
                        ));
                    }
                } else if g.starts_with("Ok") {
                    bad.push((
                        "request_behind_the_stop_fails",
                        json!({"request": format!("{:?}", hist[ri]).split('(').next().unwrap_or("").to_string()}),
                        format!("request {ri} {:?} queued behind the stop request was answered {g}", hist[ri]),
                    ));
                }
            }
        }
        if !is_shutdown {
            ri += 1;
        }
    }
    drop(keep);
    drop(subs);
    bad
}

/// Family A: requests whose client stops waiting. The actor is stalled on purpose (document 0 is
/// open with a subscriber whose channel holds one event; the first write fills it, the second
/// write makes the actor wait for room), then the requests `xs` are put into the queue and their
/// futures dropped at once (a timeout, a `select!`, fire-and-forget), then the observing requests
/// are queued; only then the subscriber is drained. The abandoned requests were issued before the
/// observing ones, so the observers' replies and the store handed back by shutdown must reflect
/// them exactly as if their replies had been awaited.
fn exec_abandoned(xs: &[Req], deadline: std::time::Duration) -> Bad {
    let mut bad: Bad = vec![];
    let mut m: [Doc; 2] = Default::default();
    m[0].exists = true;
    m[0].writable = true;
    let h = fresh_handle();
    let subs = std::cell::RefCell::new(Subs::default());
    let keep = std::cell::RefCell::new(vec![]);
    // set-up (awaited): open document 0 with sync and a one-slot subscriber, first write
    let (tx1, rx1) = async_channel::bounded(1);
    block_on_park(h.open(ns_id(0), OpenOpts::default().sync().subscribe(tx1))).expect("open");
    model_step(&mut m, Req::OpenSync(0), 0);
    m[0].subscribers += 1;
    set_clock(T0 + 10);
    let r0 = block_on_park(issue(&h, Req::Insert(0), 0, &subs, &keep));
    let w0 = model_step(&mut m, Req::Insert(0), 0);
    if r0 != w0 {
        bad.push(("reply_equals_model", json!({"request": "Insert", "set_up": true}), format!("set-up insert: impl={r0} model={w0}")));
    }
    let waker = std::task::Waker::noop();
    let mut cx = std::task::Context::from_waker(waker);
    // second write: its event does not fit, the actor waits inside this request
    set_clock(T0 + 11);
    let mut stall = issue(&h, Req::Delete(0), 1, &subs, &keep);
    let stall_early = match stall.as_mut().poll(&mut cx) {
        std::task::Poll::Ready(v) => Some(v),
        std::task::Poll::Pending => None,
    };
    let w_stall = model_step(&mut m, Req::Delete(0), 1);
    // the clock stays at this value until the end: whenever the actor gets to stamp the queued
    // writes, it reads the same time (the model uses the same timestamp for all of them)
    // abandoned requests: queued, then forgotten
    for (j, x) in xs.iter().enumerate() {
        let mut f = issue(&h, *x, 2 + j, &subs, &keep);
        let _ = f.as_mut().poll(&mut cx);
        drop(f);
        model_step(&mut m, *x, 1);
    }
    // observers
    // (a write to document 1 among the observers, unless an abandoned write to it is queued: all
    // queued writes are stamped with the same pinned clock, and a second identical write is
    // rightly refused, which the per-step timestamps of the model do not reproduce)
    let mut observers = vec![Req::GetState(0), Req::GetState(1), Req::GetExact(0), Req::GetMany(0), Req::GetMany(1)];
    if !xs.iter().any(|x| matches!(x, Req::Insert(1) | Req::Delete(1))) {
        observers.extend([Req::Insert(1), Req::GetMany(1)]);
    }
    let mut futs: Vec<Pin<Box<dyn Future<Output = String> + '_>>> = vec![];
    let mut wants = vec![];
    for (j, o) in observers.iter().enumerate() {
        futs.push(issue(&h, *o, 10 + j, &subs, &keep));
        wants.push(model_step(&mut m, *o, 10 + j));
    }
    let mut outs: Vec<Option<String>> = vec![None; futs.len()];
    let mut stall_out = stall_early;
    let start = std::time::Instant::now();
    loop {
        // drain the subscriber: the actor gets going again
        while rx1.try_recv().is_ok() {}
        let mut pending = false;
        if stall_out.is_none() {
            match stall.as_mut().poll(&mut cx) {
                std::task::Poll::Ready(v) => stall_out = Some(v),
                std::task::Poll::Pending => pending = true,
            }
        }
        for (f, o) in futs.iter_mut().zip(outs.iter_mut()) {
            if o.is_none() {
                match f.as_mut().poll(&mut cx) {
                    std::task::Poll::Ready(v) => *o = Some(v),
                    std::task::Poll::Pending => pending = true,
                }
            }
        }
        if !pending || start.elapsed() > deadline {
            break;
        }
        std::thread::sleep(std::time::Duration::from_micros(200));
    }
    set_clock(NOW);
    drop(futs);
    drop(stall);
    let xs_show = format!("{xs:?}");
    match stall_out {
        None => bad.push(("every_request_is_answered", json!({"request": "Delete", "abandoned_family": true}), format!("no reply to the stalled write within {deadline:?} (abandoned: {xs_show})"))),
        Some(g) if strip_ts(&g) != strip_ts(&w_stall) => bad.push(("reply_equals_model", json!({"request": "Delete", "abandoned_family": true}), format!("stalled write: impl={g} model={w_stall}"))),
        _ => {}
    }
    for ((o, g), w) in observers.iter().zip(outs).zip(wants) {
        match g {
            None => bad.push(("every_request_is_answered", json!({"request": format!("{o:?}").split('(').next().unwrap_or("").to_string(), "abandoned_family": true}), format!("no reply to {o:?} within {deadline:?} (abandoned before it: {xs_show})"))),
            Some(g) => {
                if strip_ts(&g) != strip_ts(&w) {
                    bad.push((
                        "replies_reflect_abandoned_requests",
                        json!({"abandoned": xs.iter().map(|x| format!("{x:?}").split('(').next().unwrap_or("").to_string()).collect::<Vec<_>>(), "observer": format!("{o:?}").split('(').next().unwrap_or("").to_string()}),
                        format!("requests {xs_show} were queued and their futures dropped; the later request {o:?} was answered {g}, with the abandoned requests applied the model answers {w}"),
                    ));
                }
            }
        }
    }
    match block_on_park(h.shutdown()) {
        Err(e) => bad.push(("shutdown_hands_back_the_store", json!({"abandoned_family": true}), format!("shutdown failed: {e:#}"))),
        Ok(store) => {
            let mut s2 = Sut { store };
            let listed: Vec<u8> = {
                let mut v: Vec<u8> = s2.store.list_namespaces().expect("list").map(|r| if r.expect("ns").0 == ns_id(0) { 0 } else { 1 }).collect();
                v.sort();
                v
            };
            let want_listed: Vec<u8> = (0..2u8).filter(|d| m[*d as usize].exists).collect();
            if listed != want_listed {
                bad.push(("shutdown_store_equals_model", json!({"what": "documents", "abandoned_family": true}), format!("abandoned {xs_show}: documents in the returned store {listed:?}, model {want_listed:?}")));
            }
            for d in 0..2u8 {
                if !m[d as usize].exists || !listed.contains(&d) {
                    continue;
                }
                let dump = s2.dump(ns_id(d));
                let w = m[d as usize].entries.dump();
                if strip_ts(&show_entries(&dump)) != strip_ts(&show_entries(&w)) {
                    bad.push(("shutdown_store_equals_model", json!({"what": "entries", "abandoned_family": true}), format!("abandoned {xs_show}: doc {d} of the returned store holds {}, model {}", show_entries(&dump), show_entries(&w))));
                }
                let pol = s2.store.get_download_policy(&ns_id(d)).expect("policy");
                let want_pol = if m[d as usize].policy_set { the_policy() } else { Default::default() };
                if pol != want_pol {
                    bad.push(("shutdown_store_equals_model", json!({"what": "policy", "abandoned_family": true}), format!("abandoned {xs_show}: doc {d} policy {pol:?}, model {want_pol:?}")));
                }
                let peers: Option<Vec<[u8; 32]>> = s2.store.get_sync_peers(&ns_id(d)).expect("peers").map(|i| i.collect());
                let want_peers = m[d as usize].peer_registered.then(|| vec![PEER]);
                if peers != want_peers {
                    bad.push(("shutdown_store_equals_model", json!({"what": "peers", "abandoned_family": true}), format!("abandoned {xs_show}: doc {d} peers {:?}, model {:?}", peers.as_ref().map(|v| v.len()), want_peers.as_ref().map(|v| v.len()))));
                }
            }
        }
    }
    drop(keep);
    drop(subs);
    bad
}

fn run_abandoned_family(ctx: &Ctx, report: &mut Report) {
    // (subscribe / unsubscribe are left out: their channel lives inside the request future, so an
    // abandoned one is a subscriber whose receiver is gone, which the next event rightly removes)
    let reqs: Vec<Req> = requests().into_iter().filter(|r| !matches!(r, Req::Subscribe(_) | Req::Unsubscribe(_))).collect();
    let mut ordinal = 1u64 << 41;
    let mut cases: Vec<Vec<Req>> = reqs.iter().map(|r| vec![*r]).collect();
    for a in &reqs {
        for b in &reqs {
            cases.push(vec![*a, *b]);
        }
    }
    // an upgrade of an open document whose requester has stopped waiting
    cases.push(vec![Req::ImportRead(1), Req::Open(1), Req::Import(1)]);
    cases.push(vec![Req::ImportRead(1), Req::OpenSub(1), Req::Import(1)]);
    cases.push(vec![Req::ImportRead(1), Req::OpenSync(1), Req::Import(1), Req::InsertRemote(1)]);
    if !ctx.quick() {
        // three abandoned requests over the requests that change state
        let ch: Vec<Req> = reqs.iter().copied().filter(|r| !matches!(r, Req::GetExact(_) | Req::GetMany(_) | Req::GetState(_) | Req::SyncInitial(_))).collect();
        for a in &ch {
            for b in &ch {
                for c in &ch {
                    cases.push(vec![*a, *b, *c]);
                }
            }
        }
    }
    for xs in cases {
        ordinal += 1;
        if !ctx.mine(ordinal) {
            continue;
        }
        report.evaluations += 1;
        report.traces += 1;
        report.transitions += xs.len() as u64 + 8;
        report.nontrivial += 1;
        report.count("histories_with_abandoned_requests", 1);
        let case = json!({"abandoned_family": {"xs": xs}});
        let go = |dl: u64| catch(|| exec_abandoned(&xs, std::time::Duration::from_secs(dl)));
        let mut res = go(3);
        if matches!(&res, Ok(b) if b.iter().any(|x| x.0 == "every_request_is_answered")) {
            res = go(30);
        }
        match res {
            Err(p) => report.violation("no_panic", json!({"abandoned_family": true}), case, format!("panic: {p}"), ordinal),
            Ok(bad) => {
                for (o, w, dd) in bad {
                    report.violation(o, w, case.clone(), dd, ordinal);
                }
            }
        }
    }
}

fn shutdown_alphabet() -> Vec<Req> {
    vec![
        Req::OpenSync(0),
        Req::Insert(0),
        Req::GetExact(0),
        Req::GetMany(0),
        Req::GetState(0),
        Req::Close(0),
        Req::InsertRemote(0),
        Req::SyncInitial(0),
        Req::SetPolicy(0),
        Req::Import(1),
    ]
}

fn run_shutdown_family(ctx: &Ctx, report: &mut Report) {
    let alpha = shutdown_alphabet();
    let depth = if ctx.quick() { 2 } else { 3 };
    let mut ordinal = 1u64 << 40;
    for d in 1..=depth {
        crate::util::for_each_sequence(alpha.len(), d, |ix| {
            let hist: Vec<Req> = ix.iter().map(|&i| alpha[i]).collect();
            for k in 0..=hist.len() {
                ordinal += 1;
                if !ctx.mine(ordinal) {
                    continue;
                }
                report.evaluations += 1;
                report.traces += 1;
                report.transitions += hist.len() as u64 + 1;
                if k < hist.len() {
                    report.nontrivial += 1;
                }
                report.count("histories_with_a_stop_request_queued_between_requests", 1);
                let case = json!({"shutdown_family": {"hist": hist, "k": k}});
                let go = |dl: u64| catch(|| exec_shutdown(&hist, k, std::time::Duration::from_secs(dl)));
                let mut res = go(3);
                if matches!(&res, Ok(b) if b.iter().any(|x| x.0 == "every_request_is_answered")) {
                    // hang detector rule: re-run once with a tenfold deadline
                    res = go(30);
                }
                match res {
                    Err(p) => report.violation("no_panic", json!({"shutdown_family": true}), case, format!("panic: {p}"), ordinal),
                    Ok(bad) => {
                        for (o, w, dd) in bad {
                            report.violation(o, w, case.clone(), dd, ordinal);
                        }
                    }
                }
            }
        });
    }
}

fn run(ctx: &Ctx, report: &mut Report) {
    crate::util::silence_panics();
    run_shutdown_family(ctx, report);
    run_abandoned_family(ctx, report);
    // many handles: 300 opens (the first with sync), all but one closed again, the document must
    // still be usable with sync on; the last close closes it. Counts past 255 and 256.
    if ctx.shard == 5 % ctx.of {
        for d in 0..1u8 {
            let mut h: Vec<Req> = vec![Req::OpenSync(d)];
            h.extend(std::iter::repeat(Req::Open(d)).take(299));
            h.push(Req::GetState(d));
            h.extend(std::iter::repeat(Req::Close(d)).take(299));
            h.extend([Req::GetState(d), Req::Insert(d), Req::SyncInitial(d), Req::Close(d), Req::GetState(d), Req::Insert(d), Req::Close(d)]);
            let case = json!({"hist": h});
            report.evaluations += 1;
            report.nontrivial += 1;
            report.count("many_handles_histories", 1);
            match catch(|| exec(&h)) {
                Err(p) => report.violation("no_panic", json!({"many_handles": true}), case, format!("panic: {p}"), 0),
                Ok((bad, _, _)) => {
                    for (o, w, d) in bad {
                        report.violation(o, w, case.clone(), d, 0);
                    }
                }
            }
        }
    }
    let reqs = requests();
    report.fact("requests", json!(reqs.len()));
    let depth = if ctx.quick() { 4 } else { 6 };
    let mut evals = 0u64;
    let mut nt = 0u64;
    bfs_nd(ctx, report, &reqs, depth, 1, if ctx.quick() { 2 } else { 3 }, |h, report, ordinal| {
        evals += 1;
        let nontrivial = {
            let opens = h.iter().filter(|r| matches!(r, Req::Open(_) | Req::OpenSync(_) | Req::OpenSub(_))).count();
            opens >= 2
                || h.iter().enumerate().any(|(i, r)| {
                    matches!(r, Req::Close(_) | Req::Drop(_))
                        && h[..i].iter().any(|p| matches!(p, Req::Open(_) | Req::OpenSync(_) | Req::OpenSub(_)))
                })
        };
        if nontrivial {
            nt += 1;
        }
        let case = json!({"hist": h});
        match catch(|| exec(h)) {
            Err(p) => {
                report.violation("no_panic", json!({}), case, format!("panic: {p}"), ordinal);
                None
            }
            Ok((bad, key, observed)) => {
                for (o, w, d) in bad {
                    report.violation(o, w, case.clone(), d, ordinal);
                }
                if nontrivial && h.len() >= 4 {
                    report.sample(|| json!({"history": h.iter().map(|r| format!("{r:?}")).collect::<Vec<_>>(), "last_reply": observed}));
                }
                Some(BfsOutcome { key, observed, enabled: None })
            }
        }
    });
    report.evaluations += evals;
    report.nontrivial += nt;
}

fn replay(case: &Value) -> anyhow::Result<(bool, String)> {
    if let Some(c) = case.get("abandoned_family") {
        let xs: Vec<Req> = serde_json::from_value(c["xs"].clone())?;
        return match catch(|| exec_abandoned(&xs, std::time::Duration::from_secs(30))) {
            Err(p) => Ok((true, format!("panic: {p}"))),
            Ok(bad) => {
                let mut out = format!("abandoned requests: {xs:?}\n");
                for (o, _, d) in &bad {
                    out.push_str(&format!("FAILED {o}: {d}\n"));
                }
                Ok((!bad.is_empty(), out))
            }
        };
    }
    if let Some(c) = case.get("shutdown_family") {
        let hist: Vec<Req> = serde_json::from_value(c["hist"].clone())?;
        let k = c["k"].as_u64().unwrap_or(0) as usize;
        return match catch(|| exec_shutdown(&hist, k, std::time::Duration::from_secs(30))) {
            Err(p) => Ok((true, format!("panic: {p}"))),
            Ok(bad) => {
                let mut out = format!("queue order: {:?} + stop request at position {k}\n", hist);
                for (o, _, d) in &bad {
                    out.push_str(&format!("FAILED {o}: {d}\n"));
                }
                Ok((!bad.is_empty(), out))
            }
        };
    }
    let hist: Vec<Req> = serde_json::from_value(case["hist"].clone())?;
    match catch(|| exec(&hist)) {
        Err(p) => Ok((true, format!("panic: {p}"))),
        Ok((bad, key, observed)) => {
            let mut out = format!("history {hist:?}\nlast reply {observed}\nstate {key}\n");
            for (o, _, d) in &bad {
                out.push_str(&format!("FAILED {o}: {d}\n"));
            }
            Ok((!bad.is_empty(), out))
        }
    }
}
