//! C17 — the useful-peer list is a bounded most-recently-used list.

use iroh_docs::{Capability, NamespaceId};
use serde_json::{json, Value};

use super::recon::scratch_dir;
use crate::{
    report::Report,
    sut::Sut,
    universe::{ns_id, ns_secret},
    util::{catch, for_each_sequence},
    Ctx, PropDef, Tier,
};

pub fn def() -> PropDef {
    PropDef {
        id: "C17",
        level: "model_checking",
        rule: "(A) every registration sequence of length <= d over 7 peers on one document, and every sequence one step shorter over 7 peers plus the question (get_sync_peers asked in the middle of the history); (B) every (state, event) edge of the complete state graph of one document (all 3620 ordered lists of <= 5 distinct peers out of 7, each built canonically, x 7 registrations), the successor compared with the canonically built successor state; (C) two documents pre-filled to capacity plus an unknown document: every sequence of length <= d2 over {register peer p on doc i, register on unknown doc}; (D) reopen of a file-backed store at every prefix of every sequence of (A) up to length 4; (E) every sequence of length <= d3 over {register peer 1|2, create, remove} x {a document that exists, a document that does not}: a registration must fail exactly while the document does not exist (never created or removed), fail without effect, and a re-created document starts with an empty list (memory, and file-backed with a reopen at the end); the hook clock yields strictly increasing nanos; oracle = a Vec MRU of capacity 5; non-trivial = the sequence re-registers a peer or exceeds the capacity; family M: store files of the redb 2.x format (written here with redb 3 and the legacy tuple types) holding 0, 1, 3, 5 registered peers are opened with Store::persistent, which converts them: the list must be the one stored; family R: registration sequences on the machine's own clock (no clock hook) with a file-backed store reopened at every prefix",
        assumptions: &[
            "the nanosecond clock is strictly increasing (hook); equal nanos / clock regressions are outside the statement",
        ],
        bound: |t| match t {
            Tier::Quick => json!({"A": "depth <= 6 (137k sequences)", "B": "3620 states x 7 events", "C": "depth <= 3 over 15 symbols from a full state", "D": "depth <= 4, file-backed", "E": "depth <= 5 over 8 symbols; file-backed depth <= 3"}),
            Tier::Thorough => json!({"A": "depth <= 7 (960k sequences)", "B": "3620 states x 7 events", "C": "depth <= 4 over 15 symbols from a full state", "D": "depth <= 5, file-backed", "E": "depth <= 6 over 8 symbols; file-backed depth <= 4"}),
        },
        run,
        replay,
        shards: |_| 16,
    }
}

fn peer(i: u8) -> [u8; 32] {
    let mut p = [0x33u8; 32];
    p[0] = i;
    p
}

fn unknown_doc() -> NamespaceId {
    NamespaceId::from(&[0x77u8; 32])
}

#[derive(Debug, Clone, Default, PartialEq, Eq)]
struct Mru(Vec<u8>);

impl Mru {
    fn register(&mut self, p: u8) {
        self.0.retain(|x| *x != p);
        self.0.insert(0, p);
        self.0.truncate(5);
    }
}

fn get(sut: &mut Sut, ns: &NamespaceId) -> Option<Vec<[u8; 32]>> {
    sut.store
        .get_sync_peers(ns)
        .expect("get_sync_peers")
        .map(|i| i.collect())
}

fn want(m: &Mru) -> Option<Vec<[u8; 32]>> {
    if m.0.is_empty() {
        None
    } else {
        Some(m.0.iter().map(|p| peer(*p)).collect())
    }
}

/// op: (doc 0|1|2=unknown, peer)
type Op = (u8, u8);

/// Family R runs with the machine's own clock (the hook clock is the default elsewhere so that
/// registration order and time order agree exactly; here the store has to get that right by
/// itself, across a reopen in particular).
static REAL_CLOCK: std::sync::atomic::AtomicBool = std::sync::atomic::AtomicBool::new(false);

fn run_ops(
    pre: &[Op],
    ops: &[Op],
    file_reopen_at: Option<usize>,
) -> (Vec<(&'static str, String)>, String) {
    let real_clock = REAL_CLOCK.load(std::sync::atomic::Ordering::SeqCst);
    iroh_docs::verif::set_clock_nanos(if real_clock { None } else { Some(1_000_000) });
    let mut bad = vec![];
    let dir = file_reopen_at.map(|_| scratch_dir());
    let path = dir.as_ref().map(|d| d.path().join("docs.redb"));
    let mut sut = match &path {
        Some(p) => Sut::persistent(p).expect("store"),
        None => Sut::memory(),
    };
    for i in [0u8, 1] {
        sut.store
            .import_namespace(Capability::Write(ns_secret(i)))
            .expect("import");
    }
    let mut model = [Mru::default(), Mru::default()];
    let doc = |d: u8| if d < 2 { ns_id(d) } else { unknown_doc() };
    let n = pre.len() + ops.len();
    for (i, (d, p)) in pre.iter().chain(ops.iter()).enumerate() {
        if *d == 3 {
            // the question asked in the middle of a history (a question is an operation too: it
            // may leave something behind that a later answer is built from)
            for dd in [0u8, 1] {
                let _ = get(&mut sut, &doc(dd));
            }
            continue;
        }
        if real_clock {
            // two registrations are never made within the same instant of the real clock
            std::thread::sleep(std::time::Duration::from_micros(50));
        }
        let res = sut.store.register_useful_peer(doc(*d), peer(*p));
        if *d < 2 {
            if let Err(e) = &res {
                bad.push(("register_ok", format!("step {i} register({d},{p}): {e:#}")));
            }
            model[*d as usize].register(*p);
        } else if res.is_ok() {
            bad.push((
                "unknown_document_fails",
                format!("step {i}: registering for an unknown document succeeded"),
            ));
        }
        if Some(i + 1) == file_reopen_at.map(|k| k.min(n)) {
            // reopen from disk
            drop(sut);
            sut = Sut::persistent(path.as_ref().unwrap()).expect("reopen");
        }
        // check after the last step only (every prefix is its own enumerated sequence), except
        // for the cheap unknown-document clause
        if i + 1 == n {
            for dd in [0u8, 1] {
                let got = get(&mut sut, &doc(dd));
                let w = want(&model[dd as usize]);
                if got != w {
                    bad.push((
                        "list_is_mru_of_capacity_5",
                        format!(
                            "doc {dd}: impl={:?} model={:?}",
                            got.map(|v| v.iter().map(|p| p[0]).collect::<Vec<_>>()),
                            model[dd as usize].0
                        ),
                    ));
                }
            }
            if get(&mut sut, &unknown_doc()).is_some() {
                bad.push((
                    "unknown_document_has_no_peers",
                    "peers listed for an unknown document".to_string(),
                ));
            }
        }
    }
    let rendering = format!("{:?}|{:?}", model[0].0, model[1].0);
    iroh_docs::verif::set_clock_nanos(None);
    (bad, rendering)
}

fn record(
    report: &mut Report,
    family: &str,
    pre: &[Op],
    ops: &[Op],
    reopen: Option<usize>,
    ordinal: u64,
) {
    report.evaluations += 1;
    report.traces += 1;
    report.transitions += ops.len() as u64;
    report.max_depth = report.max_depth.max(ops.len() as u64);
    let nt = {
        let mut per_doc: [Vec<u8>; 3] = Default::default();
        let mut nt = false;
        for (d, p) in pre.iter().chain(ops.iter()).filter(|(d, _)| *d < 3) {
            let l = &mut per_doc[*d as usize];
            if l.contains(p) {
                nt = true;
            } else {
                l.push(*p);
            }
            if l.len() > 5 {
                nt = true;
            }
        }
        nt
    };
    if nt {
        report.nontrivial += 1;
    }
    let real_clock = family == "R";
    let case = json!({"pre": pre, "ops": ops, "reopen_at": reopen, "real_clock": real_clock});
    REAL_CLOCK.store(real_clock, std::sync::atomic::Ordering::SeqCst);
    let result = catch(|| run_ops(pre, ops, reopen));
    REAL_CLOCK.store(false, std::sync::atomic::Ordering::SeqCst);
    match result {
        Err(p) => report.violation(
            "no_panic",
            json!({"family": family}),
            case,
            format!("panic: {p}"),
            ordinal,
        ),
        Ok((bad, rendering)) => {
            report.outcome(rendering.clone());
            for (o, d) in bad {
                report.violation(
                    o,
                    json!({"family": family, "reopen": reopen.is_some()}),
                    case.clone(),
                    d,
                    ordinal,
                );
            }
            if nt && ops.len() >= 5 {
                report.sample(|| json!({"family": family, "ops": ops, "final_lists": rendering}));
            }
        }
    }
}

/// Family E: the life cycle of the documents themselves. (kind, doc, peer): kind 0 = register
/// peer on doc, 1 = create doc, 2 = remove doc. Document 0 exists at the start, document 1 does
/// not ("unknown" until it is created, and again after it has been removed).
type LifeOp = (u8, u8, u8);

fn life_symbols() -> Vec<LifeOp> {
    let mut v = vec![];
    for d in [0u8, 1] {
        for p in [1u8, 2] {
            v.push((0, d, p));
        }
        v.push((1, d, 0));
        v.push((2, d, 0));
    }
    v
}

fn run_life(ops: &[LifeOp], file_backed: bool) -> (Vec<(&'static str, String)>, String) {
    iroh_docs::verif::set_clock_nanos(Some(1_000_000));
    let mut bad = vec![];
    let dir = file_backed.then(scratch_dir);
    let path = dir.as_ref().map(|d| d.path().join("docs.redb"));
    let mut sut = match &path {
        Some(p) => Sut::persistent(p).expect("store"),
        None => Sut::memory(),
    };
    sut.store
        .import_namespace(Capability::Write(ns_secret(0)))
        .expect("import");
    let mut model: [Option<Mru>; 2] = [Some(Mru::default()), None];
    for (i, (kind, d, p)) in ops.iter().enumerate() {
        let ns = ns_id(*d);
        let m = &mut model[*d as usize];
        match kind {
            0 => {
                let res = sut.store.register_useful_peer(ns, peer(*p));
                match (m.as_mut(), res) {
                    (Some(m), Ok(())) => m.register(*p),
                    (Some(_), Err(e)) => bad.push(("register_ok", format!("step {i} {:?}: {e:#}", ops[i]))),
                    (None, Ok(())) => bad.push((
                        "unknown_document_fails",
                        format!("step {i} {:?}: registering for a document that does not exist (never created, or removed) succeeded", ops[i]),
                    )),
                    (None, Err(_)) => {}
                }
            }
            1 => {
                if let Err(e) = sut.store.import_namespace(Capability::Write(ns_secret(*d))) {
                    bad.push(("create_ok", format!("step {i}: {e:#}")));
                }
                if m.is_none() {
                    *m = Some(Mru::default());
                }
            }
            _ => {
                let res = sut.store.remove_replica(&ns);
                if m.is_some() {
                    if let Err(e) = res {
                        bad.push(("remove_ok", format!("step {i}: {e:#}")));
                    }
                }
                *m = None;
            }
        }
        if file_backed && i + 1 == ops.len() {
            drop(sut);
            sut = Sut::persistent(path.as_ref().unwrap()).expect("reopen");
        }
        for dd in [0u8, 1] {
            let got = get(&mut sut, &ns_id(dd));
            let w = model[dd as usize].as_ref().and_then(want);
            if got != w {
                bad.push((
                    "list_is_mru_of_capacity_5",
                    format!(
                        "after step {i} {:?}, doc {dd} ({}): impl={:?} model={:?}",
                        ops[i],
                        if model[dd as usize].is_some() { "exists" } else { "does not exist" },
                        got.map(|v| v.iter().map(|p| p[0]).collect::<Vec<_>>()),
                        model[dd as usize].as_ref().map(|m| m.0.clone())
                    ),
                ));
            }
        }
        if !bad.is_empty() {
            break;
        }
    }
    let rendering = format!("{:?}|{:?}", model[0].as_ref().map(|m| &m.0), model[1].as_ref().map(|m| &m.0));
    iroh_docs::verif::set_clock_nanos(None);
    (bad, rendering)
}

fn record_life(report: &mut Report, ops: &[LifeOp], file_backed: bool, ordinal: u64) {
    report.evaluations += 1;
    report.traces += 1;
    report.transitions += ops.len() as u64;
    report.max_depth = report.max_depth.max(ops.len() as u64);
    // non-trivial: a registration follows a removal or a failed registration of the same document
    let nt = ops.iter().enumerate().any(|(i, (k, d, _))| {
        *k == 0 && ops[..i].iter().any(|(k2, d2, _)| d2 == d && (*k2 == 2 || (*k2 == 0 && *d == 1)))
    });
    if nt {
        report.nontrivial += 1;
    }
    let case = json!({"life": ops, "file_backed": file_backed});
    match catch(|| run_life(ops, file_backed)) {
        Err(p) => report.violation("no_panic", json!({"family": "E"}), case, format!("panic: {p}"), ordinal),
        Ok((bad, rendering)) => {
            report.outcome(format!("E:{rendering}"));
            for (o, d) in bad {
                report.violation(o, json!({"family": "E", "file_backed": file_backed}), case.clone(), d, ordinal);
            }
            if nt && ops.len() >= 4 {
                report.sample(|| json!({"family": "E", "ops": ops, "final_lists": rendering}));
            }
        }
    }
}

fn all_lists() -> Vec<Vec<u8>> {
    // ordered lists of <= 5 distinct peers out of 7
    let mut out = vec![vec![]];
    let mut frontier = vec![vec![]];
    for _ in 0..5 {
        let mut next = vec![];
        for l in &frontier {
            for p in 0..7u8 {
                if !l.contains(&p) {
                    let mut l2: Vec<u8> = l.clone();
                    l2.push(p);
                    next.push(l2);
                }
            }
        }
        out.extend(next.iter().cloned());
        frontier = next;
    }
    out
}

fn old_format_store(n_peers: u8) -> Vec<(&'static str, String)> {
    super::oldfmt::check(n_peers, "C17")
}

fn run(ctx: &Ctx, report: &mut Report) {
    crate::util::silence_panics();
    for n_peers in [0u8, 1, 3, 5] {
        if ctx.shard != (2 + n_peers as u64) % ctx.of {
            continue;
        }
        report.evaluations += 1;
        report.nontrivial += (n_peers > 0) as u64;
        report.count("old_format_store_files", 1);
        let case = json!({"old_format_peers": n_peers});
        match catch(|| old_format_store(n_peers)) {
            Err(p) => report.violation("no_panic", json!({"family": "M"}), case, format!("panic: {p}"), 0),
            Ok(bad) => {
                for (o, d) in bad {
                    if o == "MACHINERY" {
                        report.machinery_error(d);
                    } else {
                        report.violation(o, json!({"family": "M", "old_format": true}), case.clone(), d, 0);
                    }
                }
            }
        }
    }
    let mut ordinal = 0u64;
    let quick = ctx.quick();
    // (A)
    for depth in 1..=(if quick { 6 } else { 7 }) {
        for_each_sequence(7, depth, |seq| {
            ordinal += 1;
            if !ctx.mine(ordinal) {
                return;
            }
            let ops: Vec<Op> = seq.iter().map(|&p| (0u8, p as u8)).collect();
            record(report, "A", &[], &ops, None, ordinal);
        });
    }
    // (A') the same with the question (get_sync_peers) as an eighth symbol, for the sequences that
    // ask at least once before the end
    for depth in 2..=(if quick { 5 } else { 6 }) {
        for_each_sequence(8, depth, |seq| {
            if !seq[..depth - 1].contains(&7) || seq[depth - 1] == 7 {
                return;
            }
            ordinal += 1;
            if !ctx.mine(ordinal) {
                return;
            }
            let ops: Vec<Op> = seq.iter().map(|&p| if p == 7 { (3u8, 0u8) } else { (0u8, p as u8) }).collect();
            record(report, "A", &[], &ops, None, ordinal);
        });
    }
    // (B) every edge of the complete state graph, from canonically built states
    let lists = all_lists();
    report.fact("B_states", json!(lists.len()));
    for l in &lists {
        for p in 0..7u8 {
            ordinal += 1;
            if !ctx.mine(ordinal) {
                continue;
            }
            // most recent first => register in reverse
            let pre: Vec<Op> = l.iter().rev().map(|x| (0u8, *x)).collect();
            record(report, "B", &pre, &[(0, p)], None, ordinal);
        }
    }
    // (C) two full documents + unknown
    let pre: Vec<Op> = (0..5u8)
        .map(|p| (0u8, p))
        .chain((2..7u8).map(|p| (1u8, p)))
        .collect();
    let mut symbols: Vec<Op> = vec![];
    for d in [0u8, 1] {
        for p in 0..7u8 {
            symbols.push((d, p));
        }
    }
    symbols.push((2, 0));
    for depth in 1..=(if quick { 3 } else { 4 }) {
        for_each_sequence(symbols.len(), depth, |seq| {
            ordinal += 1;
            if !ctx.mine(ordinal) {
                return;
            }
            let ops: Vec<Op> = seq.iter().map(|&i| symbols[i]).collect();
            record(report, "C", &pre, &ops, None, ordinal);
        });
    }
    // (R) the machine's own clock, file-backed, reopen at every prefix (the store that is opened
    // again is younger than the registrations it finds)
    for depth in 1..=(if quick { 3 } else { 4 }) {
        for_each_sequence(7, depth, |seq| {
            for at in 1..=depth {
                ordinal += 1;
                if !ctx.mine(ordinal) {
                    continue;
                }
                let ops: Vec<Op> = seq.iter().map(|&p| (0u8, p as u8)).collect();
                for pre in [(2..7u8).map(|p| (0u8, p)).collect::<Vec<Op>>(), (2..4u8).map(|p| (0u8, p)).collect()] {
                    record(report, "R", &pre, &ops, Some(pre.len() + at), ordinal);
                }
            }
        });
    }
    // (D) file-backed, reopen at every prefix
    for depth in 1..=(if quick { 4 } else { 5 }) {
        for_each_sequence(7, depth, |seq| {
            for at in 1..=depth {
                ordinal += 1;
                if !ctx.mine(ordinal) {
                    continue;
                }
                let ops: Vec<Op> = seq.iter().map(|&p| (0u8, p as u8)).collect();
                // start from a full list so that evictions happen early
                let pre: Vec<Op> = (2..7u8).map(|p| (0u8, p)).collect();
                record(report, "D", &pre, &ops, Some(pre.len() + at), ordinal);
            }
        });
    }
    // (E) creation and removal of the documents between registrations
    let symbols = life_symbols();
    for depth in 1..=(if quick { 5 } else { 6 }) {
        for_each_sequence(symbols.len(), depth, |seq| {
            ordinal += 1;
            if !ctx.mine(ordinal) {
                return;
            }
            let ops: Vec<LifeOp> = seq.iter().map(|&i| symbols[i]).collect();
            record_life(report, &ops, false, ordinal);
        });
    }
    for depth in 1..=(if quick { 3 } else { 4 }) {
        for_each_sequence(symbols.len(), depth, |seq| {
            ordinal += 1;
            if !ctx.mine(ordinal) {
                return;
            }
            let ops: Vec<LifeOp> = seq.iter().map(|&i| symbols[i]).collect();
            record_life(report, &ops, true, ordinal);
        });
    }
}

fn replay(case: &Value) -> anyhow::Result<(bool, String)> {
    if let Some(n) = case.get("old_format_peers").and_then(|n| n.as_u64()) {
        return match catch(|| old_format_store(n as u8)) {
            Err(p) => Ok((true, format!("panic: {p}"))),
            Ok(bad) => {
                let out: String = bad.iter().map(|(o, d)| format!("FAILED {o}: {d}\n")).collect();
                Ok((!bad.is_empty(), format!("store file of the redb 2.x format with {n} registered peers\n{out}")))
            }
        };
    }
    if !case["life"].is_null() {
        let ops: Vec<LifeOp> = serde_json::from_value(case["life"].clone())?;
        let file_backed = case["file_backed"].as_bool().unwrap_or(false);
        return match catch(|| run_life(&ops, file_backed)) {
            Err(p) => Ok((true, format!("panic: {p}"))),
            Ok((bad, rendering)) => {
                let mut out = format!("life-cycle ops (kind 0=register 1=create 2=remove, doc, peer) {ops:?}\nmodel lists {rendering}\n");
                for (o, d) in &bad {
                    out.push_str(&format!("FAILED {o}: {d}\n"));
                }
                Ok((!bad.is_empty(), out))
            }
        };
    }
    let pre: Vec<Op> = serde_json::from_value(case["pre"].clone())?;
    let ops: Vec<Op> = serde_json::from_value(case["ops"].clone())?;
    let reopen: Option<usize> = serde_json::from_value(case["reopen_at"].clone())?;
    REAL_CLOCK.store(case["real_clock"].as_bool().unwrap_or(false), std::sync::atomic::Ordering::SeqCst);
    match catch(|| run_ops(&pre, &ops, reopen)) {
        Err(p) => Ok((true, format!("panic: {p}"))),
        Ok((bad, rendering)) => {
            let mut out = format!("pre {pre:?}\nops {ops:?}\nmodel lists {rendering}\n");
            for (o, d) in &bad {
                out.push_str(&format!("FAILED {o}: {d}\n"));
            }
            Ok((!bad.is_empty(), out))
        }
    }
}
