//! C13 — author heads and news detection reflect exactly the entries held.

use std::collections::BTreeMap;

use iroh_docs::{AuthorHeads, AuthorId, Capability};
use serde::{Deserialize, Serialize};
use serde_json::{json, Value};

use super::common::*;
use crate::{
    refmodel::ModelReplica,
    report::Report,
    sut::Sut,
    universe::{author_id, ns_id, ns_secret, show_key, Spec, Val, T0, VALS},
    util::{catch, fnv, for_each_sequence},
    Ctx, PropDef, Tier,
};

pub fn def() -> PropDef {
    PropDef {
        id: "C13",
        level: "model_checking",
        rule: "(a) every sequence of length <= d over {remote insert of an entry of a two-author universe, remove-and-recreate the document, ask for the heads and a news verdict}; after the last step get_latest_for_each_author and has_news_for_us(h) for every peer report h in {absent,0,T1,T2,T3}^2 x {no third author, an author never seen whose id sorts before / between / after the two x timestamp 0,T1,T3} are compared with the heads of the reference replica; (b) AuthorHeads::encode/decode for every set of <= 4 authors with timestamps from {0,1,2,127,128,16383,16384} (equal timestamps included) under every size limit from 1 to unlimited length + 1 and without limit, plus one set of 200 heads (the length prefix of the encoding grows to two bytes at 128) under every limit in the window that keeps 120..136 heads; (c) the head set as a data structure: every sequence of <= 4 inserts over 3 authors x timestamps {0,1,2,u64::MAX}: get/len/iter equal the per-author maximum, and for every split of the sequence into two sets merge is the pointwise maximum, has_news_for counts exactly the strictly newer or unknown authors, encode/decode returns the set; (d) a neighbour's sync report delivered to an idle real LiveActor (on_actor_message -> on_sync_report) for 3 document states x {absent,0,T1,T2,T3}^2 reports x {synced, unsynced document} leads to a dial exactly when it is news, also when the neighbour repeats it after the dial it caused was lost, and when it arrives after a completed session in which the peer had already named the same heads without any of those entries entering the replica; (e) five complete sessions between the real initiator loop and the real acceptor loop (run_alice / BobState::run over in-memory pipes, among them one with 450 entries per side over pipes smaller than a frame): per author, the head each side reports as received is at least the newest entry that entered from the peer and at most the peer's newest; non-trivial (a) = the sequence holds two entries of one author with different timestamps or a removal after an insert, (b) = at least two authors",
        assumptions: &[
            "size limit 0 is excluded: no postcard sequence fits into zero bytes",
            "where several keys attain an author's maximal timestamp any of them is accepted as the head's key",
        ],
        bound: |t| match t {
            Tier::Quick => json!({"a": "38-symbol alphabet (2 authors x {'',a,ab} x ts1..3 x {x,DEL} + recreate + ask), depth <= 3", "b": "4166 head sets x all limits", "c": "12-symbol insert alphabet, depth <= 4, all splits"}),
            Tier::Thorough => json!({"a": "38-symbol alphabet depth <= 3 plus 26-symbol alphabet (2 authors x {a,ab} x ts1..3 x {x,DEL} + recreate + ask) depth 4", "b": "4166 head sets x all limits", "c": "12-symbol insert alphabet, depth <= 4, all splits"}),
        },
        run,
        replay,
        shards: |_| 16,
    }
}

#[derive(Debug, Clone, PartialEq, Eq, Serialize, Deserialize)]
pub enum Op {
    Put(Spec),
    Recreate,
    /// The questions the explorer asks at the end of a history, asked in the middle of it: the
    /// heads and the news verdict on one report (a question is an operation too — it may leave
    /// something behind in the store that a later answer is built from).
    Ask,
}

impl std::fmt::Display for Op {
    fn fmt(&self, f: &mut std::fmt::Formatter<'_>) -> std::fmt::Result {
        match self {
            Op::Put(s) => write!(f, "R({s})"),
            Op::Recreate => write!(f, "remove+recreate"),
            Op::Ask => write!(f, "ask(heads, news)"),
        }
    }
}

fn alphabet(keys: &[&[u8]]) -> Vec<Op> {
    let mut v = vec![];
    for a in [0u8, 1] {
        for k in keys {
            for ts in 1..=3 {
                for val in [Val::X, Val::Del] {
                    v.push(Op::Put(Spec::new(0, a, k, ts, val)));
                }
            }
        }
    }
    v.push(Op::Recreate);
    v.push(Op::Ask);
    v
}

fn run_history(ops: &[Op]) -> (Vec<(&'static str, Value, String)>, String) {
    let ns = ns_id(0);
    let mut bad = vec![];
    let mut sut = Sut::memory_with(&[0]);
    let mut model = ModelReplica::default();
    for op in ops {
        match op {
            Op::Put(s) => {
                let got = apply(
                    &mut sut,
                    &Step {
                        path: Path::R,
                        spec: s.clone(),
                    },
                );
                let want = model_outcome(&mut model, s);
                if got != want {
                    bad.push((
                        "return_value",
                        json!({}),
                        format!("{op}: impl={got:?} model={want:?}"),
                    ));
                }
            }
            Op::Ask => {
                let _ = sut.heads(ns);
                let mut heads = AuthorHeads::default();
                heads.insert(author_id(0), T0 + 2);
                heads.insert(author_id(1), T0 + 2);
                let _ = sut.store.has_news_for_us(ns, &heads);
            }
            Op::Recreate => {
                if let Err(e) = sut.store.remove_replica(&ns) {
                    bad.push(("remove_ok", json!({}), format!("remove_replica: {e:#}")));
                }
                sut.store
                    .import_namespace(Capability::Write(ns_secret(0)))
                    .expect("import");
                model = ModelReplica::default();
            }
        }
    }
    let removed_before = ops
        .iter()
        .enumerate()
        .any(|(i, o)| *o == Op::Recreate && i > 0);
    // heads
    let want: BTreeMap<[u8; 32], u64> = model.heads();
    let got = sut.heads(ns);
    let got_map: BTreeMap<[u8; 32], u64> = got.iter().map(|(a, t, _)| (a.to_bytes(), *t)).collect();
    let show = |m: &BTreeMap<[u8; 32], u64>| {
        m.iter()
            .map(|(a, t)| format!("{:02x}..@{}", a[0], t.saturating_sub(T0)))
            .collect::<Vec<_>>()
            .join(",")
    };
    if got_map != want || got.len() != want.len() {
        let stale = got_map.iter().any(|(a, t)| want.get(a).map(|w| t < w).unwrap_or(false));
        let ghost = got_map.keys().any(|a| !want.contains_key(a));
        bad.push((
            "heads_equal_max_timestamp",
            json!({"older_than_max": stale, "author_without_entries": ghost, "after_recreate": removed_before}),
            format!("heads impl=[{}] model=[{}]", show(&got_map), show(&want)),
        ));
    } else {
        for (a, t, k) in &got {
            let ok = model
                .entries
                .iter()
                .any(|((ea, ek), e)| ea == &a.to_bytes() && ek == k && e.timestamp() == *t);
            if !ok {
                bad.push((
                    "head_key_attains_max",
                    json!({}),
                    format!(
                        "head key \"{}\" of author {} does not hold an entry with the head timestamp",
                        show_key(k),
                        a.fmt_short()
                    ),
                ));
            }
        }
    }
    // news detection for every peer report
    let mut news_digest = vec![];
    // report values: 0 = author absent from the report, 1..=3 = T0+1..T0+3, 4 = timestamp 0
    // (the smallest legal timestamp: an unknown author is news whatever its timestamp)
    let ts_of = |h: u64| if h == 4 { 0 } else { T0 + h };
    // a third author of the report that the replica has never heard of: its id sorts before,
    // between or after the two authors of the universe; timestamp 0, T1 or T3
    let (lo, hi) = {
        let (a, b) = (author_id(0).to_bytes(), author_id(1).to_bytes());
        if a < b { (a, b) } else { (b, a) }
    };
    let mut mid = lo;
    mid[31] = mid[31].wrapping_add(1);
    if mid[31] == 0 {
        mid[30] = mid[30].wrapping_add(1);
    }
    let strangers: Vec<Option<([u8; 32], u64)>> = std::iter::once(None)
        .chain([[0u8; 32], mid, [0xffu8; 32]].into_iter().flat_map(|id| [0u64, T0 + 1, T0 + 3].into_iter().map(move |t| Some((id, t)))))
        .collect();
    debug_assert!(lo < mid && mid < hi);
    for h0 in 0..5u64 {
        for h1 in 0..5u64 {
            for stranger in &strangers {
                let mut heads = AuthorHeads::default();
                if h0 > 0 {
                    heads.insert(author_id(0), ts_of(h0));
                }
                if h1 > 0 {
                    heads.insert(author_id(1), ts_of(h1));
                }
                if let Some((id, t)) = stranger {
                    heads.insert(AuthorId::from(id), *t);
                }
                let got = sut
                    .store
                    .has_news_for_us(ns, &heads)
                    .expect("has_news_for_us")
                    .map(|n| n.get())
                    .unwrap_or(0);
                let mut want_n = if stranger.is_some() { 1 } else { 0 };
                for (a, h) in [(0u8, h0), (1u8, h1)] {
                    if h == 0 {
                        continue;
                    }
                    match want.get(&author_id(a).to_bytes()) {
                        None => want_n += 1,
                        Some(ours) if ts_of(h) > *ours => want_n += 1,
                        _ => {}
                    }
                }
                if stranger.is_none() {
                    news_digest.push(got);
                }
                if got != want_n {
                    bad.push((
                        "news_iff_strictly_newer_or_unknown",
                        json!({"spurious": got > want_n, "after_recreate": removed_before, "stranger": stranger.is_some()}),
                        format!(
                            "has_news_for_us(A0@{h0},A1@{h1}{}) impl={got} model={want_n}; our heads model=[{}]",
                            match stranger {
                                Some((id, t)) => format!(", an author never seen ({:02x}..{:02x})@{}", id[0], id[31], if *t >= T0 { format!("T{}", t - T0) } else { t.to_string() }),
                                None => String::new(),
                            },
                            show(&want)
                        ),
                    ));
                }
            }
        }
    }
    (bad, format!("{}|{:?}", show(&got_map), news_digest))
}

// ---------------------------------------------------------------------------------------
// (b) encode / decode
// ---------------------------------------------------------------------------------------

const TS: [u64; 7] = [0, 1, 2, 127, 128, 16383, 16384];

fn aid(i: u8) -> AuthorId {
    let mut b = [0x40u8; 32];
    b[0] = 0x10u8.wrapping_mul(i.wrapping_add(1));
    b[31] = i;
    AuthorId::from(&b)
}

fn varint_len(v: u64) -> usize {
    let mut n = 1;
    let mut v = v >> 7;
    while v > 0 {
        n += 1;
        v >>= 7;
    }
    n
}

/// Size of a correct encoding of a list of head timestamps: length prefix + per item
/// varint(timestamp) + 32 bytes of author id.
fn enc_size(ts: impl Iterator<Item = u64>) -> usize {
    let mut n = 0u64;
    let mut sum = 0;
    for t in ts {
        n += 1;
        sum += 32 + varint_len(t);
    }
    varint_len(n) + sum
}

/// Large head sets: the length prefix of the encoding grows from one to two bytes at 128 heads.
/// 200 authors with distinct timestamps; every size limit in a window around 120..136 kept heads.
fn check_heads_large() -> (Vec<(&'static str, Value, String)>, u64) {
    let mut bad = vec![];
    let mut calls = 0;
    let n = 200u64;
    let author = |i: u64| {
        let mut b = [0x21u8; 32];
        b[0] = (i >> 8) as u8;
        b[1] = (i & 0xff) as u8;
        AuthorId::from(&b)
    };
    // timestamps 1000+i: all two-byte varints, so every item has the same size
    let heads: AuthorHeads = (0..n).map(|i| (author(i), 1000 + i)).collect();
    let input: BTreeMap<AuthorId, u64> = heads.iter().map(|(a, t)| (*a, *t)).collect();
    let size_of_newest = |k: u64| enc_size((0..k).map(|i| 1000 + n - 1 - i));
    let lo = size_of_newest(120);
    let hi = size_of_newest(136) + 1;
    for limit in lo..=hi {
        calls += 1;
        let Ok(enc) = heads.encode(Some(limit)) else {
            bad.push(("encode_ok", json!({"large": true}), format!("encode({limit}) failed")));
            continue;
        };
        if enc.len() > limit {
            bad.push((
                "never_exceeds_limit",
                json!({"heads_at_least_128": true}),
                format!("200 heads, limit {limit}: encoded {} bytes", enc.len()),
            ));
        }
        let Ok(dec) = AuthorHeads::decode(&enc) else {
            bad.push(("decode_ok", json!({"large": true}), format!("decode after limit {limit}")));
            continue;
        };
        let kept: BTreeMap<AuthorId, u64> = dec.iter().map(|(a, t)| (*a, *t)).collect();
        if !kept.iter().all(|(a, t)| input.get(a) == Some(t)) {
            bad.push(("kept_is_subset_of_input", json!({"large": true}), format!("limit {limit}")));
            continue;
        }
        let max_dropped = input.iter().filter(|(a, _)| !kept.contains_key(*a)).map(|(_, t)| *t).max();
        if let Some(md) = max_dropped {
            if kept.values().any(|t| *t < md) {
                bad.push(("keeps_the_newest", json!({"large": true}), format!("limit {limit}: dropped @{md} but kept an older head")));
            }
            let with = enc_size(kept.values().copied().chain(std::iter::once(md)));
            if with <= limit {
                bad.push((
                    "keeps_as_many_as_fit",
                    json!({"heads_at_least_128": true}),
                    format!("200 heads, limit {limit}: kept {} heads although one more would fit ({with} bytes)", kept.len()),
                ));
            }
        }
    }
    // and without limit
    calls += 1;
    match heads.encode(None).ok().and_then(|e| AuthorHeads::decode(&e).ok()) {
        Some(d) if d.iter().map(|(a, t)| (*a, *t)).collect::<BTreeMap<_, _>>() == input => {}
        _ => bad.push(("no_limit_keeps_every_author", json!({"large": true}), "200 heads do not survive encode/decode".to_string())),
    }
    (bad, calls)
}

fn check_heads(set: &[(u8, u64)]) -> (Vec<(&'static str, Value, String)>, u64) {
    let mut bad = vec![];
    let mut calls = 0;
    let heads: AuthorHeads = set.iter().map(|(a, t)| (aid(*a), *t)).collect();
    let input: BTreeMap<AuthorId, u64> = heads.iter().map(|(a, t)| (*a, *t)).collect();
    let dups = {
        let mut ts: Vec<u64> = set.iter().map(|x| x.1).collect();
        ts.sort();
        ts.windows(2).any(|w| w[0] == w[1])
    };
    let full = match heads.encode(None) {
        Ok(b) => b,
        Err(e) => {
            bad.push(("encode_ok", json!({}), format!("encode(None): {e:#}")));
            return (bad, 1);
        }
    };
    calls += 1;
    match AuthorHeads::decode(&full) {
        Ok(d) => {
            let got: BTreeMap<AuthorId, u64> = d.iter().map(|(a, t)| (*a, *t)).collect();
            if got != input {
                bad.push((
                    "no_limit_keeps_every_author",
                    json!({"equal_timestamps": dups}),
                    format!("{} heads in, {} out (set {set:?})", input.len(), got.len()),
                ));
            }
        }
        Err(e) => bad.push(("decode_ok", json!({}), format!("decode: {e:#}"))),
    }
    // unlimited length of a *correct* encoding: 1 (len) + per item varint(ts) + 32
    let unlimited: usize = 1 + set
        .iter()
        .map(|(_, t)| 32 + if *t < 128 { 1 } else if *t < 16384 { 2 } else { 3 })
        .sum::<usize>();
    for limit in 1..=unlimited + 1 {
        calls += 1;
        let enc = match heads.encode(Some(limit)) {
            Ok(b) => b,
            Err(e) => {
                bad.push(("encode_ok", json!({}), format!("encode({limit}): {e:#}")));
                continue;
            }
        };
        if enc.len() > limit {
            bad.push((
                "never_exceeds_limit",
                json!({}),
                format!("limit {limit}, encoded {} bytes (set {set:?})", enc.len()),
            ));
        }
        let Ok(dec) = AuthorHeads::decode(&enc) else {
            bad.push(("decode_ok", json!({}), format!("decode after limit {limit}")));
            continue;
        };
        let kept: BTreeMap<AuthorId, u64> = dec.iter().map(|(a, t)| (*a, *t)).collect();
        if !kept.iter().all(|(a, t)| input.get(a) == Some(t)) {
            bad.push((
                "kept_is_subset_of_input",
                json!({}),
                format!("limit {limit}: decoded heads are not a subset of the input"),
            ));
            continue;
        }
        let dropped: Vec<(&AuthorId, &u64)> =
            input.iter().filter(|(a, _)| !kept.contains_key(*a)).collect();
        if let Some(max_dropped) = dropped.iter().map(|(_, t)| **t).max() {
            let min_kept = kept.values().copied().min();
            if min_kept.map(|m| m < max_dropped).unwrap_or(false) {
                bad.push((
                    "keeps_the_newest",
                    json!({"equal_timestamps": dups}),
                    format!("limit {limit}: dropped a head @{max_dropped} but kept one @{min_kept:?} (set {set:?})"),
                ));
            }
            // maximal: the newest dropped head would not have fitted
            let with: usize = 1 + kept
                .values()
                .chain(std::iter::once(&max_dropped))
                .map(|t| 32 + if *t < 128 { 1 } else if *t < 16384 { 2 } else { 3 })
                .sum::<usize>();
            if with <= limit {
                bad.push((
                    "keeps_as_many_as_fit",
                    json!({"equal_timestamps": dups}),
                    format!("limit {limit}: kept {} heads although the newest dropped head @{max_dropped} would fit ({with} bytes) (set {set:?})", kept.len()),
                ));
            }
        }
    }
    (bad, calls)
}

/// (c) The head set as a data structure (what a session's outcome and a decoded report are built
/// with): inserting keeps the greatest timestamp per author, merging is the pointwise maximum, and
/// `has_news_for` counts the authors for which the left side is strictly newer or the right side
/// has nothing.
const ALG_TS: [u64; 4] = [0, 1, 2, u64::MAX];

fn check_algebra(seq: &[(u8, u64)]) -> (Vec<(&'static str, Value, String)>, u64) {
    let mut bad = vec![];
    let mut calls = 0u64;
    let build = |part: &[(u8, u64)]| {
        let mut h = AuthorHeads::default();
        let mut m: BTreeMap<AuthorId, u64> = BTreeMap::new();
        for (a, t) in part {
            h.insert(aid(*a), *t);
            let e = m.entry(aid(*a)).or_insert(0);
            *e = (*e).max(*t);
        }
        (h, m)
    };
    let as_map = |h: &AuthorHeads| h.iter().map(|(a, t)| (*a, *t)).collect::<BTreeMap<AuthorId, u64>>();
    let (h, m) = build(seq);
    calls += 1;
    if as_map(&h) != m || h.len() != m.len() || h.is_empty() != m.is_empty() || (0..3).any(|a| h.get(&aid(a)) != m.get(&aid(a)).copied()) {
        bad.push((
            "insert_keeps_the_greatest_timestamp",
            json!({}),
            format!("after inserting {seq:?}: heads={:?} len={} model={:?}", as_map(&h).values().collect::<Vec<_>>(), h.len(), m.values().collect::<Vec<_>>()),
        ));
    }
    for k in 0..=seq.len() {
        let (x, mx) = build(&seq[..k]);
        let (y, my) = build(&seq[k..]);
        calls += 2;
        let mut merged = x.clone();
        merged.merge(&y);
        let mut want = mx.clone();
        for (a, t) in &my {
            let e = want.entry(*a).or_insert(0);
            *e = (*e).max(*t);
        }
        if as_map(&merged) != want {
            bad.push(("merge_is_pointwise_maximum", json!({}), format!("merge of {:?} and {:?}", &seq[..k], &seq[k..])));
        }
        let want_news = mx.iter().filter(|(a, t)| my.get(*a).map(|u| *t > u).unwrap_or(true)).count() as u64;
        let got_news = x.has_news_for(&y).map(|n| n.get()).unwrap_or(0);
        if got_news != want_news {
            bad.push((
                "news_exactly_for_newer_or_unknown_authors",
                json!({"structure": true}),
                format!("{:?} has_news_for {:?}: impl={got_news} model={want_news}", &seq[..k], &seq[k..]),
            ));
        }
        // a decoded report is the same set as the encoded one, whatever the insertion history
        if let Some(d) = x.encode(None).ok().and_then(|e| AuthorHeads::decode(&e).ok()) {
            if d != x {
                bad.push(("no_limit_keeps_every_author", json!({"after_inserts": true}), format!("{:?}", &seq[..k])));
            }
        }
    }
    (bad, calls)
}

/// (d) The engine's use of the comparison: a neighbour's sync report delivered to an idle live
/// actor (decoded and compared with the document's heads by the real `on_sync_report`) leads to a
/// dial exactly when it is news for the document as held.
fn check_engine_reports(report: &mut Report) {
    let states: [Vec<Spec>; 3] = [
        vec![],
        vec![Spec::new(0, 1, b"b", 1, Val::X)],
        vec![Spec::new(0, 1, b"b", 1, Val::X), Spec::new(0, 0, b"ab", 3, Val::Del)],
    ];
    let ts_of = |h: u8| match h {
        1 => 0,
        h => T0 + (h as u64 - 1),
    };
    for extra in &states {
        for h0 in 0..5u8 {
            for h1 in 0..5u8 {
                for report_ns in [0u8, 1] {
                    let mut heads = vec![];
                    if h0 > 0 {
                        heads.push((0u8, ts_of(h0)));
                    }
                    if h1 > 0 {
                        heads.push((1u8, ts_of(h1)));
                    }
                    report.evaluations += 1;
                    report.traces += 1;
                    report.transitions += 1;
                    let case = json!({"engine_report": {"extra": extra, "ns": report_ns, "heads": heads}});
                    // (the same report once more after a completed session in which the peer had
                    // already named these heads although nothing of it entered the replica)
                    if report_ns == 0 && !heads.is_empty() {
                        report.evaluations += 1;
                        let case2 = json!({"engine_report": {"extra": extra, "ns": report_ns, "heads": heads, "after_session": true}});
                        match catch(|| super::c11::sync_report_dials_after(extra, report_ns, &heads, true)) {
                            Err(p) => report.violation("no_panic", json!({"engine": true}), case2, format!("panic: {p}"), 0),
                            Ok((dialed, _, held)) => {
                                let mut ours: BTreeMap<AuthorId, u64> = BTreeMap::new();
                                for (a, t) in held {
                                    let e = ours.entry(a).or_insert(0);
                                    *e = (*e).max(t);
                                }
                                let news = heads.iter().any(|(a, t)| ours.get(&author_id(*a)).map(|o| t > o).unwrap_or(true));
                                if dialed != news {
                                    report.violation("engine_dials_exactly_on_news", json!({"dialed": dialed, "after_session": true}), case2, format!("report {heads:?} arriving after a completed session in which the peer had named the same heads (none of those entries entered the replica), document holds heads {:?}: dialed={dialed}, news={news}", ours.values().collect::<Vec<_>>()), 0);
                                }
                            }
                        }
                    }
                    match catch(|| super::c11::sync_report_dials(extra, report_ns, &heads)) {
                        Err(p) => report.violation("no_panic", json!({"engine": true}), case, format!("panic: {p}"), 0),
                        Ok((dialed, dialed_again, held)) => {
                            let mut ours: BTreeMap<AuthorId, u64> = BTreeMap::new();
                            for (a, t) in held {
                                let e = ours.entry(a).or_insert(0);
                                *e = (*e).max(t);
                            }
                            // document 1 is not in the sync set: its reports are ignored
                            let news = report_ns == 0
                                && heads.iter().any(|(a, t)| ours.get(&author_id(*a)).map(|o| t > o).unwrap_or(true));
                            if news {
                                report.nontrivial += 1;
                            }
                            if dialed_again != news {
                                report.violation(
                                    "engine_dials_exactly_on_news",
                                    json!({"dialed": dialed_again, "repeated_report": true}),
                                    case.clone(),
                                    format!("report {heads:?} for document {report_ns} repeated after the dial it caused was lost, document holds heads {:?}: dialed={dialed_again}, news={news}", ours.values().collect::<Vec<_>>()),
                                    0,
                                );
                            }
                            if dialed != news {
                                report.violation(
                                    "engine_dials_exactly_on_news",
                                    json!({"dialed": dialed}),
                                    case,
                                    format!("report {heads:?} for document {report_ns}, document holds heads {:?}: dialed={dialed}, news={news}", ours.values().collect::<Vec<_>>()),
                                    0,
                                );
                            }
                        }
                    }
                }
            }
        }
    }
}

fn run(ctx: &Ctx, report: &mut Report) {
    // (e) the heads a session reports as received (they go into the sync report the node sends to
    // its neighbours): complete sessions between the real initiator and the real acceptor loops
    for variant in 0..5u8 {
        if ctx.shard != (3 + variant as u64) % ctx.of {
            continue;
        }
        report.evaluations += 1;
        report.nontrivial += 1;
        report.count("sessions_probed_for_received_heads", 1);
        let case = json!({"received_heads_probe": variant});
        match crate::util::catch(|| super::c10::received_heads_probe(variant)) {
            Err(p) => report.violation("no_panic", json!({"probe": true}), case, format!("panic: {p}"), 0),
            Ok(bad) => {
                for d in bad {
                    if d.starts_with("MACHINERY") {
                        report.machinery_error(d);
                    } else {
                        report.violation("session_outcome_reports_received_heads", json!({"variant": variant}), case.clone(), d, 0);
                    }
                }
            }
        }
    }
    crate::util::silence_panics();
    let mut ordinal = 0u64;
    // (d)
    if ctx.shard == 1 % ctx.of {
        check_engine_reports(report);
    }
    // (c)
    let alg: Vec<(u8, u64)> = (0..3u8).flat_map(|a| ALG_TS.iter().map(move |t| (a, *t))).collect();
    for depth in 1..=4 {
        for_each_sequence(alg.len(), depth, |ix| {
            ordinal += 1;
            if !ctx.mine(ordinal) {
                return;
            }
            let seq: Vec<(u8, u64)> = ix.iter().map(|&i| alg[i]).collect();
            report.evaluations += 1;
            report.traces += 1;
            if seq.iter().enumerate().any(|(i, (a, t))| seq[..i].iter().any(|(b, u)| a == b && t != u)) {
                report.nontrivial += 1;
            }
            let case = json!({"algebra": seq});
            match catch(|| check_algebra(&seq)) {
                Err(p) => report.violation("no_panic", json!({}), case, format!("panic: {p}"), ordinal),
                Ok((bad, calls)) => {
                    report.transitions += calls;
                    for (o, w, d) in bad {
                        report.violation(o, w, case.clone(), d, ordinal);
                    }
                }
            }
        });
    }
    // (a)
    let mut fams: Vec<(Vec<Op>, std::ops::RangeInclusive<usize>)> =
        vec![(alphabet(&[b"", b"a", b"ab"]), 1..=3)];
    if !ctx.quick() {
        fams.push((alphabet(&[b"a", b"ab"]), 4..=4));
    }
    for (alpha, depths) in fams {
        for depth in depths {
            for_each_sequence(alpha.len(), depth, |seq| {
                ordinal += 1;
                if !ctx.mine(ordinal) {
                    return;
                }
                let ops: Vec<Op> = seq.iter().map(|&i| alpha[i].clone()).collect();
                report.evaluations += 1;
                report.traces += 1;
                report.transitions += ops.len() as u64;
                report.max_depth = report.max_depth.max(ops.len() as u64);
                let nt = ops.iter().enumerate().any(|(i, o)| match o {
                    Op::Recreate => i > 0,
                    Op::Ask => false,
                    Op::Put(s) => ops[..i].iter().any(
                        |p| matches!(p, Op::Put(q) if q.author == s.author && q.ts != s.ts),
                    ),
                });
                if nt {
                    report.nontrivial += 1;
                }
                let case = json!({"ops": ops});
                match catch(|| run_history(&ops)) {
                    Err(p) => {
                        report.violation("no_panic", json!({}), case, format!("panic: {p}"), ordinal)
                    }
                    Ok((bad, rendering)) => {
                                                report.outcome(format!("{:016x}", fnv(rendering.as_bytes())));
                        for (o, w, d) in bad {
                            report.violation(o, w, case.clone(), d, ordinal);
                        }
                        if nt {
                            report.sample(|| json!({"ops": ops.iter().map(|o| o.to_string()).collect::<Vec<_>>(), "heads|news": rendering}));
                        }
                    }
                }
            });
        }
    }
    // (b)
    for mask in 0u8..16 {
        let authors: Vec<u8> = (0..4).filter(|i| mask >> i & 1 == 1).collect();
        for_each_sequence(TS.len(), authors.len(), |seq| {
            ordinal += 1;
            if !ctx.mine(ordinal) {
                return;
            }
            let set: Vec<(u8, u64)> = authors
                .iter()
                .zip(seq.iter())
                .map(|(a, &i)| (*a, TS[i]))
                .collect();
            report.evaluations += 1;
            report.traces += 1;
            if set.len() >= 2 {
                report.nontrivial += 1;
            }
            let case = json!({"heads": set});
            match catch(|| check_heads(&set)) {
                Err(p) => report.violation("no_panic", json!({}), case, format!("panic: {p}"), ordinal),
                Ok((bad, calls)) => {
                    report.transitions += calls;
                    report.count("encode_calls", calls);
                    for (o, w, d) in bad {
                        report.violation(o, w, case.clone(), d, ordinal);
                    }
                }
            }
        });
    }
    if ctx.shard == 0 {
        report.evaluations += 1;
        report.traces += 1;
        report.nontrivial += 1;
        match catch(check_heads_large) {
            Err(p) => report.violation("no_panic", json!({"large": true}), json!({"heads_large": true}), format!("panic: {p}"), 0),
            Ok((bad, calls)) => {
                report.transitions += calls;
                report.count("encode_calls", calls);
                for (o, w, d) in bad {
                    report.violation(o, w, json!({"heads_large": true}), d, 0);
                }
            }
        }
    }
    let _ = VALS;
}

fn replay(case: &Value) -> anyhow::Result<(bool, String)> {
    if let Some(v) = case.get("received_heads_probe").and_then(|v| v.as_u64()) {
        let bad = crate::util::catch(|| super::c10::received_heads_probe(v as u8)).map_err(|p| anyhow::anyhow!(p))?;
        let out: String = bad.iter().map(|d| format!("FAILED session_outcome_reports_received_heads: {d}\n")).collect();
        return Ok((!bad.is_empty(), format!("received heads of a complete session, variant {v}\n{out}")));
    }
    if case.get("heads_large").is_some() {
        return match catch(check_heads_large) {
            Err(p) => Ok((true, format!("panic: {p}"))),
            Ok((bad, _)) => {
                let out: String = bad.iter().map(|(o, _, d)| format!("FAILED {o}: {d}\n")).collect();
                Ok((!bad.is_empty(), out))
            }
        };
    }
    if let Some(h) = case.get("engine_report") {
        let extra: Vec<Spec> = serde_json::from_value(h["extra"].clone())?;
        let heads: Vec<(u8, u64)> = serde_json::from_value(h["heads"].clone())?;
        let nsx = h["ns"].as_u64().unwrap_or(0) as u8;
        let after = h.get("after_session").and_then(|a| a.as_bool()).unwrap_or(false);
        return match catch(|| super::c11::sync_report_dials_after(&extra, nsx, &heads, after)) {
            Err(p) => Ok((true, format!("panic: {p}"))),
            Ok((dialed, dialed_again, held)) => {
                let dialed_again = if after { dialed } else { dialed_again };
                let mut ours: BTreeMap<AuthorId, u64> = BTreeMap::new();
                for (a, t) in held {
                    let e = ours.entry(a).or_insert(0);
                    *e = (*e).max(t);
                }
                let news = nsx == 0 && heads.iter().any(|(a, t)| ours.get(&author_id(*a)).map(|o| t > o).unwrap_or(true));
                Ok((dialed != news || dialed_again != news, format!("report {heads:?} for document {nsx}; document heads {:?}; dialed={dialed}, when repeated after a lost dial={dialed_again}, news={news}\n", ours.values().collect::<Vec<_>>())))
            }
        };
    }
    if let Some(h) = case.get("algebra") {
        let seq: Vec<(u8, u64)> = serde_json::from_value(h.clone())?;
        return match catch(|| check_algebra(&seq)) {
            Err(p) => Ok((true, format!("panic: {p}"))),
            Ok((bad, _)) => {
                let mut out = format!("inserts {seq:?}\n");
                for (o, _, d) in &bad {
                    out.push_str(&format!("FAILED {o}: {d}\n"));
                }
                Ok((!bad.is_empty(), out))
            }
        };
    }
    if let Some(h) = case.get("heads") {
        let set: Vec<(u8, u64)> = serde_json::from_value(h.clone())?;
        return match catch(|| check_heads(&set)) {
            Err(p) => Ok((true, format!("panic: {p}"))),
            Ok((bad, _)) => {
                let mut out = format!("heads {set:?}\n");
                for (o, _, d) in &bad {
                    out.push_str(&format!("FAILED {o}: {d}\n"));
                }
                Ok((!bad.is_empty(), out))
            }
        };
    }
    let ops: Vec<Op> = serde_json::from_value(case["ops"].clone())?;
    match catch(|| run_history(&ops)) {
        Err(p) => Ok((true, format!("panic: {p}"))),
        Ok((bad, rendering)) => {
            let mut out = String::new();
            for o in &ops {
                out.push_str(&format!("op {o}\n"));
            }
            out.push_str(&format!("heads|news: {rendering}\n"));
            for (o, _, d) in &bad {
                out.push_str(&format!("FAILED {o}: {d}\n"));
            }
            Ok((!bad.is_empty(), out))
        }
    }
}
