//! C09 — wire and storage encodings round-trip and never crash on hostile bytes.

use std::str::FromStr;

use bytes::BytesMut;
use iroh_docs::{
    net::verif_codec::{self, Frame},
    store::{DownloadPolicy, FilterKind},
    sync::{SignedEntry, SyncOutcome},
    Author, AuthorHeads, Capability, DocTicket, NamespaceSecret, ProtocolMessage,
};
use iroh_tickets::Ticket;
use serde_json::{json, Value};

use super::{
    common::set_clock,
    recon::{run_session, states_from_subsets, universe12, BackendKind, Party, DEFAULT_CFG},
};
use crate::{
    mirror::RawSigned,
    report::Report,
    sut::{block_on, Sut, PEER},
    universe::{author, ns_id, ns_secret, universe, Spec, Val, K7, NOW},
    util::{catch, fnv},
    Ctx, PropDef, Tier,
};

pub fn def() -> PropDef {
    PropDef {
        id: "C09",
        level: "exploration",
        rule: "(A0) entries with keys of 63 .. 20000 bytes (around the steps of the length prefixes and far beyond): the entry, every message of a real session carrying it and their frames (whole and cut at seven positions) survive encode-then-decode and the session converges; (A) every frame (Init / Sync / Abort) of every session transcript between all ordered pairs of small reachable states: encode with the crate's codec, concatenate the whole session, feed the decoder with every split into two chunks and (transcripts <= 300 bytes in quick, <= 800 bytes in thorough) every split into three chunks, every truncation (also through the decoder's end-of-stream entry point: a stream ending inside a frame is an error, at a boundary a clean end), every frame's length prefix altered (shorter by 1 and 2, halved, 0, 1, longer by 1, longer by the next frame) with the following frames left behind it and every byte of the first frame replaced by 5 values — the stream decoder must do exactly what decoding the declared frames one by one in isolation does —, length prefixes MAX / MAX+1 / u32::MAX, and encode several frames into one shared buffer; (B) every decoder (frame, SignedEntry, ProtocolMessage, AuthorHeads, DocTicket bytes and string form, Capability::from_raw over all 256 kinds, FilterKind::from_str, DownloadPolicy, the hex text form of Author / NamespaceSecret / AuthorId / NamespaceId / the two public-key types) on every byte string up to length 2 (3 in thorough) and on every single-byte replacement (position x 255 values; a 4-value subset beyond the first 48 bytes in the quick tier) of valid encodings, each call under catch_unwind; values that decode are exercised (accessors, signature verification, processing by a real replica); (C) pinned encodings: the suite's three hex snapshots and, for every entry of the universe, equality with an independent hand-written layout encoder; non-trivial = distinct inputs that decode successfully after a corruption, or chunkings that cut inside a frame",
        assumptions: &[
            "\"arbitrary bytes\" is replaced by its exhaustive small-scope counterpart: all strings up to 3 bytes and all single-byte replacements of valid encodings",
        ],
        bound: |t| match t {
            Tier::Quick => json!({"A0": "12 key lengths", "A": "transcripts of S12<=2 pairs (distinct transcripts only)", "B": "strings <= 2 bytes; replacements: 255 values on the first 48 bytes, 4 values beyond; 6 messages", "C": "U63 x 2 authors"}),
            Tier::Thorough => json!({"A0": "12 key lengths", "A": "same, three-way splits for all transcripts <= 800 bytes", "B": "strings <= 3 bytes; 255 values at every position; 24 messages", "C": "U63 x 2 authors"}),
        },
        run,
        replay,
        shards: |_| 16,
    }
}

type Bad = Vec<(&'static str, Value, String)>;

fn encode(f: &Frame) -> Vec<u8> {
    let mut b = BytesMut::new();
    verif_codec::encode(f.clone(), &mut b).expect("encode");
    b.to_vec()
}

fn frame_eq(a: &Frame, b: &Frame) -> bool {
    encode(a) == encode(b)
}

/// Session transcript as frames.
fn session_frames(a: &[Spec], b: &[Spec]) -> Vec<Frame> {
    let ns = ns_id(0);
    let mut pa = Party::build(BackendKind::Mem, 0, a);
    let mut pb = Party::build(BackendKind::Mem, 0, b);
    let s = run_session(&mut pa, &mut pb, ns, DEFAULT_CFG, 64, None).expect("session");
    let mut frames = vec![];
    for (i, bytes) in s.transcript.iter().enumerate() {
        let m: ProtocolMessage = postcard::from_bytes(bytes).expect("message");
        frames.push(if i == 0 {
            Frame::Init {
                namespace: ns,
                message: m,
            }
        } else {
            Frame::Sync(m)
        });
    }
    frames
}

/// Feed chunks to the decoder; returns decoded frames or an error description.
fn decode_chunks(chunks: &[&[u8]]) -> Result<(Vec<Frame>, usize), String> {
    let mut buf = BytesMut::new();
    let mut out = vec![];
    for c in chunks {
        buf.extend_from_slice(c);
        loop {
            match verif_codec::decode(&mut buf) {
                Ok(Some(f)) => out.push(f),
                Ok(None) => break,
                Err(e) => return Err(format!("{e:#}")),
            }
        }
    }
    Ok((out, buf.len()))
}

fn check_transcript(frames: &[Frame], three_way_limit: usize) -> (Bad, u64, u64) {
    let mut bad: Bad = vec![];
    let mut evals = 0u64;
    let mut cuts_inside = 0u64;
    let encs: Vec<Vec<u8>> = frames.iter().map(encode).collect();
    let all: Vec<u8> = encs.concat();
    let mut boundaries = vec![0usize];
    for e in &encs {
        boundaries.push(boundaries.last().unwrap() + e.len());
    }
    // shared buffer: the encoder must append
    let mut shared = BytesMut::new();
    for f in frames {
        if let Err(e) = verif_codec::encode(f.clone(), &mut shared) {
            bad.push(("encode_ok", json!({}), format!("{e:#}")));
        }
    }
    evals += 1;
    if shared[..] != all[..] {
        bad.push((
            "encoder_appends_to_buffer",
            json!({}),
            format!(
                "encoding {} frames into one buffer gives {} bytes that differ from the concatenation of the individually encoded frames ({} bytes)",
                frames.len(),
                shared.len(),
                all.len()
            ),
        ));
    }
    let verify = |chunks: &[&[u8]], bad: &mut Bad, what: String| match decode_chunks(chunks) {
        Err(e) => bad.push(("roundtrip_under_chunking", json!({"error": true}), format!("{what}: decoder error {e}"))),
        Ok((got, rest)) => {
            if got.len() != frames.len() || rest != 0 || !got.iter().zip(frames).all(|(a, b)| frame_eq(a, b)) {
                bad.push((
                    "roundtrip_under_chunking",
                    json!({"error": false}),
                    format!("{what}: decoded {} frames (+{rest} bytes left) instead of {}", got.len(), frames.len()),
                ));
            }
        }
    };
    // every split into two chunks
    for i in 0..=all.len() {
        evals += 1;
        if !boundaries.contains(&i) {
            cuts_inside += 1;
        }
        verify(&[&all[..i], &all[i..]], &mut bad, format!("split at {i}"));
        // every truncation: frames fully contained are decoded, nothing else, no error
        match decode_chunks(&[&all[..i]]) {
            Err(e) => bad.push(("truncation_is_need_more_data", json!({}), format!("truncated at {i}: error {e}"))),
            Ok((got, _)) => {
                let complete = boundaries.iter().filter(|b| **b <= i && **b > 0).count();
                if got.len() != complete {
                    bad.push((
                        "truncation_never_yields_bogus_frame",
                        json!({}),
                        format!("truncated at {i}: {} frames decoded, {complete} are complete", got.len()),
                    ));
                }
            }
        }
    }
    if all.len() <= three_way_limit {
        for i in 0..=all.len() {
            for j in i..=all.len() {
                evals += 1;
                verify(&[&all[..i], &all[i..j], &all[j..]], &mut bad, format!("split at {i},{j}"));
            }
        }
    }
    (bad, evals, cuts_inside)
}

/// What the stream decoder must do, told independently: read the 4-byte big-endian length `L`,
/// error if `L > MAX`, wait if fewer than `4 + L` bytes are there, else hand *exactly* those `L`
/// bytes to the payload decoder (here: the crate's decoder on an isolated copy of that one frame,
/// so it cannot look beyond it) and consume `4 + L` bytes. Returns the frames (re-encoded), whether
/// decoding stopped with an error, and the number of bytes left.
/// Long keys (and with them long identifiers, messages and frames): every length around the
/// steps of the encodings' own length prefixes and well beyond. The entry, the messages of a
/// session that carries it and their frames must survive encode-then-decode, whole and cut.
fn check_long_keys() -> (Bad, u64) {
    let mut bad: Bad = vec![];
    let mut evals = 0u64;
    for len in [63usize, 64, 127, 128, 1000, 4032, 4033, 4096, 4097, 16383, 16384, 20000] {
        let spec = Spec::new(0, 0, &vec![b'k'; len], 1, Val::X);
        let wit = json!({"key_len": len});
        let e = spec.signed();
        evals += 1;
        match postcard::to_stdvec(&e).map_err(|e| e.to_string()).and_then(|b| postcard::from_bytes::<SignedEntry>(&b).map_err(|e| e.to_string())) {
            Ok(back) if back == e => {}
            other => bad.push(("entry_survives_encode_decode", wit.clone(), format!("signed entry with a key of {len} bytes: {:?}", other.map(|_| "decoded to a different entry")))),
        }
        // the messages of a real session carrying it (A holds it, B holds another entry)
        let other = Spec::new(0, 1, b"x", 1, Val::X);
        let ns = ns_id(0);
        let mut pa = Party::build(BackendKind::Mem, 0, &[spec.clone()]);
        let mut pb = Party::build(BackendKind::Mem, 0, &[other]);
        let s = match run_session(&mut pa, &mut pb, ns, DEFAULT_CFG, 64, None) {
            Ok(s) => s,
            Err(e) => {
                bad.push(("message_survives_encode_decode", wit.clone(), format!("session carrying a key of {len} bytes failed: {e:#}")));
                continue;
            }
        };
        for (i, bytes) in s.transcript.iter().enumerate() {
            evals += 1;
            let m: ProtocolMessage = match postcard::from_bytes(bytes) {
                Ok(m) => m,
                Err(e) => {
                    bad.push(("message_survives_encode_decode", wit.clone(), format!("message {i} of a session carrying a key of {len} bytes does not decode from its own encoding: {e}")));
                    continue;
                }
            };
            let frame = if i == 0 { Frame::Init { namespace: ns, message: m } } else { Frame::Sync(m) };
            let enc = encode(&frame);
            let mut cuts = vec![0usize, 1, 3, 4, 5, enc.len() / 2, enc.len() - 1];
            cuts.retain(|c| *c < enc.len());
            for cut in cuts {
                evals += 1;
                let chunks: Vec<&[u8]> = if cut == 0 { vec![&enc[..]] } else { vec![&enc[..cut], &enc[cut..]] };
                match decode_chunks(&chunks) {
                    Ok((frames, 0)) if frames.len() == 1 && frame_eq(&frames[0], &frame) => {}
                    Ok((frames, rest)) => bad.push(("frame_survives_encode_decode", wit.clone(), format!("frame {i} ({} bytes, key of {len} bytes) cut at {cut}: {} frames decoded, {rest} bytes left", enc.len(), frames.len()))),
                    Err(e) => bad.push(("frame_survives_encode_decode", wit.clone(), format!("frame {i} ({} bytes, key of {len} bytes) cut at {cut}: {e}", enc.len()))),
                }
            }
        }
        if pa.dump(ns) != pb.dump(ns) {
            bad.push(("message_survives_encode_decode", wit.clone(), format!("session carrying a key of {len} bytes did not converge")));
        }
    }
    (bad, evals)
}

fn reference_stream(mut buf: &[u8]) -> (Vec<Vec<u8>>, bool, usize) {
    let mut out = vec![];
    loop {
        if buf.len() < 4 {
            return (out, false, buf.len());
        }
        let l = u32::from_be_bytes(buf[..4].try_into().unwrap()) as usize;
        if l > verif_codec::MAX_MESSAGE_SIZE {
            return (out, true, buf.len());
        }
        if buf.len() < 4 + l {
            return (out, false, buf.len());
        }
        let mut one = BytesMut::from(&buf[..4 + l]);
        match verif_codec::decode(&mut one) {
            Ok(Some(f)) if one.is_empty() => out.push(encode(&f)),
            _ => return (out, true, buf.len()),
        }
        buf = &buf[4 + l..];
    }
}

fn sut_stream(bytes: &[u8]) -> (Vec<Vec<u8>>, bool, usize) {
    let mut buf = BytesMut::from(bytes);
    let mut out = vec![];
    loop {
        match verif_codec::decode(&mut buf) {
            Ok(Some(f)) => out.push(encode(&f)),
            Ok(None) => return (out, false, buf.len()),
            Err(_) => return (out, true, buf.len()),
        }
    }
}

/// Streams whose length prefixes lie: every frame of the transcript gets its declared length
/// altered (shorter by 1 and 2, halved, 0, 1, longer by 1, longer by the whole next frame) with
/// the following frames left in place behind it, and every single byte of the first frame's
/// payload area is replaced too (values 0, 1, 0x7f, 0x80, 0xff); the decoder run over the whole
/// stream must do exactly what frame-by-frame decoding of the declared frames does. Then the end
/// of the stream: after a truncation inside a frame, `decode_eof` must report an error (bytes
/// remain that are no frame), after a truncation at a boundary it reports a clean end.
fn check_framing(frames: &[Frame]) -> (Bad, u64) {
    let mut bad: Bad = vec![];
    let mut evals = 0u64;
    let encs: Vec<Vec<u8>> = frames.iter().map(encode).collect();
    let all: Vec<u8> = encs.concat();
    let mut starts = vec![0usize];
    for e in &encs {
        starts.push(starts.last().unwrap() + e.len());
    }
    let mut try_stream = |bytes: &[u8], what: String, bad: &mut Bad| {
        evals += 1;
        match catch(|| (reference_stream(bytes), sut_stream(bytes))) {
            Err(p) => bad.push(("no_panic", json!({"decoder": "frame stream"}), format!("{what}: panic {p}"))),
            Ok((want, got)) => {
                if want != got {
                    bad.push((
                        "stream_decoding_equals_frame_by_frame_decoding",
                        json!({"frames_differ": want.0 != got.0, "error_differs": want.1 != got.1}),
                        format!("{what}: the stream decoder returned {} frames (error: {}, {} bytes left), decoding the declared frames one by one gives {} frames (error: {}, {} bytes left)", got.0.len(), got.1, got.2, want.0.len(), want.1, want.2),
                    ));
                }
            }
        }
    };
    for (fi, e) in encs.iter().enumerate() {
        let l = e.len() - 4;
        let next = encs.get(fi + 1).map(|n| n.len()).unwrap_or(0);
        let mut lens = vec![l.saturating_sub(1), l.saturating_sub(2), l / 2, 0, 1, l + 1];
        if next > 0 {
            lens.push(l + next);
            lens.push(l + 4);
        }
        for nl in lens {
            if nl == l {
                continue;
            }
            let mut bytes = all.clone();
            bytes[starts[fi]..starts[fi] + 4].copy_from_slice(&(nl as u32).to_be_bytes());
            try_stream(&bytes, format!("frame {fi} of {} declares {nl} bytes instead of {l}", encs.len()), &mut bad);
        }
    }
    if let Some(first) = encs.first() {
        for pos in 4..first.len().min(120) {
            for v in [0u8, 1, 0x7f, 0x80, 0xff] {
                if all[pos] == v {
                    continue;
                }
                let mut bytes = all.clone();
                bytes[pos] = v;
                try_stream(&bytes, format!("byte {pos} of the stream set to {v:#x}"), &mut bad);
            }
        }
    }
    // end of stream
    for i in 0..=all.len() {
        evals += 1;
        let mut buf = BytesMut::from(&all[..i]);
        let res = catch(|| {
            let mut n = 0;
            loop {
                match verif_codec::decode_eof(&mut buf) {
                    Ok(Some(_)) => n += 1,
                    Ok(None) => return (n, false),
                    Err(_) => return (n, true),
                }
            }
        });
        let complete = starts.iter().filter(|b| **b <= i && **b > 0).count();
        let inside = !starts.contains(&i);
        match res {
            Err(p) => bad.push(("no_panic", json!({"decoder": "frame, end of stream"}), format!("stream ending at {i}: panic {p}"))),
            Ok((n, err)) => {
                if n != complete || err != inside {
                    bad.push((
                        "stream_ending_inside_a_frame_is_an_error",
                        json!({"ends_inside_a_frame": inside, "reported_error": err}),
                        format!("stream of {} frames ending after {i} bytes ({}): end-of-stream decoding returned {n} frames and {}; {complete} frames are complete", encs.len(), if inside { "inside a frame" } else { "at a frame boundary" }, if err { "an error" } else { "a clean end" }),
                    ));
                }
            }
        }
    }
    (bad, evals)
}

fn length_prefix_cases() -> Bad {
    let mut bad: Bad = vec![];
    let max = verif_codec::MAX_MESSAGE_SIZE as u64;
    for (len, must_err) in [(max, false), (max + 1, true), (u32::MAX as u64, true)] {
        let mut b = BytesMut::new();
        b.extend_from_slice(&(len as u32).to_be_bytes());
        b.extend_from_slice(&[0u8; 16]);
        match catch(|| verif_codec::decode(&mut b)) {
            Err(p) => bad.push(("no_panic", json!({"decoder": "frame"}), format!("length {len}: panic {p}"))),
            Ok(Ok(Some(_))) => bad.push(("oversized_never_yields_frame", json!({}), format!("length {len}: a frame was returned"))),
            Ok(Ok(None)) => {
                if must_err {
                    bad.push(("oversized_is_error", json!({}), format!("length prefix {len} > MAX was answered with 'need more data'")));
                }
            }
            Ok(Err(_)) => {
                if !must_err {
                    bad.push(("max_length_is_accepted", json!({}), format!("length prefix {len} = MAX was rejected")));
                }
            }
        }
    }
    bad
}

// ---------------------------------------------------------------------------------------
// (B) hostile bytes
// ---------------------------------------------------------------------------------------

#[derive(Debug, Clone, Copy, PartialEq, Eq)]
enum Dec {
    Frame,
    Entry,
    Message,
    Heads,
    TicketBytes,
    Policy,
}

const DECS: [Dec; 6] = [
    Dec::Frame,
    Dec::Entry,
    Dec::Message,
    Dec::Heads,
    Dec::TicketBytes,
    Dec::Policy,
];

fn exercise_entry(e: &SignedEntry) {
    let _ = (e.namespace(), e.author(), e.key().len(), e.timestamp(), e.content_len());
    let _ = e.validate_empty();
    let _ = e.verify(&());
    let _ = iroh_docs::verif::entry_fingerprint(e);
    let _ = postcard::to_stdvec(e);
}

fn exercise_message(m: ProtocolMessage, replica: &mut Sut) {
    for (e, _) in iroh_docs::verif::message_values(&m) {
        exercise_entry(&e);
    }
    let mut st = SyncOutcome::default();
    let _ = replica.sync_process(ns_id(0), m, PEER, &mut st);
}

/// Decode `bytes` with decoder `d` and exercise the value. Returns "ok"/"err".
fn decode_with(d: Dec, bytes: &[u8], replica: &mut Sut) -> &'static str {
    match d {
        Dec::Frame => {
            let mut b = BytesMut::from(bytes);
            match verif_codec::decode(&mut b) {
                Ok(Some(f)) => {
                    match f {
                        Frame::Init { message, .. } | Frame::Sync(message) => exercise_message(message, replica),
                        Frame::Abort { .. } => {}
                    }
                    "ok"
                }
                Ok(None) => "none",
                Err(_) => "err",
            }
        }
        Dec::Entry => match postcard::from_bytes::<SignedEntry>(bytes) {
            Ok(e) => {
                exercise_entry(&e);
                let _ = replica.remote(ns_id(0), e);
                "ok"
            }
            Err(_) => "err",
        },
        Dec::Message => match postcard::from_bytes::<ProtocolMessage>(bytes) {
            Ok(m) => {
                exercise_message(m, replica);
                "ok"
            }
            Err(_) => "err",
        },
        Dec::Heads => match AuthorHeads::decode(bytes) {
            Ok(h) => {
                let _ = h.encode(Some(40));
                let _ = h.has_news_for(&AuthorHeads::default());
                "ok"
            }
            Err(_) => "err",
        },
        Dec::TicketBytes => match DocTicket::decode_bytes(bytes) {
            Ok(t) => {
                let _ = t.to_string();
                "ok"
            }
            Err(_) => "err",
        },
        Dec::Policy => match postcard::from_bytes::<DownloadPolicy>(bytes) {
            Ok(p) => {
                let e = Spec::new(0, 0, b"a", 1, Val::X).signed();
                let _ = p.matches(e.entry());
                "ok"
            }
            Err(_) => "err",
        },
    }
}

fn fresh_replica() -> Sut {
    set_clock(NOW);
    let mut s = Sut::memory_with(&[0]);
    for sp in [
        Spec::new(0, 0, b"a", 1, Val::X),
        Spec::new(0, 0, b"b", 2, Val::Y),
        Spec::new(0, 1, b"ab", 2, Val::X),
    ] {
        let _ = s.remote(ns_id(0), sp.signed());
    }
    s
}

fn valid_encodings(tier: Tier) -> Vec<(Dec, Vec<u8>)> {
    let mut v = vec![];
    let states = states_from_subsets(&universe12(), 2);
    let want = if tier == Tier::Quick { 6 } else { 24 };
    let mut seen = std::collections::BTreeSet::new();
    'outer: for (i, a) in states.iter().enumerate().skip(5) {
        for b in states.iter().skip(i % 7).step_by(7) {
            for f in session_frames(&a.offered, &b.offered) {
                let enc = encode(&f);
                if enc.len() > 150 && seen.insert(enc.len()) {
                    if let Frame::Sync(m) | Frame::Init { message: m, .. } = &f {
                        v.push((Dec::Message, postcard::to_stdvec(m).unwrap()));
                    }
                    v.push((Dec::Frame, enc));
                    if seen.len() >= want {
                        break 'outer;
                    }
                }
            }
        }
    }
    v.push((Dec::Frame, encode(&Frame::Abort { reason: iroh_docs::net::AbortReason::AlreadySyncing })));
    for sp in [Spec::new(0, 0, b"a", 2, Val::X), Spec::new(0, 1, b"", 3, Val::Del)] {
        v.push((Dec::Entry, postcard::to_stdvec(&sp.signed()).unwrap()));
    }
    let heads: AuthorHeads = [(author(0).id(), 5u64), (author(1).id(), 200), (iroh_docs::AuthorId::from(&[9u8; 32]), 70000)]
        .into_iter()
        .collect();
    v.push((Dec::Heads, heads.encode(None).unwrap()));
    for t in tickets() {
        v.push((Dec::TicketBytes, t.encode_bytes()));
    }
    for p in [
        DownloadPolicy::default(),
        DownloadPolicy::NothingExcept(vec![FilterKind::Prefix("a".into()), FilterKind::Exact(bytes::Bytes::from_static(b"\xff"))]),
    ] {
        v.push((Dec::Policy, postcard::to_stdvec(&p).unwrap()));
    }
    v
}

fn tickets() -> Vec<DocTicket> {
    let pk = |i: u8| iroh::SecretKey::from_bytes(&[i; 32]).public();
    vec![
        DocTicket::new(Capability::Write(ns_secret(0)), vec![iroh::EndpointAddr::new(pk(1))]),
        DocTicket::new(
            Capability::Read(ns_id(1)),
            vec![
                iroh::EndpointAddr::new(pk(2)).with_ip_addr("127.0.0.1:7777".parse().unwrap()),
                iroh::EndpointAddr::new(pk(3)),
            ],
        ),
    ]
}

fn check_tickets_caps_filters() -> (Bad, u64) {
    let mut bad: Bad = vec![];
    let mut n = 0;
    // author-heads reports: what the encoder writes (no size limit) the decoder reads back —
    // sets of up to 3 authors in every id order, timestamps with ties and at the varint steps
    {
        let ids: Vec<iroh_docs::AuthorId> = vec![iroh_docs::AuthorId::from(&[0u8; 32]), author(0).id(), author(1).id(), iroh_docs::AuthorId::from(&[0xffu8; 32])];
        let tss = [0u64, 1, 1, 127, 128, u64::MAX];
        for mask in 1u32..16 {
            let chosen: Vec<usize> = (0..4).filter(|i| mask >> i & 1 == 1).collect();
            if chosen.len() > 3 {
                continue;
            }
            let mut idx = vec![0usize; chosen.len()];
            loop {
                n += 1;
                let heads: AuthorHeads = chosen.iter().zip(idx.iter()).map(|(a, t)| (ids[*a], tss[*t])).collect();
                match heads.encode(None).map_err(|e| e.to_string()).and_then(|b| AuthorHeads::decode(&b).map_err(|e| e.to_string())) {
                    Ok(back) if back == heads => {}
                    other => bad.push(("heads_report_survives_encode_decode", json!({"authors": chosen.len()}), format!("heads {:?}: {:?}", chosen.iter().zip(idx.iter()).map(|(a, t)| (*a, tss[*t])).collect::<Vec<_>>(), other.map(|_| "decoded to a different set")))),
                }
                // next timestamp assignment
                let mut k = 0;
                while k < idx.len() {
                    idx[k] += 1;
                    if idx[k] < tss.len() {
                        break;
                    }
                    idx[k] = 0;
                    k += 1;
                }
                if k == idx.len() {
                    break;
                }
            }
        }
    }
    for t in tickets() {
        n += 2;
        match DocTicket::decode_bytes(&t.encode_bytes()) {
            Ok(back) if back.encode_bytes() == t.encode_bytes() => {}
            other => bad.push(("ticket_roundtrip", json!({"form": "bytes"}), format!("{:?}", other.map(|_| ())))),
        }
        let s = t.to_string();
        match DocTicket::from_str(&s) {
            Ok(back) if back.encode_bytes() == t.encode_bytes() => {}
            other => bad.push(("ticket_roundtrip", json!({"form": "string"}), format!("{s}: {:?}", other.map(|_| ())))),
        }
        // single-character corruptions of the string form
        let chars: Vec<char> = s.chars().collect();
        for i in 0..chars.len() {
            for c in ['a', 'z', '0', '7', '=', ':', 'A', '\u{e9}'] {
                n += 1;
                let mut cs = chars.clone();
                cs[i] = c;
                let s2: String = cs.into_iter().collect();
                if let Err(p) = catch(|| DocTicket::from_str(&s2).map(|t| t.to_string())) {
                    bad.push(("no_panic", json!({"decoder": "ticket string"}), format!("{s2}: {p}")));
                }
            }
        }
    }
    // a ticket without nodes must not decode
    let empty = DocTicket::new(Capability::Read(ns_id(0)), vec![]);
    n += 1;
    if DocTicket::decode_bytes(&empty.encode_bytes()).is_ok() {
        bad.push(("ticket_needs_a_node", json!({}), "a ticket without nodes decoded".into()));
    }
    // textual (hex) form of secret keys, public keys and ids: every short string over a small
    // alphabet, and every truncation / extension / doubling / one-character corruption of a valid
    // 64-digit form must give a value or an error; the valid form must round-trip
    {
        use iroh_docs::{AuthorId, AuthorPublicKey, NamespaceId, NamespacePublicKey};
        let mut inputs: Vec<String> = vec![String::new()];
        let alpha = ['0', 'f', 'A', 'g', ' ', '\u{e9}'];
        for a in alpha {
            inputs.push(a.to_string());
            for b in alpha {
                inputs.push(format!("{a}{b}"));
                for c in ['0', 'z'] {
                    inputs.push(format!("{a}{b}{c}"));
                }
            }
        }
        let valid = [
            hex::encode(author(0).to_bytes()),
            hex::encode(ns_secret(0).to_bytes()),
            hex::encode(author(0).id().to_bytes()),
            hex::encode(ns_id(0).to_bytes()),
            hex::encode([0u8; 32]),
            hex::encode([0xffu8; 32]),
        ];
        for v in &valid {
            for cut in 0..v.len() {
                inputs.push(v[..cut].to_string());
            }
            inputs.push(v.clone());
            inputs.push(format!("{v}0"));
            inputs.push(format!("{v}00"));
            inputs.push(format!("{v}{v}"));
            inputs.push(v.to_uppercase());
            for i in [0usize, 1, 31, 32, 62, 63] {
                for c in ['g', ' ', 'F'] {
                    let mut cs: Vec<char> = v.chars().collect();
                    cs[i] = c;
                    inputs.push(cs.into_iter().collect());
                }
            }
        }
        for s in &inputs {
            n += 6;
            let calls: [(&str, Box<dyn Fn() -> Option<String> + '_>); 6] = [
                ("Author", Box::new(|| Author::from_str(s).ok().map(|a| hex::encode(a.to_bytes())))),
                ("NamespaceSecret", Box::new(|| NamespaceSecret::from_str(s).ok().map(|a| hex::encode(a.to_bytes())))),
                ("AuthorId", Box::new(|| AuthorId::from_str(s).ok().map(|a| hex::encode(a.to_bytes())))),
                ("NamespaceId", Box::new(|| NamespaceId::from_str(s).ok().map(|a| hex::encode(a.to_bytes())))),
                ("AuthorPublicKey", Box::new(|| AuthorPublicKey::from_str(s).ok().map(|a| hex::encode(a.as_bytes())))),
                ("NamespacePublicKey", Box::new(|| NamespacePublicKey::from_str(s).ok().map(|a| hex::encode(a.as_bytes())))),
            ];
            for (name, call) in calls.iter() {
                match catch(|| call()) {
                    Err(p) => bad.push(("no_panic", json!({"decoder": "key text form", "type": name}), format!("{name}::from_str({s:?}): {p}"))),
                    Ok(Some(back)) => {
                        // whatever is accepted must be the 32 bytes the digits spell
                        if back != s.to_lowercase() {
                            bad.push(("key_text_roundtrip", json!({"type": name}), format!("{name}::from_str({s:?}) gave {back}")));
                        }
                    }
                    Ok(None) => {
                        if valid[..4].contains(s) && !(name.ends_with("PublicKey") || name.ends_with("Id")) {
                            bad.push(("key_text_roundtrip", json!({"type": name}), format!("{name}::from_str rejected a valid 64-digit form")));
                        }
                    }
                }
            }
        }
        // Display -> FromStr of the real keys
        n += 4;
        if Author::from_str(&author(0).to_string()).map(|a| a.to_bytes()).ok() != Some(author(0).to_bytes()) {
            bad.push(("key_text_roundtrip", json!({"type": "Author"}), "Display -> FromStr".into()));
        }
        if NamespaceSecret::from_str(&ns_secret(0).to_string()).map(|a| a.to_bytes()).ok() != Some(ns_secret(0).to_bytes()) {
            bad.push(("key_text_roundtrip", json!({"type": "NamespaceSecret"}), "Display -> FromStr".into()));
        }
        if AuthorId::from_str(&author(0).id().to_string()).ok() != Some(author(0).id()) {
            bad.push(("key_text_roundtrip", json!({"type": "AuthorId"}), "Display -> FromStr".into()));
        }
        if NamespaceId::from_str(&ns_id(0).to_string()).ok() != Some(ns_id(0)) {
            bad.push(("key_text_roundtrip", json!({"type": "NamespaceId"}), "Display -> FromStr".into()));
        }
    }
    // capabilities
    for kind in 0..=255u8 {
        for bytes in [[0u8; 32], [0xffu8; 32], ns_secret(0).to_bytes(), ns_id(0).to_bytes()] {
            n += 1;
            match catch(|| Capability::from_raw(kind, &bytes)) {
                Err(p) => bad.push(("no_panic", json!({"decoder": "capability"}), format!("kind {kind}: {p}"))),
                Ok(Ok(c)) => {
                    if !(kind == 1 || kind == 2) {
                        bad.push(("capability_kinds", json!({}), format!("kind {kind} accepted")));
                    } else if c.raw() != (kind, bytes) {
                        bad.push(("capability_raw_roundtrip", json!({}), format!("kind {kind}: raw() differs")));
                    }
                }
                Ok(Err(_)) => {
                    if kind == 1 || kind == 2 {
                        bad.push(("capability_kinds", json!({}), format!("kind {kind} rejected")));
                    }
                }
            }
        }
    }
    // filter values through their textual form (bytes incl. whitespace, colon, non-UTF-8)
    {
        const TB: [u8; 10] = [0x61, 0x62, 0x3a, 0xff, 0x00, 0x20, 0x0a, 0x09, 0xc3, 0xa9];
        let mut values: Vec<Vec<u8>> = vec![vec![]];
        for a in TB {
            values.push(vec![a]);
            for b in TB {
                values.push(vec![a, b]);
                values.push(vec![a, 0x61, b]);
            }
        }
        for v in values {
            for exact in [true, false] {
                n += 1;
                let f = if exact {
                    FilterKind::Exact(bytes::Bytes::from(v.clone()))
                } else {
                    FilterKind::Prefix(bytes::Bytes::from(v.clone()))
                };
                match catch(|| FilterKind::from_str(&f.to_string())) {
                    Err(p) => bad.push(("no_panic", json!({"decoder": "filter"}), format!("{f:?}: {p}"))),
                    Ok(Ok(back)) if back == f => {}
                    Ok(other) => bad.push((
                        "filter_value_roundtrip",
                        json!({"utf8": std::str::from_utf8(&v).is_ok()}),
                        format!("{f:?} -> {:?} -> {:?}", f.to_string(), other.map_err(|e| e.to_string())),
                    )),
                }
            }
        }
    }
    // filter strings: single-character corruptions and deletions of valid forms
    for base in ["prefix:utf8:ab", "exact:hex:00ff", "exact:utf8:", "prefix:hex:", "exact:utf8:a:b"] {
        let chars: Vec<char> = base.chars().collect();
        let mut variants = vec![base.to_string()];
        for i in 0..chars.len() {
            for c in [':', 'x', 'g', '0', 'f', 'p', 'e', ' ', '\u{e9}', '\0'] {
                let mut cs = chars.clone();
                cs[i] = c;
                variants.push(cs.into_iter().collect());
            }
            let mut cs = chars.clone();
            cs.remove(i);
            variants.push(cs.into_iter().collect());
        }
        for v in variants {
            n += 1;
            match catch(|| FilterKind::from_str(&v).map(|f| (f.to_string(), f))) {
                Err(p) => bad.push(("no_panic", json!({"decoder": "filter"}), format!("{v:?}: {p}"))),
                Ok(Ok((s, f))) => {
                    // what parses must survive its own textual form
                    if FilterKind::from_str(&s).ok() != Some(f) {
                        bad.push(("filter_text_roundtrip", json!({}), format!("{v:?} -> {s:?} does not parse back")));
                    }
                }
                Ok(Err(_)) => {}
            }
        }
    }
    (bad, n)
}

// ---------------------------------------------------------------------------------------
// (C) pins
// ---------------------------------------------------------------------------------------

fn check_pins() -> (Bad, u64) {
    let mut bad: Bad = vec![];
    let mut n = 0;
    let a = Author::from_bytes(&[0xa1; 32]);
    let nsx = NamespaceSecret::from_bytes(&[0xb2; 32]);
    let mut pin = |name: &str, got: Vec<u8>, want: &str| {
        n += 1;
        if hex::encode(&got) != want {
            bad.push(("pinned_encoding", json!({"what": name}), format!("{name}: {} != {want}", hex::encode(&got))));
        }
    };
    pin("author", postcard::to_stdvec(&a).unwrap(), "20a1a1a1a1a1a1a1a1a1a1a1a1a1a1a1a1a1a1a1a1a1a1a1a1a1a1a1a1a1a1a1a1");
    pin("namespace secret", postcard::to_stdvec(&nsx).unwrap(), "20b2b2b2b2b2b2b2b2b2b2b2b2b2b2b2b2b2b2b2b2b2b2b2b2b2b2b2b2b2b2b2b2");
    let record = iroh_docs::sync::Record::new(iroh_blobs::Hash::EMPTY, 0, 1_700_000_000_000_000u64);
    let signed = SignedEntry::from_parts(&nsx, &a, b"wire-format-test", record);
    pin("signed entry", postcard::to_stdvec(&signed).unwrap(), "4b523f1b6d9b00a4779fc9f8f105a9e36f062ceb7d511b632905782042ad30acb6dd07bfced4ecd5f3aa58321e8ace63f48f988ed8461bfdcd8b0e902187a10e228ddc6998329b7faa64875fe80da36406ea8d87e3e57bb048323e9cb66c0b343b60c4e709fb978b878e37d0c362edfc06c8cdc774c8b29d94e48eaa06cca60f5055154f42065ea5a1bea05463826be2684eb92df92c100027aabaae57ca554207bc7cbcb5636375fa1d82434d466724d92377f53b980695dd49d26d0ce12205a5776972652d666f726d61742d7465737400af1349b9f5f9a1a6a0404dea36dcc9499bcb25c9adc112b7cc9a93cae41f32628080f9c0c1c48203");
    // ids are the raw public key bytes
    n += 2;
    if a.id().to_bytes() != *a.public_key().as_bytes() || nsx.id().to_bytes() != *nsx.public_key().as_bytes() {
        bad.push(("pinned_encoding", json!({"what": "ids"}), "author / namespace id is not the raw public key".into()));
    }
    // independent layout encoder for the whole universe
    for sp in universe(0, &[0, 1], &K7, 3) {
        n += 1;
        let e = sp.signed();
        let (h, l) = sp.val.hash_len();
        let mut id = ns_id(0).to_bytes().to_vec();
        id.extend_from_slice(author(sp.author).id().as_bytes());
        id.extend_from_slice(&sp.key);
        let mut raw = RawSigned {
            author_sig: [0; 64],
            ns_sig: [0; 64],
            id,
            len: l,
            hash: *h.as_bytes(),
            ts: sp.timestamp(),
        };
        let msg = raw.signing_bytes();
        raw.author_sig = author(sp.author).sign(&msg).to_bytes();
        raw.ns_sig = ns_secret(0).sign(&msg).to_bytes();
        let got = postcard::to_stdvec(&e).unwrap();
        if got != raw.encode() {
            bad.push(("entry_layout_matches_independent_encoder", json!({}), format!("{sp}: {} vs {}", hex::encode(&got), hex::encode(raw.encode()))));
        }
        match postcard::from_bytes::<SignedEntry>(&raw.encode()) {
            Ok(back) if back == e => {}
            _ => bad.push(("entry_layout_matches_independent_encoder", json!({"direction": "decode"}), format!("{sp}"))),
        }
    }
    (bad, n)
}

// ---------------------------------------------------------------------------------------

fn run(ctx: &Ctx, report: &mut Report) {
    crate::util::silence_panics();
    let mut ordinal = 0u64;
    // (A)
    let states = states_from_subsets(&universe12(), 2);
    let mut seen = std::collections::BTreeSet::new();
    for a in &states {
        for b in &states {
            ordinal += 1;
            if !ctx.mine(ordinal) {
                continue;
            }
            let case = json!({"transcript_of": {"a": a.offered, "b": b.offered}});
            match catch(|| {
                let frames = session_frames(&a.offered, &b.offered);
                let digest = fnv(&frames.iter().flat_map(|f| encode(f)).collect::<Vec<u8>>());
                (frames, digest)
            }) {
                Err(p) => report.violation("no_panic", json!({"part": "A"}), case, format!("panic: {p}"), ordinal),
                Ok((frames, digest)) => {
                    if !seen.insert(digest) {
                        continue;
                    }
                    match catch(|| {
                        let (mut bad, mut evals, cuts) = check_transcript(&frames, if ctx.quick() { 300 } else { 800 });
                        let (b2, e2) = check_framing(&frames);
                        bad.extend(b2);
                        evals += e2;
                        (bad, evals, cuts)
                    }) {
                        Err(p) => report.violation("no_panic", json!({"part": "A"}), case, format!("panic: {p}"), ordinal),
                        Ok((bad, evals, cuts)) => {
                            report.evaluations += evals;
                            report.nontrivial += cuts;
                            report.count("distinct_transcripts", 1);
                            report.maximum("frames_per_transcript", frames.len() as u64);
                            for (o, w, d) in bad {
                                report.violation(o, w, case.clone(), d, ordinal);
                            }
                            if frames.len() >= 3 || report.samples.is_empty() {
                                report.sample(|| json!({"transcript_frames": frames.len(), "bytes": frames.iter().map(|f| encode(f).len()).collect::<Vec<_>>(), "chunkings": evals}));
                            }
                        }
                    }
                }
            }
        }
    }
    if ctx.shard == 1 % ctx.of {
        let case = json!({"long_keys": true});
        match catch(check_long_keys) {
            Err(p) => report.violation("no_panic", json!({"part": "long keys"}), case, format!("panic: {p}"), 0),
            Ok((bad, evals)) => {
                report.evaluations += evals;
                report.nontrivial += evals;
                report.count("long_key_evaluations", evals);
                for (o, w, d) in bad {
                    report.violation(o, w, case.clone(), d, 0);
                }
            }
        }
    }
    if ctx.shard == 0 {
        report.evaluations += 3;
        for (o, w, d) in length_prefix_cases() {
            report.violation(o, w, json!({"length_prefix": true}), d, 0);
        }
        let (bad, n) = check_tickets_caps_filters();
        report.evaluations += n;
        for (o, w, d) in bad {
            report.violation(o, w, json!({"tickets_caps_filters": true}), d, 0);
        }
        let (bad, n) = check_pins();
        report.evaluations += n;
        for (o, w, d) in bad {
            report.violation(o, w, json!({"pins": true}), d, 0);
        }
    }
    // (B) short strings
    let maxlen = if ctx.quick() { 2 } else { 3 };
    let mut replica = fresh_replica();
    let mut uses = 0u32;
    for len in 0..=maxlen {
        let total = 256u64.pow(len as u32);
        for v in 0..total {
            ordinal += 1;
            if !ctx.mine(ordinal) {
                continue;
            }
            let bytes: Vec<u8> = (0..len).map(|i| ((v >> (8 * i)) & 0xff) as u8).collect();
            for d in DECS {
                report.evaluations += 1;
                let _watch = crate::util::watch::enter("decoder on hostile bytes", json!({"decoder": format!("{d:?}"), "bytes": hex::encode(&bytes)}));
                match catch(|| decode_with(d, &bytes, &mut replica)) {
                    Err(p) => report.violation("no_panic", json!({"decoder": format!("{d:?}"), "input": "short string"}), json!({"decoder": format!("{d:?}"), "bytes": hex::encode(&bytes)}), format!("{d:?} on {}: {p}", hex::encode(&bytes)), ordinal),
                    Ok(r) => {
                        report.outcome(format!("{d:?}:{r}"));
                        if r == "ok" {
                            report.nontrivial += 1;
                            uses += 1;
                        }
                    }
                }
            }
            if uses > 2000 {
                replica = fresh_replica();
                uses = 0;
            }
        }
    }
    // (B) single-byte replacements of valid encodings
    for (d, enc) in valid_encodings(ctx.tier) {
        for pos in 0..enc.len() {
            ordinal += 1;
            if !ctx.mine(ordinal) {
                continue;
            }
            let full = !ctx.quick() || pos < 48;
            let values: Vec<u8> = if full {
                (0..=255u8).filter(|b| *b != enc[pos]).collect()
            } else {
                let o = enc[pos];
                let mut v = vec![o ^ 1, o ^ 0x80, 0, 0xff];
                v.retain(|b| *b != o);
                v.dedup();
                v
            };
            for val in values {
                let mut bytes = enc.clone();
                bytes[pos] = val;
                report.evaluations += 1;
                let _watch = crate::util::watch::enter("decoder on hostile bytes", json!({"decoder": format!("{d:?}"), "bytes": hex::encode(&bytes)}));
                match catch(|| decode_with(d, &bytes, &mut replica)) {
                    Err(p) => {
                        report.violation("no_panic", json!({"decoder": format!("{d:?}"), "input": "corrupted valid encoding"}), json!({"decoder": format!("{d:?}"), "bytes": hex::encode(&bytes)}), format!("{d:?} with byte {pos} := {val:#x}: {p}"), ordinal);
                        replica = fresh_replica();
                    }
                    Ok(r) => {
                        report.outcome(format!("{d:?}:{r}"));
                        if r == "ok" {
                            report.nontrivial += 1;
                            uses += 1;
                            if report.samples.len() < 5 && pos > 130 {
                                report.samples.push(json!({"decoder": format!("{d:?}"), "valid_encoding_bytes": enc.len(), "byte": pos, "replaced_by": val, "result": "decoded; value exercised on the real code"}));
                            }
                        }
                    }
                }
                if uses > 500 {
                    replica = fresh_replica();
                    uses = 0;
                }
            }
        }
    }
    let _ = block_on(async {});
}

fn parse_dec(s: &str) -> Dec {
    DECS.into_iter().find(|d| format!("{d:?}") == s).unwrap_or(Dec::Frame)
}

fn replay(case: &Value) -> anyhow::Result<(bool, String)> {
    if let Some(b) = case.get("bytes") {
        let d = parse_dec(case["decoder"].as_str().unwrap_or("Frame"));
        let bytes = hex::decode(b.as_str().unwrap_or(""))?;
        let mut replica = fresh_replica();
        return match catch(|| decode_with(d, &bytes, &mut replica)) {
            Err(p) => Ok((true, format!("{d:?} on {} bytes: panic {p}", bytes.len()))),
            Ok(r) => Ok((false, format!("{d:?}: {r}"))),
        };
    }
    if case.get("long_keys").is_some() {
        return match catch(check_long_keys) {
            Err(p) => Ok((true, format!("panic: {p}"))),
            Ok((bad, _)) => {
                let out: String = bad.iter().map(|(o, _, d)| format!("FAILED {o}: {d}\n")).collect();
                Ok((!bad.is_empty(), format!("long keys\n{out}")))
            }
        };
    }
    if let Some(t) = case.get("transcript_of") {
        let a: Vec<Spec> = serde_json::from_value(t["a"].clone())?;
        let b: Vec<Spec> = serde_json::from_value(t["b"].clone())?;
        let frames = session_frames(&a, &b);
        let (mut bad, _, _) = check_transcript(&frames, 800);
        bad.extend(check_framing(&frames).0);
        let out: String = bad.iter().map(|(o, _, d)| format!("FAILED {o}: {d}\n")).collect();
        return Ok((!bad.is_empty(), format!("{} frames\n{out}", frames.len())));
    }
    let mut bad = length_prefix_cases();
    bad.extend(check_tickets_caps_filters().0);
    bad.extend(check_pins().0);
    let out: String = bad.iter().map(|(o, _, d)| format!("FAILED {o}: {d}\n")).collect();
    Ok((!bad.is_empty(), out))
}
