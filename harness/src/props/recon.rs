//! Shared reconciliation machinery for C01 / C08 / C04: state enumeration, a reference
//! ordered-map backend driven by the crate's own algorithm, and a session runner over any
//! combination of participants.

use std::collections::{BTreeMap, BTreeSet};

use iroh_docs::{
    sync::{Record, RecordIdentifier, SignedEntry, SyncOutcome},
    verif::{self, Adapter, OrderedBackend},
    NamespaceId, ProtocolMessage,
};

use crate::{
    refmodel::ModelReplica,
    sut::{block_on, Sut},
    universe::{ns_id, Spec, Val},
};

pub type Cfg = (usize, usize); // (max_set_size, split_factor)
pub const DEFAULT_CFG: Cfg = (1, 2);
pub const CFGS: [Cfg; 4] = [(1, 2), (1, 3), (2, 2), (3, 4)];

// ------------------------------------------------------------------------------------------
// reference ordered-map backend (mathematical definitions)
// ------------------------------------------------------------------------------------------

#[derive(Debug, Default, Clone)]
pub struct RefBackend {
    pub map: BTreeMap<Vec<u8>, SignedEntry>,
}

pub fn range_contains(x: &[u8], y: &[u8], t: &[u8]) -> bool {
    use std::cmp::Ordering::*;
    match x.cmp(y) {
        Equal => true,
        Less => x <= t && t < y,
        Greater => x <= t || t < y,
    }
}

fn id_bytes(e: &SignedEntry) -> Vec<u8> {
    e.id().as_bytes().to_vec()
}

pub fn xor_fingerprint<'a>(es: impl Iterator<Item = &'a SignedEntry>) -> [u8; 32] {
    let mut fp = verif::empty_fingerprint();
    for e in es {
        let f = verif::entry_fingerprint(e);
        for (a, b) in fp.iter_mut().zip(f.iter()) {
            *a ^= b;
        }
    }
    fp
}

impl OrderedBackend for RefBackend {
    fn get_first(&mut self) -> anyhow::Result<RecordIdentifier> {
        Ok(match self.map.values().next() {
            Some(e) => e.id().clone(),
            None => RecordIdentifier::default(),
        })
    }
    fn get_fingerprint(
        &mut self,
        x: &RecordIdentifier,
        y: &RecordIdentifier,
    ) -> anyhow::Result<[u8; 32]> {
        let (x, y) = (x.as_ref(), y.as_ref());
        Ok(xor_fingerprint(
            self.map
                .iter()
                .filter(|(k, _)| range_contains(x, y, k))
                .map(|(_, e)| e),
        ))
    }
    fn entry_put(&mut self, entry: SignedEntry) -> anyhow::Result<()> {
        self.map.insert(id_bytes(&entry), entry);
        Ok(())
    }
    fn get_range(
        &mut self,
        x: &RecordIdentifier,
        y: &RecordIdentifier,
    ) -> anyhow::Result<Vec<SignedEntry>> {
        let (x, y) = (x.as_ref(), y.as_ref());
        Ok(self
            .map
            .iter()
            .filter(|(k, _)| range_contains(x, y, k))
            .map(|(_, e)| e.clone())
            .collect())
    }
    fn prefixes_of(&mut self, key: &RecordIdentifier) -> anyhow::Result<Vec<SignedEntry>> {
        let key = key.as_ref();
        Ok(self
            .map
            .iter()
            .filter(|(k, _)| k.len() >= 64 && key.starts_with(k))
            .map(|(_, e)| e.clone())
            .collect())
    }
    fn remove_prefix_filtered(
        &mut self,
        prefix: &RecordIdentifier,
        predicate: &dyn Fn(&Record) -> bool,
    ) -> anyhow::Result<usize> {
        let prefix = prefix.as_ref();
        let doomed: Vec<Vec<u8>> = self
            .map
            .iter()
            .filter(|(k, e)| k.starts_with(prefix) && predicate(e.entry().record()))
            .map(|(k, _)| k.clone())
            .collect();
        for k in &doomed {
            self.map.remove(k);
        }
        Ok(doomed.len())
    }
}

// ------------------------------------------------------------------------------------------
// participants
// ------------------------------------------------------------------------------------------

#[derive(Debug, Clone, Copy, PartialEq, Eq, serde::Serialize, serde::Deserialize)]
pub enum BackendKind {
    Mem,
    File,
    Ref,
    /// in-memory store behind a store actor that keeps the replica open for the party's lifetime
    Actor,
}

pub enum Party {
    Real {
        sut: Sut,
        _dir: Option<tempfile::TempDir>,
    },
    Ref(Adapter<RefBackend>),
    /// the replica is opened once (sync on) and stays open: whatever an open replica keeps between
    /// operations and between sessions is in play
    Actor(iroh_docs::actor::SyncHandle),
}

impl Drop for Party {
    fn drop(&mut self) {
        if let Party::Actor(h) = self {
            let _ = crate::sut::block_on_park(h.shutdown());
        }
    }
}

pub fn scratch_dir() -> tempfile::TempDir {
    let base = if std::path::Path::new("/dev/shm").is_dir() {
        std::path::PathBuf::from("/dev/shm")
    } else {
        std::env::temp_dir()
    };
    tempfile::Builder::new()
        .prefix("vp-store-")
        .tempdir_in(base)
        .expect("tempdir")
}

impl Party {
    /// A fresh participant holding the state reached by offering `offered` in order.
    pub fn build(kind: BackendKind, ns_i: u8, offered: &[Spec]) -> Party {
        let ns = ns_id(ns_i);
        match kind {
            BackendKind::Mem => {
                let mut sut = Sut::memory_with(&[ns_i]);
                for s in offered {
                    let _ = sut.remote(ns, s.signed());
                }
                Party::Real { sut, _dir: None }
            }
            BackendKind::File => {
                let dir = scratch_dir();
                let mut sut =
                    Sut::persistent_with(&dir.path().join("docs.redb"), &[ns_i]).expect("store");
                for s in offered {
                    let _ = sut.remote(ns, s.signed());
                }
                Party::Real {
                    sut,
                    _dir: Some(dir),
                }
            }
            BackendKind::Ref => {
                let mut a = Adapter(RefBackend::default());
                for s in offered {
                    let _ = verif::backend_put(&mut a, s.signed()).expect("ref put");
                }
                Party::Ref(a)
            }
            BackendKind::Actor => {
                let mut store = iroh_docs::store::Store::memory();
                store
                    .import_namespace(iroh_docs::Capability::Write(crate::universe::ns_secret(ns_i)))
                    .expect("import");
                let h = iroh_docs::actor::SyncHandle::spawn(store, None, "party".into());
                crate::sut::block_on_park(h.open(ns, iroh_docs::actor::OpenOpts::default().sync())).expect("open");
                for s in offered {
                    let _ = crate::sut::block_on_park(h.insert_remote(ns, s.signed(), crate::sut::PEER, iroh_docs::ContentStatus::Missing));
                }
                Party::Actor(h)
            }
        }
    }

    pub fn dump(&mut self, ns: NamespaceId) -> Vec<SignedEntry> {
        match self {
            Party::Real { sut, .. } => sut.dump(ns),
            Party::Ref(a) => a.0.map.values().cloned().collect(),
            Party::Actor(h) => crate::sut::block_on_park(crate::sut::handle_dump(h, ns)).expect("dump through the store actor"),
        }
    }

    pub fn initial(&mut self, ns: NamespaceId) -> anyhow::Result<ProtocolMessage> {
        match self {
            Party::Real { sut, .. } => sut.sync_initial(ns),
            Party::Ref(a) => verif::backend_initial_message(a),
            Party::Actor(h) => crate::sut::block_on_park(h.sync_initial_message(ns)),
        }
    }

    pub fn process(
        &mut self,
        ns: NamespaceId,
        cfg: Cfg,
        msg: ProtocolMessage,
        from: [u8; 32],
        state: &mut SyncOutcome,
    ) -> anyhow::Result<Option<ProtocolMessage>> {
        match self {
            Party::Real { sut, .. } => {
                // the unmodified Replica::sync_process_message reads SyncConfig::default(),
                // which the hook overrides for non-default settings
                verif::set_sync_config(if cfg == DEFAULT_CFG { None } else { Some(cfg) });
                let r = sut.sync_process(ns, msg, from, state);
                verif::set_sync_config(None);
                r
            }
            Party::Ref(a) => block_on(verif::backend_process_message(
                a,
                Some(cfg),
                ns,
                msg,
                from,
                state,
            )),
            Party::Actor(h) => {
                verif::set_sync_config(if cfg == DEFAULT_CFG { None } else { Some(cfg) });
                let r = crate::sut::block_on_park(h.sync_process_message(ns, msg, from, std::mem::take(state)));
                verif::set_sync_config(None);
                let (reply, st) = r?;
                *state = st;
                Ok(reply)
            }
        }
    }
}

pub struct Session {
    pub a: SyncOutcome,
    pub b: SyncOutcome,
    pub messages: usize,
    pub transcript: Vec<Vec<u8>>,
    pub terminated: bool,
    /// Entries carried by the messages each side processed / emitted, and the per-author maximum
    /// timestamp over the entries it processed (what `SyncOutcome` is documented to hold).
    pub a_carried: Carried,
    pub b_carried: Carried,
}

#[derive(Default, Debug, Clone)]
pub struct Carried {
    pub received: usize,
    pub sent: usize,
    pub heads: std::collections::BTreeMap<[u8; 32], u64>,
}

impl Carried {
    fn recv(&mut self, msg: &ProtocolMessage) {
        for (e, _) in verif::message_values(msg) {
            self.received += 1;
            let h = self.heads.entry(e.author().to_bytes()).or_insert(0);
            *h = (*h).max(e.timestamp());
        }
    }
    /// None if `o` says exactly what was carried.
    pub fn mismatch(&self, o: &SyncOutcome) -> Option<String> {
        let got: std::collections::BTreeMap<[u8; 32], u64> =
            o.heads_received.iter().map(|(a, t)| (a.to_bytes(), *t)).collect();
        if got != self.heads || o.num_recv != self.received || o.num_sent != self.sent {
            let show = |m: &std::collections::BTreeMap<[u8; 32], u64>| {
                m.iter().map(|(a, t)| format!("{}@{}", hex::encode(&a[..2]), t)).collect::<Vec<_>>().join(",")
            };
            return Some(format!(
                "outcome sent/recv={}/{} heads=[{}] but the messages carried sent/recv={}/{} heads=[{}]",
                o.num_sent, o.num_recv, show(&got), self.sent, self.received, show(&self.heads)
            ));
        }
        None
    }
}

/// One complete session, `alice` initiating. `stop_after`: abort after that many messages have
/// been *processed* (None = run to completion).
pub fn run_session(
    alice: &mut Party,
    bob: &mut Party,
    ns: NamespaceId,
    cfg: Cfg,
    max_messages: usize,
    stop_after: Option<usize>,
) -> anyhow::Result<Session> {
    let mut a = SyncOutcome::default();
    let mut b = SyncOutcome::default();
    let mut transcript = vec![];
    let mut next = Some(alice.initial(ns)?);
    let mut messages = 0usize;
    let mut to_bob = true;
    let mut terminated = true;
    let mut processed = 0usize;
    let (mut ca, mut cb) = (Carried::default(), Carried::default());
    while let Some(msg) = next.take() {
        messages += 1;
        transcript.push(postcard::to_stdvec(&msg)?);
        if messages > max_messages {
            terminated = false;
            break;
        }
        if let Some(k) = stop_after {
            if processed >= k {
                terminated = false;
                break;
            }
        }
        next = if to_bob {
            cb.recv(&msg);
            let r = bob.process(ns, cfg, msg, [1u8; 32], &mut b)?;
            if let Some(r) = &r {
                cb.sent += verif::message_values(r).len();
            }
            r
        } else {
            ca.recv(&msg);
            let r = alice.process(ns, cfg, msg, [2u8; 32], &mut a)?;
            if let Some(r) = &r {
                ca.sent += verif::message_values(r).len();
            }
            r
        };
        processed += 1;
        to_bob = !to_bob;
    }
    Ok(Session {
        a,
        b,
        messages,
        transcript,
        terminated,
        a_carried: ca,
        b_carried: cb,
    })
}

// ------------------------------------------------------------------------------------------
// state enumeration
// ------------------------------------------------------------------------------------------

/// A reachable replica state: the offered entries (in offer order) and the expected antichain.
#[derive(Debug, Clone)]
pub struct State {
    pub offered: Vec<Spec>,
    pub model: ModelReplica,
    pub canon: Vec<Spec>,
}

pub fn state_of(offered: Vec<Spec>) -> State {
    let signed: Vec<SignedEntry> = offered.iter().map(|s| s.signed()).collect();
    let model = ModelReplica::spec(&signed);
    let mut canon: Vec<Spec> = model
        .dump()
        .iter()
        .map(|e| Spec::of(e, 4, 4).expect("alphabet entry"))
        .collect();
    canon.sort();
    State {
        offered,
        model,
        canon,
    }
}

/// All distinct states reachable by offering a subset of size <= k of `universe`.
pub fn states_from_subsets(universe: &[Spec], k: usize) -> Vec<State> {
    let mut seen = BTreeSet::new();
    let mut out = vec![];
    for sub in crate::util::subsets_up_to(universe.len(), k) {
        let offered: Vec<Spec> = sub.iter().map(|&i| universe[i].clone()).collect();
        let st = state_of(offered);
        if seen.insert(st.canon.clone()) {
            out.push(st);
        }
    }
    out
}

/// Non-trivial pair: the two sets differ and some entry of one side is prefix-related (same
/// author, keys prefix-related incl. equal) to a different entry of the other side.
pub fn nontrivial_pair(a: &State, b: &State) -> bool {
    if a.canon == b.canon {
        return false;
    }
    a.canon.iter().any(|x| {
        b.canon
            .iter()
            .any(|y| x != y && super::common::related(x, y))
    })
}

/// The 12-entry universe of the quick tier.
pub fn universe12() -> Vec<Spec> {
    vec![
        Spec::new(0, 0, b"", 2, Val::Del),
        Spec::new(0, 0, b"", 1, Val::X),
        Spec::new(0, 0, b"a", 1, Val::X),
        Spec::new(0, 0, b"a", 2, Val::Del),
        Spec::new(0, 0, b"a", 3, Val::Y),
        Spec::new(0, 0, b"a\xff", 2, Val::X),
        Spec::new(0, 0, b"ab", 1, Val::X),
        Spec::new(0, 0, b"ab", 3, Val::X),
        Spec::new(0, 0, b"b", 1, Val::X),
        Spec::new(0, 0, b"b", 1, Val::Y),
        Spec::new(0, 1, b"a", 2, Val::X),
        Spec::new(0, 1, b"ab", 1, Val::Del),
    ]
}

/// 16-entry universe (thorough, subsets <= 3).
pub fn universe16() -> Vec<Spec> {
    let mut u = universe12();
    u.extend([
        Spec::new(0, 0, b"\xff", 2, Val::X),
        Spec::new(0, 0, b"\xff\xff", 1, Val::Y),
        Spec::new(0, 0, b"a\xff\xff", 2, Val::Y),
        Spec::new(0, 0, b"", 3, Val::Y),
        Spec::new(0, 1, b"", 2, Val::Del),
    ]);
    u
}

/// 24-entry universe (thorough, subsets <= 2, all parameter settings).
pub fn universe24() -> Vec<Spec> {
    let mut u = universe16();
    u.extend([
        Spec::new(0, 0, b"a", 2, Val::X),
        Spec::new(0, 0, b"a\xff", 2, Val::Del),
        Spec::new(0, 0, b"a\xff", 3, Val::Y),
        Spec::new(0, 0, b"ab", 2, Val::Del),
        Spec::new(0, 0, b"b", 3, Val::Del),
        Spec::new(0, 0, b"\xff", 3, Val::Del),
        Spec::new(0, 1, b"b", 3, Val::X),
        Spec::new(0, 1, b"\xff", 1, Val::X),
    ]);
    u
}

/// The "large state" family: a 7-entry base and every state obtained by <= 2 substitutions.
pub fn large_family() -> Vec<State> {
    let base: Vec<Spec> = vec![
        Spec::new(0, 0, b"a", 1, Val::X),
        Spec::new(0, 0, b"ab", 2, Val::X),
        Spec::new(0, 0, b"b", 1, Val::X),
        Spec::new(0, 0, b"c", 2, Val::Y),
        Spec::new(0, 0, b"d", 1, Val::X),
        Spec::new(0, 1, b"a", 2, Val::X),
        Spec::new(0, 1, b"z", 1, Val::Y),
    ];
    // alternatives: (slot to drop or usize::MAX for pure addition, new entry)
    let mut alts: Vec<(usize, Spec)> = vec![];
    for (i, b) in base.iter().enumerate() {
        alts.push((i, Spec::new(b.ns, b.author, &b.key, 3, Val::Y))); // newer
        alts.push((i, Spec::new(b.ns, b.author, &b.key, 3, Val::Del))); // deleted
    }
    alts.push((usize::MAX, Spec::new(0, 0, b"", 3, Val::Del)));
    alts.push((usize::MAX, Spec::new(0, 0, b"a", 2, Val::Del)));
    alts.push((usize::MAX, Spec::new(0, 0, b"e", 1, Val::X)));
    alts.push((usize::MAX, Spec::new(0, 0, b"a\xff", 1, Val::X)));
    alts.push((usize::MAX, Spec::new(0, 1, b"", 1, Val::X)));
    alts.push((usize::MAX, Spec::new(0, 1, b"zz", 3, Val::X)));
    let mut seen = BTreeSet::new();
    let mut out = vec![];
    for sub in crate::util::subsets_up_to(alts.len(), 2) {
        let mut offered = base.clone();
        for &i in &sub {
            offered.push(alts[i].1.clone());
        }
        let st = state_of(offered);
        if seen.insert(st.canon.clone()) {
            out.push(st);
        }
    }
    out
}

/// All subsets of `n` flat (prefix-unrelated) keys of one author: exercises the range splitting
/// arithmetic with every combination of set sizes up to n.
pub fn flat_states(n: usize) -> Vec<State> {
    let keys: [&[u8]; 10] = [b"k0", b"k1", b"k2", b"k3", b"k4", b"k5", b"k6", b"k7", b"k8", b"k9"];
    let mut out = vec![];
    for mask in 0u32..(1 << n) {
        let offered: Vec<Spec> = (0..n)
            .filter(|i| mask >> i & 1 == 1)
            .map(|i| Spec::new(0, 0, keys[i], 1, Val::X))
            .collect();
        out.push(state_of(offered));
    }
    out
}
