//! C18 — opening an older database rebuilds derived tables exactly; reopening is a no-op.

use std::collections::BTreeMap;

use iroh_docs::{sync::SignedEntry, NamespaceId};
use redb::{ReadableDatabase, TableDefinition};
use serde_json::{json, Value};

use super::{
    c05::{reference, Kind, AF, KF, Q},
    common::{dump_by_key, set_clock},
    recon::scratch_dir,
};
use crate::{
    report::Report,
    sut::Sut,
    universe::{ns_id, show_entries, Spec, Val, NOW, T0},
    util::{catch, subsets_up_to},
    Ctx, PropDef, Tier,
};

pub fn def() -> PropDef {
    PropDef {
        id: "C18",
        level: "exploration",
        rule: "file-backed stores built from every subset of size <= k of a 16-entry universe (2 documents x 2 authors x keys {'',a,ab}, equal timestamps, deletion markers), flushed and closed; then, with plain redb, the per-author head table, the by-key index, both or neither are deleted and the store is reopened 1..3 times; in two further variants the file is also given the shape of the oldest versions (documents listed in table namespaces-1, the current table absent, both derived tables absent) (each subset offered in universe order and in reverse order, so that on equal timestamps the maintained head is not always the one at the greatest key); heads must equal the per-author maximum over the records, key-ordered queries (flat key-author and latest-per-key, both directions, with and without empties) must equal the query oracle, and without deletion the whole observable content must be identical after every reopen; a large database (2100 authors in one document, two entries each, the newest at the smaller key for every other author) goes through the same four variants with two reopen cycles; non-trivial = a non-empty store with at least one derived table deleted",
        assumptions: &["tables are deleted whole (as an older version would simply not have them); partially filled derived tables are outside the statement", "where several keys attain an author's maximal timestamp any of them is accepted as the head's key"],
        bound: |t| match t {
            Tier::Quick => json!({"subsets": "<= 4 of 16 (2517 stores)", "variants": "4 x 2 arrival orders", "reopen_cycles": "1..3", "large": "2100 authors x 2 entries x 4 variants"}),
            Tier::Thorough => json!({"subsets": "<= 5 of 16 (6885 stores)", "variants": "4 x 2 arrival orders", "reopen_cycles": "1..3", "large": "2100 authors x 2 entries x 4 variants"}),
        },
        run,
        replay,
        shards: |_| 16,
    }
}

const HEADS: TableDefinition<(&[u8; 32], &[u8; 32]), (u64, &[u8])> =
    TableDefinition::new("latest-by-author-1");
const BY_KEY: TableDefinition<(&[u8; 32], &[u8], &[u8; 32]), ()> =
    TableDefinition::new("records-by-key-1");

fn universe16() -> Vec<Spec> {
    let mut v = vec![];
    for d in [0u8, 1] {
        for a in [0u8, 1] {
            // an author must be able to hold entries with different timestamps (child newer
            // than its parent, unrelated keys), equal timestamps, and deletion markers
            // and the author's newest entry must not always sit at its greatest key (records are
            // scanned in key order): author 0 has its newest entry at the greatest key, author 1
            // at a small key
            if a == 0 {
                v.push(Spec::new(d, a, b"ab", 2, Val::Y));
                v.push(Spec::new(d, a, b"a", 1, Val::X));
                v.push(Spec::new(d, a, b"b", 3, Val::Del));
                v.push(Spec::new(d, a, b"", 1, Val::X));
            } else {
                v.push(Spec::new(d, a, b"ab", 3, Val::Y));
                v.push(Spec::new(d, a, b"a", 2, Val::Del));
                v.push(Spec::new(d, a, b"b", 1, Val::X));
                v.push(Spec::new(d, a, b"c", 2, Val::X));
            }
        }
    }
    v
}

#[derive(Debug, Clone, PartialEq, Eq)]
struct Observed {
    docs: Vec<(Vec<SignedEntry>, Vec<SignedEntry>, Vec<([u8; 32], u64, Vec<u8>)>)>,
    namespaces: Vec<NamespaceId>,
}

fn observe(sut: &mut Sut) -> Observed {
    let mut docs = vec![];
    for d in [0u8, 1] {
        let ns = ns_id(d);
        let heads = sut
            .heads(ns)
            .into_iter()
            .map(|(a, t, k)| (a.to_bytes(), t, k))
            .collect();
        docs.push((sut.dump(ns), dump_by_key(sut, ns), heads));
    }
    let namespaces = sut
        .store
        .list_namespaces()
        .expect("list")
        .map(|r| r.expect("ns").0)
        .collect();
    Observed { docs, namespaces }
}

fn key_queries() -> Vec<Q> {
    let mut v = vec![];
    for kind in [Kind::FlatKeyAuthor, Kind::LatestPerKey] {
        for desc in [false, true] {
            for include_empty in [true, false] {
                for kf in [KF::Any, KF::Prefix(b"a".to_vec()), KF::Exact(b"".to_vec())] {
                    v.push(Q {
                        kind,
                        af: AF::Any,
                        kf,
                        desc,
                        include_empty,
                        offset: 0,
                        limit: None,
                    });
                }
            }
        }
    }
    v
}

/// variant bit 0: delete heads table, bit 1: delete by-key table
fn run_case(offered: &[Spec], variant: u8) -> (Vec<(&'static str, String)>, u64) {
    set_clock(NOW);
    let mut bad = vec![];
    let mut checks = 0u64;
    let dir = scratch_dir();
    let path = dir.path().join("docs.redb");
    let maintained = {
        let mut sut = Sut::persistent_with(&path, &[0, 1]).expect("store");
        // bit 2 of the variant: entries arrive in the reverse order (where two entries of an
        // author share its greatest timestamp the maintained head names the one stored last,
        // which is then not the one at the greatest key)
        let order: Vec<&Spec> = if variant & 4 != 0 { offered.iter().rev().collect() } else { offered.iter().collect() };
        for s in order {
            let _ = sut.remote(ns_id(s.ns), s.signed());
        }
        let o = observe(&mut sut);
        sut.store.flush().expect("flush");
        o
    };
    let reversed = variant & 4 != 0;
    // bit 3: the documents are listed the way the oldest versions did it (table namespaces-1:
    // id -> secret), the current table does not exist yet
    let old_namespaces = variant & 8 != 0;
    let variant = variant & 3;
    let _ = reversed;
    if variant != 0 || old_namespaces {
        let db = redb::Database::create(&path).expect("plain redb open");
        let tx = db.begin_write().expect("begin_write");
        if old_namespaces {
            const NS2: TableDefinition<&[u8; 32], (u8, &[u8; 32])> = TableDefinition::new("namespaces-2");
            const NS1: TableDefinition<&[u8; 32], &[u8; 32]> = TableDefinition::new("namespaces-1");
            let rows: Vec<([u8; 32], u8, [u8; 32])> = {
                let t = tx.open_table(NS2).expect("namespaces-2");
                let v = redb::ReadableTable::iter(&t).expect("iter").map(|r| {
                    let (k, v) = r.expect("row");
                    let (kind, bytes) = v.value();
                    (*k.value(), kind, *bytes)
                }).collect();
                v
            };
            {
                let mut t1 = tx.open_table(NS1).expect("namespaces-1");
                for (id, kind, bytes) in &rows {
                    if *kind != 1 {
                        bad.push(("MACHINERY_table_deleted", "a read-only document cannot be written into namespaces-1".to_string()));
                    }
                    t1.insert(id, bytes).expect("insert v1");
                }
            }
            tx.delete_table(NS2).expect("delete namespaces-2");
        }
        if variant & 1 != 0 {
            tx.delete_table(HEADS).expect("delete heads");
        }
        if variant & 2 != 0 {
            tx.delete_table(BY_KEY).expect("delete by-key");
        }
        tx.commit().expect("commit");
        // sanity: the tables are really gone
        let rtx = db.begin_read().expect("read");
        if variant & 1 != 0 && rtx.open_table(HEADS).is_ok() {
            bad.push(("MACHINERY_table_deleted", "heads table still present".to_string()));
        }
        drop(rtx);
        drop(db);
    }
    let queries = key_queries();
    for cycle in 1..=3 {
        let mut sut = match Sut::persistent(&path) {
            Ok(s) => s,
            Err(e) => {
                bad.push(("reopen_ok", format!("cycle {cycle}: {e:#}")));
                break;
            }
        };
        let now = observe(&mut sut);
        checks += 1;
        if variant == 0 && now != maintained {
            bad.push((
                "reopen_is_a_noop",
                format!("cycle {cycle}: observable content changed by reopening an up-to-date database"),
            ));
        }
        for d in [0u8, 1] {
            let (dump, by_key, heads) = &now.docs[d as usize];
            if *dump != maintained.docs[d as usize].0 {
                bad.push((
                    "records_untouched",
                    format!("cycle {cycle} doc {d}: records changed: {}", show_entries(dump)),
                ));
            }
            // heads = per-author maximum over the records
            let mut want: BTreeMap<[u8; 32], u64> = BTreeMap::new();
            for e in dump {
                let t = want.entry(e.author().to_bytes()).or_insert(0);
                *t = (*t).max(e.timestamp());
            }
            let got: BTreeMap<[u8; 32], u64> = heads.iter().map(|(a, t, _)| (*a, *t)).collect();
            checks += 1;
            if got != want || heads.len() != want.len() {
                bad.push((
                    "heads_rebuilt_exactly",
                    format!(
                        "cycle {cycle} doc {d}: heads impl={:?} want={:?}",
                        got.values().map(|t| t - T0).collect::<Vec<_>>(),
                        want.values().map(|t| t - T0).collect::<Vec<_>>()
                    ),
                ));
            } else {
                for (a, t, k) in heads {
                    if !dump
                        .iter()
                        .any(|e| e.author().to_bytes() == *a && e.key() == &k[..] && e.timestamp() == *t)
                    {
                        bad.push((
                            "head_key_attains_max",
                            format!("cycle {cycle} doc {d}: head key does not hold the head timestamp"),
                        ));
                    }
                }
            }
            // key-ordered queries
            let mut sorted = by_key.clone();
            sorted.sort_by_key(|e| (e.author().to_bytes(), e.key().to_vec()));
            if sorted != *dump {
                bad.push((
                    "by_key_index_rebuilt_exactly",
                    format!(
                        "cycle {cycle} doc {d}: by-key listing {} vs records {}",
                        show_entries(by_key),
                        show_entries(dump)
                    ),
                ));
            }
            for q in &queries {
                checks += 1;
                let (accept, _) = reference(dump, q);
                let got: Vec<SignedEntry> = {
                    // queries of C05 are bound to document 0; build for this document directly
                    use iroh_docs::store::{Query, SortBy, SortDirection};
                    let dir = if q.desc { SortDirection::Desc } else { SortDirection::Asc };
                    let query = match q.kind {
                        Kind::LatestPerKey => {
                            let mut b = Query::single_latest_per_key().sort_direction(dir);
                            b = match &q.kf { KF::Any => b, KF::Exact(k) => b.key_exact(k), KF::Prefix(p) => b.key_prefix(p) };
                            if q.include_empty { b = b.include_empty(); }
                            b.build()
                        }
                        _ => {
                            let mut b = Query::all().sort_by(SortBy::KeyAuthor, dir);
                            b = match &q.kf { KF::Any => b, KF::Exact(k) => b.key_exact(k), KF::Prefix(p) => b.key_prefix(p) };
                            if q.include_empty { b = b.include_empty(); }
                            b.build()
                        }
                    };
                    sut.store
                        .get_many(ns_id(d), query)
                        .expect("get_many")
                        .collect::<anyhow::Result<Vec<_>>>()
                        .expect("item")
                };
                if !accept.contains(&got) {
                    bad.push((
                        "key_ordered_query_after_rebuild",
                        format!(
                            "cycle {cycle} doc {d} {q:?}: impl={} reference={}",
                            show_entries(&got),
                            show_entries(&accept[0])
                        ),
                    ));
                }
            }
        }
        if now.namespaces != maintained.namespaces {
            bad.push(("namespaces_untouched", format!("cycle {cycle}")));
        }
        sut.store.flush().expect("flush");
    }
    (bad, checks)
}

/// A large database: `m` authors in one document, two entries each — for every other author the
/// newest entry sits at the smaller key, for the others at the greater one (records are scanned
/// in key order). variant as in `run_case` (bit 0: heads table deleted, bit 1: by-key table).
fn run_many_authors(m: u32, variant: u8) -> (Vec<(&'static str, String)>, u64) {
    use iroh_docs::sync::Record;
    set_clock(NOW);
    let mut bad = vec![];
    let mut checks = 0u64;
    let dir = scratch_dir();
    let path = dir.path().join("docs.redb");
    let ns = ns_id(0);
    let observe_big = |sut: &mut Sut| -> (Vec<SignedEntry>, Vec<SignedEntry>, Vec<([u8; 32], u64, Vec<u8>)>) {
        let heads = sut.heads(ns).into_iter().map(|(a, t, k)| (a.to_bytes(), t, k)).collect();
        (sut.dump(ns), dump_by_key(sut, ns), heads)
    };
    let maintained = {
        let mut sut = Sut::persistent_with(&path, &[0]).expect("store");
        for i in 0..m {
            let mut seed = [0x5au8; 32];
            seed[..4].copy_from_slice(&i.to_be_bytes());
            let author = iroh_docs::Author::from_bytes(&seed);
            let (h, l) = Val::X.hash_len();
            // every seventh author has written at timestamp 0 only (the smallest legal value)
            let (ts_a, ts_z) = if i % 7 == 3 { (0, 0) } else if i % 2 == 0 { (T0 + 2, T0 + 1) } else { (T0 + 1, T0 + 2) };
            for (key, ts) in [(&b"z"[..], ts_z), (&b"a"[..], ts_a)] {
                let e = SignedEntry::from_parts(&crate::universe::ns_secret(0), &author, key, Record::new(h, l, ts));
                let _ = sut.remote(ns, e);
            }
        }
        let o = observe_big(&mut sut);
        sut.store.flush().expect("flush");
        o
    };
    if maintained.0.len() != 2 * m as usize {
        bad.push(("MACHINERY_table_deleted", format!("large store holds {} entries, expected {}", maintained.0.len(), 2 * m)));
        return (bad, checks);
    }
    if variant != 0 {
        let db = redb::Database::create(&path).expect("plain redb open");
        let tx = db.begin_write().expect("begin_write");
        if variant & 1 != 0 {
            tx.delete_table(HEADS).expect("delete heads");
        }
        if variant & 2 != 0 {
            tx.delete_table(BY_KEY).expect("delete by-key");
        }
        tx.commit().expect("commit");
        drop(db);
    }
    for cycle in 1..=2 {
        let mut sut = match Sut::persistent(&path) {
            Ok(s) => s,
            Err(e) => {
                bad.push(("reopen_ok", format!("cycle {cycle}: {e:#}")));
                break;
            }
        };
        let (dump, by_key, heads) = observe_big(&mut sut);
        checks += 3;
        if variant == 0 && (dump.clone(), by_key.clone(), heads.clone()) != maintained {
            bad.push(("reopen_is_a_noop", format!("{m} authors, cycle {cycle}: observable content changed by reopening an up-to-date database")));
        }
        if dump != maintained.0 {
            bad.push(("records_untouched", format!("{m} authors, cycle {cycle}: records changed")));
        }
        let mut want: BTreeMap<[u8; 32], u64> = BTreeMap::new();
        for e in &dump {
            let t = want.entry(e.author().to_bytes()).or_insert(0);
            *t = (*t).max(e.timestamp());
        }
        let got: BTreeMap<[u8; 32], u64> = heads.iter().map(|(a, t, _)| (*a, *t)).collect();
        if got != want || heads.len() != want.len() {
            let wrong = want.iter().filter(|(a, t)| got.get(*a) != Some(t)).count();
            bad.push(("heads_rebuilt_exactly", format!("{m} authors with two entries each, cycle {cycle}: {wrong} of {} heads differ from the per-author maximum over the records ({} heads reported)", want.len(), heads.len())));
        } else {
            for (a, t, k) in &heads {
                if !dump.iter().any(|e| e.author().to_bytes() == *a && e.key() == &k[..] && e.timestamp() == *t) {
                    bad.push(("head_key_attains_max", format!("{m} authors, cycle {cycle}: a head's key does not hold the head timestamp")));
                    break;
                }
            }
        }
        let mut sorted = by_key.clone();
        sorted.sort_by_key(|e| (e.author().to_bytes(), e.key().to_vec()));
        if sorted != dump {
            bad.push(("by_key_index_rebuilt_exactly", format!("{m} authors, cycle {cycle}: the by-key listing has {} entries, the records {}", by_key.len(), dump.len())));
        }
        let mut in_key_order = dump.clone();
        in_key_order.sort_by_key(|e| (e.key().to_vec(), e.author().to_bytes()));
        if by_key != in_key_order {
            bad.push(("key_ordered_query_after_rebuild", format!("{m} authors, cycle {cycle}: the key-author listing is not the records in (key, author) order")));
        }
        sut.store.flush().expect("flush");
    }
    (bad, checks)
}

const MANY_AUTHORS: u32 = 2100;

fn run(ctx: &Ctx, report: &mut Report) {
    crate::util::silence_panics();
    if ctx.shard == 12 % ctx.of {
        report.evaluations += 1;
        report.count("old_format_store_files", 1);
        let case = json!({"old_format_peers": 2});
        match crate::util::catch(|| super::oldfmt::check(2, "C18")) {
            Err(p) => report.violation("no_panic", json!({"old_format": true}), case, format!("panic: {p}"), 0),
            Ok(bad) => {
                for (o, d) in bad {
                    if o == "MACHINERY" {
                        report.machinery_error(d);
                    } else {
                        report.violation(o, json!({"old_format": true}), case.clone(), d, 0);
                    }
                }
            }
        }
    }
    for variant in 0u8..4 {
        let ordinal = (1u64 << 40) + 5 + 3 * variant as u64;
        if !ctx.mine(ordinal) {
            continue;
        }
        report.evaluations += 1;
        report.nontrivial += (variant != 0) as u64;
        report.count("large_databases", 1);
        let case = json!({"many_authors": MANY_AUTHORS, "variant": variant});
        match catch(|| run_many_authors(MANY_AUTHORS, variant)) {
            Err(p) => report.violation("no_panic", json!({"variant": variant, "large": true}), case, format!("panic: {p}"), ordinal),
            Ok((bad, checks)) => {
                report.count("checks", checks);
                for (o, d) in bad {
                    if o.starts_with("MACHINERY") {
                        report.machinery_error(d);
                    } else {
                        report.violation(o, json!({"variant": variant, "large": true}), case.clone(), d, ordinal);
                    }
                }
            }
        }
    }
    let u = universe16();
    let k = if ctx.quick() { 4 } else { 5 };
    let mut ordinal = 0u64;
    for sub in subsets_up_to(u.len(), k) {
        let offered: Vec<Spec> = sub.iter().map(|&i| u[i].clone()).collect();
        for variant in [0u8, 1, 2, 3, 4, 5, 6, 7, 11, 15] {
            if variant & 4 != 0 && offered.len() < 2 {
                continue;
            }
            ordinal += 1;
            if !ctx.mine(ordinal) {
                continue;
            }
            report.evaluations += 1;
            if !offered.is_empty() && variant & 3 != 0 {
                report.nontrivial += 1;
            }
            let case = json!({"offered": offered, "variant": variant});
            match catch(|| run_case(&offered, variant)) {
                Err(p) => report.violation("no_panic", json!({"variant": variant}), case, format!("panic: {p}"), ordinal),
                Ok((bad, checks)) => {
                    report.count("checks", checks);
                    report.outcome(format!("v{variant}:n{}", offered.len()));
                    for (o, d) in bad {
                        if o.starts_with("MACHINERY") {
                            report.machinery_error(d);
                        } else {
                            report.violation(o, json!({"variant": variant}), case.clone(), d, ordinal);
                        }
                    }
                    if offered.len() == 3 && variant & 3 == 3 {
                        report.sample(|| json!({"offered": offered.iter().map(|s| s.to_string()).collect::<Vec<_>>(), "deleted": "heads+by-key", "reopen_cycles": 3, "checks": checks}));
                    }
                }
            }
        }
    }
}

fn replay(case: &Value) -> anyhow::Result<(bool, String)> {
    if let Some(n) = case.get("old_format_peers").and_then(|n| n.as_u64()) {
        let bad = crate::util::catch(|| super::oldfmt::check(n as u8, "C18")).map_err(|p| anyhow::anyhow!(p))?;
        let out: String = bad.iter().map(|(o, d)| format!("FAILED {o}: {d}\n")).collect();
        return Ok((!bad.is_empty(), format!("store file of the redb 2.x format\n{out}")));
    }
    if let Some(m) = case.get("many_authors").and_then(|m| m.as_u64()) {
        let variant = case["variant"].as_u64().unwrap_or(3) as u8;
        return match catch(|| run_many_authors(m as u32, variant)) {
            Err(p) => Ok((true, format!("panic: {p}"))),
            Ok((bad, _)) => {
                let out: String = bad.iter().map(|(o, d)| format!("FAILED {o}: {d}\n")).collect();
                Ok((!bad.is_empty(), format!("{m} authors, variant {variant}\n{out}")))
            }
        };
    }
    let offered: Vec<Spec> = serde_json::from_value(case["offered"].clone())?;
    let variant = case["variant"].as_u64().unwrap_or(3) as u8;
    match catch(|| run_case(&offered, variant)) {
        Err(p) => Ok((true, format!("panic: {p}"))),
        Ok((bad, _)) => {
            let mut out = format!(
                "offered {:?} variant {variant}\n",
                offered.iter().map(|s| s.to_string()).collect::<Vec<_>>()
            );
            for (o, d) in &bad {
                out.push_str(&format!("FAILED {o}: {d}\n"));
            }
            Ok((!bad.is_empty(), out))
        }
    }
}
