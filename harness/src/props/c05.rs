//! C05 — queries return exactly the entries, order and window the query describes.

use iroh_docs::{
    store::{Query, SortBy, SortDirection},
    sync::SignedEntry,
    AuthorId,
};
use serde::{Deserialize, Serialize};
use serde_json::{json, Value};

use super::recon::{state_of, states_from_subsets, State};
use crate::{
    report::Report,
    sut::Sut,
    universe::{author_id, ns_id, show_entries, show_key, Spec, Val, K9},
    util::{catch, fnv},
    Ctx, PropDef, Tier,
};

pub fn def() -> PropDef {
    PropDef {
        id: "C05",
        level: "exploration",
        rule: "every replica state reachable by offering a subset of a two-author universe over keys {'',a,a\\xff,a\\xff\\xff,ab,b,b\\x00,\\xff,\\xff\\xff} (children offered before parents so that prefix deletion leaves stale by-key index rows) x the full product query kind {flat author-key, flat key-author, latest-per-key} x author filter {any,A1,A2,unknown} x key filter {any, exact k, prefix p} x direction x include-empty x window {offset 0,1,2 x limit none,0,1,2} + six windows at the ends of the number range (limit 2^64-1 with offsets 0,1; offset 2 with limit 2^64-2; offset 2^64-1 alone, with limit 2^64-1; offset 2^64-2 with limit 2), plus get_exact for every (author,key,include_empty); a further state holds an author whose id ends in 0xFF next to raw entries of byte-neighbouring author ids, queried with the whole product for author filter {any, that author}; one big state (two authors, 150 keys, 225 entries, markers) is queried with windows around 64, 150, 225 and 256 entries; family api: the big state and a sample of the small states are written and queried through the docs API of a real Engine (Doc::set_hash / del / get_many / get_exact: RPC actor, store actor, results streamed in chunks), all queries for the small states, windows around the stream's chunk size for the big one, and twice read by a slow reader (a pause of 1.5 s, thorough 7 s, after three entries); the oracle is a list comprehension over the reference dump; non-trivial = the reference answer before offset/limit is non-empty and the query has a filter, a non-default order or a window",
        assumptions: &[
            "latest-per-key follows the statement and the API documentation: key filter before grouping, greatest timestamp among all authors, author filter after grouping; among several entries tied for the greatest timestamp any is accepted",
            "states hold at most 4 offered entries",
        ],
        bound: |t| match t {
            Tier::Quick => json!({"states": "subsets <= 3 of a 15-entry universe", "queries_per_state": 10944}),
            Tier::Thorough => json!({"states": "subsets <= 4 of the 15-entry universe and subsets <= 3 of a 23-entry universe", "queries_per_state": 10944}),
        },
        run,
        replay,
        shards: |_| 16,
    }
}

fn universe14() -> Vec<Spec> {
    // children first, parents (and deletion markers at prefixes) later
    vec![
        Spec::new(0, 0, b"ab", 1, Val::X),
        Spec::new(0, 0, b"ab", 3, Val::Y),
        Spec::new(0, 0, b"a\xff", 1, Val::X),
        Spec::new(0, 0, b"a\xff\xff", 1, Val::Y),
        Spec::new(0, 0, b"\xff\xff", 2, Val::Del),
        Spec::new(0, 0, b"\xff", 1, Val::X),
        Spec::new(0, 0, b"b", 2, Val::X),
        Spec::new(0, 0, b"a", 1, Val::X),
        Spec::new(0, 0, b"a", 2, Val::Del),
        Spec::new(0, 0, b"", 1, Val::X),
        Spec::new(0, 1, b"\xff\xff", 1, Val::X),
        Spec::new(0, 1, b"ab", 1, Val::Del),
        Spec::new(0, 1, b"b", 1, Val::X),
        Spec::new(0, 1, b"a", 3, Val::X),
        Spec::new(0, 1, b"", 2, Val::X),
    ]
}

fn universe22() -> Vec<Spec> {
    let mut u = universe14();
    u.extend([
        Spec::new(0, 0, b"b", 2, Val::Y),
        Spec::new(0, 0, b"a\xff", 2, Val::Del),
        Spec::new(0, 0, b"", 3, Val::Del),
        Spec::new(0, 1, b"a\xff", 2, Val::X),
        Spec::new(0, 1, b"b", 2, Val::Del),
        Spec::new(0, 1, b"\xff", 1, Val::Y),
        Spec::new(0, 1, b"ab", 3, Val::X),
        Spec::new(0, 1, b"a", 1, Val::Del),
    ]);
    u
}

#[derive(Debug, Clone, Copy, PartialEq, Eq, Serialize, Deserialize)]
pub enum Kind {
    FlatAuthorKey,
    FlatKeyAuthor,
    LatestPerKey,
}

#[derive(Debug, Clone, Copy, PartialEq, Eq, Serialize, Deserialize)]
pub enum AF {
    Any,
    A(u8),
    Unknown,
}

#[derive(Debug, Clone, PartialEq, Eq, Serialize, Deserialize)]
pub enum KF {
    Any,
    Exact(#[serde(with = "crate::universe::hexkey")] Vec<u8>),
    Prefix(#[serde(with = "crate::universe::hexkey")] Vec<u8>),
}

#[derive(Debug, Clone, PartialEq, Eq, Serialize, Deserialize)]
pub struct Q {
    pub kind: Kind,
    pub af: AF,
    pub kf: KF,
    pub desc: bool,
    pub include_empty: bool,
    pub offset: u64,
    pub limit: Option<u64>,
}

fn unknown_author() -> AuthorId {
    AuthorId::from(&[0x55u8; 32])
}

impl Q {
    fn author(&self) -> Option<AuthorId> {
        match self.af {
            AF::Any => None,
            AF::A(i) => Some(author_id(i)),
            AF::Unknown => Some(unknown_author()),
        }
    }
    fn build(&self) -> Query {
        let dir = if self.desc {
            SortDirection::Desc
        } else {
            SortDirection::Asc
        };
        macro_rules! common {
            ($b:expr) => {{
                let mut b = $b;
                if let Some(a) = self.author() {
                    b = b.author(a);
                }
                b = match &self.kf {
                    KF::Any => b,
                    KF::Exact(k) => b.key_exact(k),
                    KF::Prefix(p) => b.key_prefix(p),
                };
                if self.include_empty {
                    b = b.include_empty();
                }
                if self.offset > 0 {
                    b = b.offset(self.offset);
                }
                if let Some(l) = self.limit {
                    b = b.limit(l);
                }
                b
            }};
        }
        match self.kind {
            Kind::FlatAuthorKey => common!(Query::all().sort_by(SortBy::AuthorKey, dir)).build(),
            Kind::FlatKeyAuthor => common!(Query::all().sort_by(SortBy::KeyAuthor, dir)).build(),
            Kind::LatestPerKey => {
                common!(Query::single_latest_per_key().sort_direction(dir)).build()
            }
        }
    }
    fn key_matches(&self, k: &[u8]) -> bool {
        match &self.kf {
            KF::Any => true,
            KF::Exact(e) => e == k,
            KF::Prefix(p) => k.starts_with(p),
        }
    }
    fn author_matches(&self, a: &AuthorId) -> bool {
        match self.author() {
            None => true,
            Some(x) => x == *a,
        }
    }
}

fn is_del(e: &SignedEntry) -> bool {
    Val::of(e) == Some(Val::Del)
}

/// The reference answer(s): all acceptable result lists (more than one only with timestamp ties
/// in latest-per-key) and whether the pre-window answer is non-empty.
pub fn reference(dump: &[SignedEntry], q: &Q) -> (Vec<Vec<SignedEntry>>, bool) {
    let window = |mut v: Vec<SignedEntry>| -> Vec<SignedEntry> {
        if q.desc {
            v.reverse();
        }
        if !q.include_empty {
            v.retain(|e| !is_del(e));
        }
        let v: Vec<SignedEntry> = v.into_iter().skip(q.offset as usize).collect();
        match q.limit {
            Some(l) => v.into_iter().take(l as usize).collect(),
            None => v,
        }
    };
    let matching: Vec<SignedEntry> = dump
        .iter()
        .filter(|e| q.key_matches(e.key()))
        .cloned()
        .collect();
    match q.kind {
        Kind::FlatAuthorKey | Kind::FlatKeyAuthor => {
            let mut v: Vec<SignedEntry> = matching
                .into_iter()
                .filter(|e| q.author_matches(&e.author()))
                .collect();
            if q.kind == Kind::FlatAuthorKey {
                v.sort_by_key(|e| (e.author().to_bytes(), e.key().to_vec()));
            } else {
                v.sort_by_key(|e| (e.key().to_vec(), e.author().to_bytes()));
            }
            let nonempty = v.iter().any(|e| q.include_empty || !is_del(e));
            (vec![window(v)], nonempty)
        }
        Kind::LatestPerKey => {
            let mut keys: Vec<Vec<u8>> = matching.iter().map(|e| e.key().to_vec()).collect();
            keys.sort();
            keys.dedup();
            // per key the candidates with the greatest timestamp among all authors
            let mut choices: Vec<Vec<SignedEntry>> = vec![vec![]];
            for k in &keys {
                let group: Vec<&SignedEntry> = matching.iter().filter(|e| e.key() == &k[..]).collect();
                let max = group.iter().map(|e| e.timestamp()).max().unwrap();
                let cands: Vec<&SignedEntry> =
                    group.into_iter().filter(|e| e.timestamp() == max).collect();
                let mut next = vec![];
                for c in &choices {
                    for cand in &cands {
                        let mut c2 = c.clone();
                        c2.push((*cand).clone());
                        next.push(c2);
                    }
                }
                choices = next;
            }
            let mut out = vec![];
            let mut nonempty = false;
            for c in choices {
                let v: Vec<SignedEntry> = c
                    .into_iter()
                    .filter(|e| q.author_matches(&e.author()))
                    .collect();
                nonempty |= v.iter().any(|e| q.include_empty || !is_del(e));
                let w = window(v);
                if !out.contains(&w) {
                    out.push(w);
                }
            }
            (out, nonempty)
        }
    }
}

fn all_queries() -> Vec<Q> {
    let mut kfs = vec![KF::Any];
    for k in K9 {
        kfs.push(KF::Exact(k.to_vec()));
    }
    for k in K9 {
        kfs.push(KF::Prefix(k.to_vec()));
    }
    let mut v = vec![];
    for kind in [Kind::FlatAuthorKey, Kind::FlatKeyAuthor, Kind::LatestPerKey] {
        for af in [AF::Any, AF::A(0), AF::A(1), AF::Unknown] {
            for kf in &kfs {
                for desc in [false, true] {
                    for include_empty in [true, false] {
                        let mut windows: Vec<(u64, Option<u64>)> = vec![];
                        for offset in [0, 1, 2] {
                            for limit in [None, Some(0), Some(1), Some(2)] {
                                windows.push((offset, limit));
                            }
                        }
                        // the ends of the number range: a window is "skip, then take", whatever
                        // the sum of the two would be
                        windows.extend([(0, Some(u64::MAX)), (1, Some(u64::MAX)), (2, Some(u64::MAX - 1)), (u64::MAX, None), (u64::MAX, Some(u64::MAX)), (u64::MAX - 1, Some(2))]);
                        for (offset, limit) in windows {
                            v.push(Q {
                                kind,
                                af,
                                kf: kf.clone(),
                                desc,
                                include_empty,
                                offset,
                                limit,
                            });
                        }
                    }
                }
            }
        }
    }
    v
}

fn witness(q: &Q, dump: &[SignedEntry]) -> Value {
    let newer_other = match (q.kind, q.af) {
        (Kind::LatestPerKey, AF::A(i)) => dump.iter().any(|e| {
            e.author() == author_id(i)
                && q.key_matches(e.key())
                && dump.iter().any(|o| {
                    o.key() == e.key() && o.author() != e.author() && o.timestamp() > e.timestamp()
                })
        }),
        _ => false,
    };
    json!({
        "kind": q.kind,
        "author_filter": match q.af { AF::Any => "any", AF::A(_) => "exact", AF::Unknown => "unknown" },
        "key_filter": match &q.kf { KF::Any => "any", KF::Exact(_) => "exact", KF::Prefix(_) => "prefix" },
        "prefix_ends_ff": matches!(&q.kf, KF::Prefix(p) if p.last() == Some(&0xff)),
        "newer_entry_by_other_author": newer_other,
    })
}

fn run_query(sut: &mut Sut, q: &Q) -> anyhow::Result<Vec<SignedEntry>> {
    sut.store.get_many(ns_id(0), q.build())?.collect()
}

/// Check one state against all queries. Returns number of queries, non-trivial count, digest.
fn check_state(
    st: &State,
    queries: &[Q],
    report: &mut Report,
    ordinal: u64,
) -> (u64, u64) {
    let ns = ns_id(0);
    let mut sut = Sut::memory_with(&[0]);
    crate::props::common::set_clock(crate::universe::NOW);
    for s in &st.offered {
        let _ = sut.remote(ns, s.signed());
    }
    let dump = st.model.dump();
    let case = |q: Option<&Q>| json!({"offered": st.offered, "query": q});
    let real_dump = sut.dump(ns);
    if real_dump != dump {
        report.violation(
            "state_equals_model",
            json!({}),
            case(None),
            format!(
                "precondition (C02): impl={} model={}",
                show_entries(&real_dump),
                show_entries(&dump)
            ),
            ordinal,
        );
    }
    let mut nontrivial = 0;
    let mut digest = 0u64;
    for q in queries {
        let (accept, nonempty) = reference(&dump, q);
        let filtered = q.af != AF::Any
            || q.kf != KF::Any
            || q.desc
            || q.offset > 0
            || q.limit.is_some()
            || q.kind != Kind::FlatAuthorKey;
        if nonempty && filtered {
            nontrivial += 1;
        }
        match run_query(&mut sut, q) {
            Err(e) => report.violation(
                "query_returns_ok",
                witness(q, &dump),
                case(Some(q)),
                format!("{q:?}: {e:#}"),
                ordinal,
            ),
            Ok(got) => {
                digest = digest.wrapping_mul(1099511628211).wrapping_add(got.len() as u64 + 1);
                if !accept.contains(&got) {
                    report.violation(
                        "query_result_equals_reference",
                        witness(q, &dump),
                        case(Some(q)),
                        format!(
                            "{q:?} on {}: impl={} reference={}",
                            show_entries(&dump),
                            show_entries(&got),
                            show_entries(&accept[0])
                        ),
                        ordinal,
                    );
                }
            }
        }
    }
    // point lookups agree with exact queries
    let mut n = queries.len() as u64;
    for a in [AF::A(0), AF::A(1), AF::Unknown] {
        for k in K9 {
            for include_empty in [true, false] {
                n += 1;
                let q = Q {
                    kind: Kind::FlatAuthorKey,
                    af: a,
                    kf: KF::Exact(k.to_vec()),
                    desc: false,
                    include_empty,
                    offset: 0,
                    limit: None,
                };
                let want = reference(&dump, &q).0.remove(0);
                let got = sut
                    .store
                    .get_exact(ns, q.author().unwrap(), k, include_empty)
                    .expect("get_exact");
                let got_v: Vec<SignedEntry> = got.into_iter().collect();
                if got_v != want {
                    report.violation(
                        "get_exact_agrees_with_query",
                        json!({"author_filter": format!("{a:?}")}),
                        case(Some(&q)),
                        format!(
                            "get_exact({a:?},\"{}\",{include_empty}) impl={} reference={}",
                            show_key(k),
                            show_entries(&got_v),
                            show_entries(&want)
                        ),
                        ordinal,
                    );
                }
            }
        }
    }
    report.outcome(format!("{:016x}", digest ^ fnv(format!("{:?}", st.canon).as_bytes())));
    (n, nontrivial)
}

/// Family N: the author filter next to author ids that are byte-order neighbours. The store
/// holds entries of an author whose id ends in 0xFF and raw entries (hook `raw_entry_put`) of
/// author ids just below it, at the exact end of its key space, and a little beyond; every
/// query of the product with author filter {any, that author} must still equal the reference.
fn check_neighbour_authors(queries: Option<Vec<Q>>, report: &mut Report, ordinal: u64) -> (u64, u64) {
    use crate::universe::EDGE_AUTHOR;
    let ns = ns_id(0);
    let mut sut = Sut::memory_with(&[0]);
    crate::props::common::set_clock(crate::universe::NOW);
    let own = [
        Spec::new(0, EDGE_AUTHOR, b"a", 1, Val::X),
        Spec::new(0, EDGE_AUTHOR, b"\xff", 1, Val::Y),
        Spec::new(0, EDGE_AUTHOR, b"\xff\xff", 2, Val::X),
        Spec::new(0, EDGE_AUTHOR, b"b", 2, Val::Del),
    ];
    for s in &own {
        let _ = sut.remote(ns, s.signed());
    }
    let raw = super::c02::neighbour_entries();
    for e in &raw {
        iroh_docs::verif::raw_entry_put(&mut sut.store, ns, e.clone()).expect("raw put");
    }
    let dump = sut.dump(ns);
    if dump.len() != own.len() + raw.len() {
        report.machinery_error(format!("C05 family N: {} entries in place, expected {}", dump.len(), own.len() + raw.len()));
        return (0, 0);
    }
    let queries = queries.unwrap_or_else(|| {
        all_queries()
            .into_iter()
            .filter(|q| matches!(q.af, AF::Any | AF::A(0)))
            .map(|mut q| {
                if q.af == AF::A(0) {
                    q.af = AF::A(EDGE_AUTHOR);
                }
                q
            })
            .collect()
    });
    let mut nontrivial = 0;
    for q in &queries {
        let (accept, nonempty) = reference(&dump, q);
        if nonempty && q.af != AF::Any {
            nontrivial += 1;
        }
        let case = json!({"family": "neighbour_authors", "query": q});
        let mut w = witness(q, &dump);
        w["neighbour_authors"] = json!(true);
        match run_query(&mut sut, q) {
            Err(e) => report.violation("query_returns_ok", w, case, format!("{q:?}: {e:#}"), ordinal),
            Ok(got) => {
                if !accept.contains(&got) {
                    report.violation(
                        "query_result_equals_reference",
                        w,
                        case,
                        format!(
                            "{q:?} with neighbouring author ids present: impl returns {} entries ({} of other authors than the filter allows), reference {}",
                            got.len(),
                            got.iter().filter(|e| !q.author_matches(&e.author())).count(),
                            accept[0].len()
                        ),
                        ordinal,
                    );
                }
            }
        }
    }
    (queries.len() as u64, nontrivial)
}

fn states(tier: Tier) -> Vec<State> {
    let mut v = states_from_subsets(&universe14(), if tier == Tier::Quick { 3 } else { 4 });
    if tier == Tier::Thorough {
        let seen: std::collections::BTreeSet<Vec<Spec>> = v.iter().map(|s| s.canon.clone()).collect();
        // keep states that differ in canon OR may differ in stale index rows: offered sets differ
        for s in states_from_subsets(&universe22(), 3) {
            if !seen.contains(&s.canon) {
                v.push(s);
            }
        }
    }
    v
}

/// States are de-duplicated by their reference dump, but prefix deletion can leave different
/// stale rows in the by-key index for the same dump; so additionally every subset whose offered
/// set contains a pruned entry is kept as its own state.
fn states_with_stale(tier: Tier) -> Vec<State> {
    let mut out = states(tier);
    let mut seen: std::collections::BTreeSet<(Vec<Spec>, Vec<Spec>)> = Default::default();
    let u = universe14();
    let k = if tier == Tier::Quick { 3 } else { 4 };
    for sub in crate::util::subsets_up_to(u.len(), k) {
        let offered: Vec<Spec> = sub.iter().map(|&i| u[i].clone()).collect();
        let st = state_of(offered.clone());
        if st.canon.len() < offered.len() {
            // something was pruned or rejected: potentially stale index rows
            let mut pruned: Vec<Spec> = offered
                .iter()
                .filter(|s| !st.canon.contains(s))
                .cloned()
                .collect();
            pruned.sort();
            if seen.insert((st.canon.clone(), pruned)) {
                out.push(st);
            }
        }
    }
    out
}

// ---------------------------------------------------------------------------------------
// Family api: the same questions asked the way applications ask them — `Doc::get_many` /
// `get_exact` of the docs API on a real Engine (RPC actor, store actor, results streamed back in
// chunks). The document is written through the API as well (same authors, clock pinned to each
// entry's timestamp, so the entries are the ones of the universe).
// ---------------------------------------------------------------------------------------

type Row = ([u8; 32], Vec<u8>, u64, [u8; 32], u64);

fn row(e: &SignedEntry) -> Row {
    (e.author().to_bytes(), e.key().to_vec(), e.timestamp(), *e.content_hash().as_bytes(), e.content_len())
}

async fn api_state(node: &super::apifam::ApiNode, st: &State, queries: &[Q]) -> Vec<(&'static str, Option<Q>, String)> {
    use n0_future::StreamExt;
    let mut bad = vec![];
    let api = node.docs.api();
    let doc = match api.import_namespace(iroh_docs::Capability::Write(crate::universe::ns_secret(0))).await {
        Ok(d) => d,
        Err(e) => return vec![("MACHINERY", None, format!("import: {e:#}"))],
    };
    for sp in &st.offered {
        crate::props::common::set_clock(crate::universe::T0 + sp.ts);
        let a = crate::universe::author(sp.author).id();
        let _ = match sp.val {
            Val::Del => doc.del(a, sp.key.clone()).await.map(|_| ()),
            v => {
                let (h, l) = v.hash_len();
                doc.set_hash(a, sp.key.clone(), h, l).await
            }
        };
    }
    crate::props::common::set_clock(crate::universe::NOW);
    let dump = st.model.dump();
    for q in queries {
        let got: Result<Vec<Row>, String> = async {
            let stream = doc.get_many(q.build()).await.map_err(|e| format!("{e:#}"))?;
            tokio::pin!(stream);
            let mut v = vec![];
            while let Some(item) = stream.next().await {
                let e = item.map_err(|e| format!("{e:#}"))?;
                v.push((e.author().to_bytes(), e.key().to_vec(), e.timestamp(), *e.content_hash().as_bytes(), e.content_len()));
            }
            Ok(v)
        }
        .await;
        let (accept, _) = reference(&dump, q);
        let accept_rows: Vec<Vec<Row>> = accept.iter().map(|l| l.iter().map(row).collect()).collect();
        match got {
            Ok(g) if accept_rows.contains(&g) => {}
            Ok(g) => bad.push(("api_query_equals_reference", Some(q.clone()), format!("Doc::get_many({q:?}) returned {} entries {:?}, the reference {} entries {:?}", g.len(), g.iter().map(|r| (r.0[0], String::from_utf8_lossy(&r.1).to_string(), r.2 - crate::universe::T0)).take(12).collect::<Vec<_>>(), accept_rows[0].len(), accept_rows[0].iter().map(|r| (r.0[0], String::from_utf8_lossy(&r.1).to_string(), r.2 - crate::universe::T0)).take(12).collect::<Vec<_>>()))),
            Err(e) => bad.push(("api_query_equals_reference", Some(q.clone()), format!("Doc::get_many({q:?}) failed: {e}"))),
        }
    }
    // a reader that takes its time: three entries, a pause, then the rest (the result is larger
    // than what the stream buffers)
    if dump.len() > 100 {
        for q in [
            Q { kind: Kind::FlatAuthorKey, af: AF::Any, kf: KF::Any, desc: false, include_empty: true, offset: 0, limit: None },
            Q { kind: Kind::LatestPerKey, af: AF::Any, kf: KF::Any, desc: true, include_empty: true, offset: 5, limit: Some(120) },
        ] {
            let got: Result<Vec<Row>, String> = async {
                let stream = doc.get_many(q.build()).await.map_err(|e| format!("{e:#}"))?;
                tokio::pin!(stream);
                let mut v = vec![];
                while let Some(item) = stream.next().await {
                    let e = item.map_err(|e| format!("{e:#}"))?;
                    v.push((e.author().to_bytes(), e.key().to_vec(), e.timestamp(), *e.content_hash().as_bytes(), e.content_len()));
                    if v.len() == 3 {
                        // meanwhile another document of the node is opened and closed by its
                        // last handle
                        if let Ok(other) = api.import_namespace(iroh_docs::Capability::Write(crate::universe::ns_secret(1))).await {
                            let _ = other.close().await;
                        }
                        tokio::time::sleep(std::time::Duration::from_millis(slow_reader_pause_ms())).await;
                    }
                }
                Ok(v)
            }
            .await;
            let (accept, _) = reference(&dump, &q);
            let accept_rows: Vec<Vec<Row>> = accept.iter().map(|l| l.iter().map(row).collect()).collect();
            match got {
                Ok(g) if accept_rows.contains(&g) => {}
                Ok(g) => bad.push(("api_query_equals_reference", Some(q.clone()), format!("Doc::get_many({q:?}) read slowly (a pause of {} ms after three entries) returned {} entries, the reference has {}", slow_reader_pause_ms(), g.len(), accept_rows[0].len()))),
                Err(e) => bad.push(("api_query_equals_reference", Some(q.clone()), format!("Doc::get_many({q:?}) read slowly failed: {e}"))),
            }
        }
    }
    // point lookups
    for e in &dump {
        for include_empty in [true, false] {
            let want = (include_empty || !is_del(e)).then(|| row(e));
            let got = doc.get_exact(e.author(), e.key(), include_empty).await.map(|o| o.map(|e| (e.author().to_bytes(), e.key().to_vec(), e.timestamp(), *e.content_hash().as_bytes(), e.content_len())));
            match got {
                Ok(g) if g == want => {}
                other => bad.push(("api_get_exact_agrees_with_query", None, format!("Doc::get_exact({:02x}, {:?}, {include_empty}) = {:?}, the document holds {:?}", e.author().to_bytes()[0], String::from_utf8_lossy(e.key()), other.map(|o| o.map(|r| r.2)).map_err(|e| e.to_string()), want.map(|r| r.2)))),
            }
        }
    }
    let _ = doc.close().await;
    let _ = api.drop_doc(ns_id(0)).await;
    bad
}

static SLOW_READER_MS: std::sync::atomic::AtomicU64 = std::sync::atomic::AtomicU64::new(1500);

fn slow_reader_pause_ms() -> u64 {
    SLOW_READER_MS.load(std::sync::atomic::Ordering::Relaxed)
}

fn big_state() -> State {
    let mut offered = vec![];
    for i in 0..150u32 {
        let key = format!("k{i:04}");
        offered.push(Spec::new(0, 0, key.as_bytes(), 1 + (i % 3) as u64, if i % 10 == 0 { Val::Del } else { Val::X }));
        if i % 2 == 0 {
            // (no timestamp ties between the two authors: the reference enumerates every
            // acceptable answer of a latest-per-key query, 2^ties of them)
            offered.push(Spec::new(0, 1, key.as_bytes(), if i % 4 == 0 { 4 } else { 0 }, Val::Y));
        }
    }
    state_of(offered)
}

fn api_cases(tier: Tier) -> Vec<(State, Vec<Q>)> {
    let all = all_queries();
    let mut cases = vec![];
    // the big state: every kind x direction x filter, windows around the chunk size of the stream
    let mut big_queries = vec![];
    for kind in [Kind::FlatAuthorKey, Kind::FlatKeyAuthor, Kind::LatestPerKey] {
        for af in [AF::Any, AF::A(0)] {
            for kf in [KF::Any, KF::Prefix(b"k00".to_vec())] {
                for desc in [false, true] {
                    for include_empty in [true, false] {
                        for (offset, limit) in [(0u64, None), (0, Some(64u64)), (0, Some(65)), (1, Some(128)), (63, None), (64, Some(1)), (224, None), (225, None), (0, Some(u64::MAX)), (1, Some(u64::MAX))] {
                            big_queries.push(Q { kind, af, kf: kf.clone(), desc, include_empty, offset, limit });
                        }
                    }
                }
            }
        }
    }
    cases.push((big_state(), big_queries));
    // small states (every n-th of the stale-index family), all queries
    let sts = states_with_stale(tier);
    let step = if tier == Tier::Quick { sts.len() / 12 + 1 } else { sts.len() / 60 + 1 };
    for st in sts.into_iter().step_by(step) {
        cases.push((st, all.clone()));
    }
    cases
}

fn run_api_family(ctx: &Ctx, report: &mut Report) {
    SLOW_READER_MS.store(if ctx.quick() { 1500 } else { 7000 }, std::sync::atomic::Ordering::Relaxed);
    let cases: Vec<(usize, (State, Vec<Q>))> = api_cases(ctx.tier).into_iter().enumerate().filter(|(i, _)| ctx.mine((1u64 << 40) + *i as u64)).collect();
    if cases.is_empty() {
        return;
    }
    // (its own runtime: the family of one worker may take longer than the 60 s hang detector of
    // `sut::block_on` on a loaded machine)
    let rt = super::live::runtime();
    let results: anyhow::Result<Vec<(State, usize, Vec<(&'static str, Option<Q>, String)>)>> = rt.block_on(async {
        let node = super::apifam::api_node().await?;
        for a in [0u8, 1] {
            node.docs.api().author_import(crate::universe::author(a)).await?;
        }
        let mut out = vec![];
        for (_, (st, qs)) in cases {
            if std::env::var_os("VP_C05_DEBUG").is_some() {
                eprintln!("debug: api state {}", serde_json::to_string(&st.offered).unwrap());
            }
            let bad = api_state(&node, &st, &qs).await;
            out.push((st, qs.len(), bad));
        }
        super::apifam::shutdown(&node).await;
        Ok(out)
    });
    match results {
        Err(e) => report.machinery_error(format!("docs API family: cannot set up a node: {e:#}")),
        Ok(rs) => {
            for (st, n, bad) in rs {
                report.evaluations += n as u64;
                report.count("api_states", 1);
                report.count("api_queries", n as u64);
                for (o, q, d) in bad {
                    if o == "MACHINERY" {
                        report.machinery_error(d);
                    } else {
                        report.violation(o, json!({"api": true}), json!({"api": true, "offered": st.offered, "query": q}), d, 1 << 40);
                    }
                }
            }
        }
    }
}

fn run(ctx: &Ctx, report: &mut Report) {
    crate::util::silence_panics();
    run_api_family(ctx, report);
    let queries = all_queries();
    let sts = states_with_stale(ctx.tier);
    report.fact("states_total", json!(sts.len()));
    report.fact("queries_per_state", json!(queries.len()));
    if ctx.mine(0) {
        let mut local = Report::default();
        match catch(|| check_neighbour_authors(None, &mut local, 0)) {
            Err(p) => report.violation("no_panic", json!({"neighbour_authors": true}), json!({"family": "neighbour_authors", "query": null}), format!("panic: {p}"), 0),
            Ok((n, nt)) => {
                report.evaluations += n;
                report.nontrivial += nt;
                report.count("neighbour_author_queries", n);
            }
        }
        report.merge(local);
    }
    // a big state (two authors, 150 keys, 225 entries, every tenth a deletion marker) under
    // windows around 64 and 256 entries and at the ends of the result
    if ctx.mine(sts.len() as u64 + 7) {
        let ordinal = sts.len() as u64 + 7;
        let st = big_state();
        let mut big_queries = vec![];
        for kind in [Kind::FlatAuthorKey, Kind::FlatKeyAuthor, Kind::LatestPerKey] {
            for af in [AF::Any, AF::A(0)] {
                for kf in [KF::Any, KF::Prefix(b"k00".to_vec()), KF::Exact(b"k0100".to_vec())] {
                    for desc in [false, true] {
                        for include_empty in [true, false] {
                            for offset in [0u64, 63, 64, 149, 150, 224, 225, 226, 255, 256] {
                                for limit in [None, Some(1u64), Some(64), Some(65), Some(150), Some(225), Some(255), Some(256)] {
                                    big_queries.push(Q { kind, af, kf: kf.clone(), desc, include_empty, offset, limit });
                                }
                            }
                        }
                    }
                }
            }
        }
        let mut local = Report::default();
        match catch(|| check_state(&st, &big_queries, &mut local, ordinal)) {
            Err(p) => report.violation("no_panic", json!({"big": true}), json!({"offered": st.offered}), format!("panic: {p}"), ordinal),
            Ok((n, nt)) => {
                report.evaluations += n;
                report.nontrivial += nt;
                report.count("big_state_queries", n);
            }
        }
        report.merge(local);
    }
    for (i, st) in sts.iter().enumerate() {
        let ordinal = i as u64 + 1;
        if !ctx.mine(ordinal) {
            continue;
        }
        let mut local = Report::default();
        match catch(|| check_state(st, &queries, &mut local, ordinal)) {
            Err(p) => report.violation(
                "no_panic",
                json!({}),
                json!({"offered": st.offered}),
                format!("panic: {p}"),
                ordinal,
            ),
            Ok((n, nt)) => {
                report.evaluations += n;
                report.nontrivial += nt;
                report.count("states_checked", 1);
                if st.canon.len() >= 2 {
                    report.sample(|| json!({"state": st.canon.iter().map(|s| s.to_string()).collect::<Vec<_>>(), "offered": st.offered.iter().map(|s| s.to_string()).collect::<Vec<_>>(), "queries": n, "nontrivial_queries": nt}));
                }
            }
        }
        report.merge(local);
    }
}

fn replay(case: &Value) -> anyhow::Result<(bool, String)> {
    if case["family"] == "neighbour_authors" {
        let queries: Option<Vec<Q>> = match case.get("query") {
            Some(Value::Null) | None => None,
            Some(q) => Some(vec![serde_json::from_value(q.clone())?]),
        };
        let mut local = Report::default();
        return match catch(|| check_neighbour_authors(queries, &mut local, 0)) {
            Err(p) => Ok((true, format!("panic: {p}"))),
            Ok(_) => {
                let mut out = "family N (neighbouring author ids)\n".to_string();
                for v in &local.violations {
                    out.push_str(&format!("FAILED {}: {}\n", v.oracle, v.detail));
                }
                Ok((!local.violations.is_empty(), out))
            }
        };
    }
    let offered: Vec<Spec> = serde_json::from_value(case["offered"].clone())?;
    let st = state_of(offered);
    let queries: Vec<Q> = match case.get("query") {
        Some(Value::Null) | None => all_queries(),
        Some(q) => vec![serde_json::from_value(q.clone())?],
    };
    if case.get("api").and_then(|a| a.as_bool()) == Some(true) {
        let bad: anyhow::Result<Vec<(&'static str, Option<Q>, String)>> = crate::sut::block_on(async {
            let node = super::apifam::api_node().await?;
            for a in [0u8, 1] {
                node.docs.api().author_import(crate::universe::author(a)).await?;
            }
            let b = api_state(&node, &st, &queries).await;
            super::apifam::shutdown(&node).await;
            Ok(b)
        });
        let bad = bad?;
        let out: String = bad.iter().map(|(o, _, d)| format!("FAILED {o}: {d}\n")).collect();
        return Ok((!bad.is_empty(), format!("docs API, state of {} offered entries\n{out}", st.offered.len())));
    }
    let mut local = Report::default();
    match catch(|| check_state(&st, &queries, &mut local, 0)) {
        Err(p) => Ok((true, format!("panic: {p}"))),
        Ok(_) => {
            let mut out = format!(
                "state {:?}\n",
                st.canon.iter().map(|s| s.to_string()).collect::<Vec<_>>()
            );
            // when a single query is replayed, ignore point-lookup oracles unless they fail
            for v in &local.violations {
                out.push_str(&format!("FAILED {}: {}\n", v.oracle, v.detail));
            }
            Ok((!local.violations.is_empty(), out))
        }
    }
}
