//! Shared machinery of the replica-level properties: steps, execution against SUT + model.

use iroh_docs::{
    store::{Query, SortBy, SortDirection},
    sync::SignedEntry,
    NamespaceId,
};
use serde::{Deserialize, Serialize};
use serde_json::{json, Value};

use crate::{
    refmodel::{ModelReplica, PutOutcome},
    sut::{Outcome, Sut},
    universe::{author, author_id, ns_id, show_entries, Spec, Val, NOW},
};

#[derive(Debug, Clone, Copy, PartialEq, Eq, Hash, Serialize, Deserialize, PartialOrd, Ord)]
pub enum Path {
    /// `insert_remote_entry`
    R,
    /// local `insert` / `delete_prefix` with the clock pinned to the entry's timestamp
    L,
    /// life cycle: the document is removed from the store and created again (the step's entry is
    /// ignored)
    X,
    /// a question in the middle of a history: every lookup and query the explorer asks at the end
    /// (the step's entry is ignored)
    Q,
}

#[derive(Debug, Clone, PartialEq, Eq, Hash, Serialize, Deserialize)]
pub struct Step {
    pub path: Path,
    pub spec: Spec,
}

impl std::fmt::Display for Step {
    fn fmt(&self, f: &mut std::fmt::Formatter<'_>) -> std::fmt::Result {
        write!(f, "{:?}({})", self.path, self.spec)
    }
}

pub fn set_clock(t: u64) {
    iroh_docs::verif::set_clock_micros(Some(t));
}

/// Apply one step to the SUT.
pub fn apply(sut: &mut Sut, step: &Step) -> Outcome {
    let ns = ns_id(step.spec.ns);
    match step.path {
        Path::R => {
            set_clock(NOW);
            sut.remote(ns, step.spec.signed())
        }
        Path::L => {
            set_clock(step.spec.timestamp());
            let r = sut.local_insert(ns, &author(step.spec.author), &step.spec.key, step.spec.val);
            set_clock(NOW);
            r
        }
        Path::X => {
            let removed = sut.store.remove_replica(&ns);
            let created = sut
                .store
                .import_namespace(iroh_docs::Capability::Write(crate::universe::ns_secret(step.spec.ns)));
            match (removed, created) {
                (Ok(()), Ok(_)) => Outcome::Inserted(0),
                (r, c) => Outcome::StoreError(format!("remove/re-create: {r:?} {:?}", c.map(|_| ()))),
            }
        }
        Path::Q => {
            let _ = snapshot(sut, ns);
            let _ = sut.store.get_exact(ns, author_id(step.spec.author), &step.spec.key, true);
            let _ = sut.heads(ns);
            Outcome::Inserted(0)
        }
    }
}

pub fn model_outcome(m: &mut ModelReplica, spec: &Spec) -> Outcome {
    match m.put(&spec.signed()) {
        PutOutcome::Inserted { removed } => Outcome::Inserted(removed),
        PutOutcome::Superseded => Outcome::Newer,
    }
}

/// Flat listing through the by-key index.
pub fn dump_by_key(sut: &mut Sut, ns: NamespaceId) -> Vec<SignedEntry> {
    sut.store
        .get_many(
            ns,
            Query::all()
                .sort_by(SortBy::KeyAuthor, SortDirection::Asc)
                .include_empty(),
        )
        .expect("get_many")
        .collect::<anyhow::Result<Vec<_>>>()
        .expect("item")
}

pub fn sorted_by_id(mut v: Vec<SignedEntry>) -> Vec<SignedEntry> {
    v.sort_by(|a, b| {
        (a.author().to_bytes(), a.key().to_vec()).cmp(&(b.author().to_bytes(), b.key().to_vec()))
    });
    v
}

/// Full observable snapshot of one document used for "changes nothing" comparisons.
#[derive(Debug, Clone, PartialEq, Eq)]
pub struct Snapshot {
    pub dump: Vec<SignedEntry>,
    pub by_key: Vec<SignedEntry>,
    pub heads: Vec<([u8; 32], u64, Vec<u8>)>,
}

pub fn snapshot(sut: &mut Sut, ns: NamespaceId) -> Snapshot {
    Snapshot {
        dump: sut.dump(ns),
        by_key: dump_by_key(sut, ns),
        heads: sut
            .heads(ns)
            .into_iter()
            .map(|(a, t, k)| (a.to_bytes(), t, k))
            .collect(),
    }
}

/// Check the state of document `ns_i` against the model. Returns a list of (oracle, detail).
pub fn check_state(
    sut: &mut Sut,
    ns_i: u8,
    model: &ModelReplica,
    keys: &[&[u8]],
    authors: &[u8],
) -> Vec<(&'static str, String)> {
    let ns = ns_id(ns_i);
    let mut bad = vec![];
    let dump = sut.dump(ns);
    let want = model.dump();
    if dump != want {
        bad.push((
            "dump_equals_model",
            format!("impl={} model={}", show_entries(&dump), show_entries(&want)),
        ));
    }
    let by_key = sorted_by_id(dump_by_key(sut, ns));
    if by_key != want {
        bad.push((
            "by_key_path_equals_model",
            format!(
                "by-key impl={} model={}",
                show_entries(&by_key),
                show_entries(&want)
            ),
        ));
    }
    for &a in authors {
        for k in keys {
            for include_empty in [true, false] {
                let got = sut
                    .store
                    .get_exact(ns, author_id(a), k, include_empty)
                    .expect("get_exact");
                let want = model
                    .get(&author_id(a), k)
                    .filter(|e| include_empty || Val::of(e) != Some(Val::Del))
                    .cloned();
                if got != want {
                    bad.push((
                        "get_exact_equals_model",
                        format!(
                            "get_exact(A{a},\"{}\",include_empty={include_empty}) impl={:?} model={:?}",
                            crate::universe::show_key(k),
                            got.as_ref().map(crate::universe::show_entry),
                            want.as_ref().map(crate::universe::show_entry)
                        ),
                    ));
                }
            }
        }
    }
    bad
}

pub fn steps_json(pre: &[Spec], steps: &[Step]) -> Value {
    json!({"pre": pre, "steps": steps})
}

pub fn steps_from_json(v: &Value) -> anyhow::Result<(Vec<Spec>, Vec<Step>)> {
    let pre: Vec<Spec> = serde_json::from_value(v.get("pre").cloned().unwrap_or(json!([])))?;
    let steps: Vec<Step> = serde_json::from_value(
        v.get("steps")
            .cloned()
            .ok_or_else(|| anyhow::anyhow!("no steps"))?,
    )?;
    Ok((pre, steps))
}

/// Are two specs related (same doc + author and one key a prefix of the other)?
pub fn related(a: &Spec, b: &Spec) -> bool {
    a.ns == b.ns && a.author == b.author && (a.key.starts_with(&b.key) || b.key.starts_with(&a.key))
}
