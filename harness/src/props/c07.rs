//! C07 — write capability is required to author entries and is never lost.

use std::collections::BTreeMap;

use iroh_docs::{
    actor::{OpenOpts, SyncHandle},
    store::{ImportNamespaceOutcome, Store},
    sync::SignedEntry,
    Capability, CapabilityKind, ContentStatus,
};
use serde::{Deserialize, Serialize};
use serde_json::{json, Value};

use super::{common::set_clock, recon::scratch_dir};
use crate::{
    explore::{bfs_nd, Outcome as BfsOutcome},
    refmodel::{ModelReplica, PutOutcome},
    report::Report,
    sut::{block_on, handle_dump, Outcome, Sut, PEER},
    universe::{author, ns_id, ns_secret, show_entries, Spec, Val, NOW, T0},
    util::catch,
    Ctx, PropDef, Tier,
};

pub fn def() -> PropDef {
    PropDef {
        id: "C07",
        level: "model_checking",
        rule: "explicit-state search over {import read-only Ni, import write Ni, local insert Ni, local delete Ni, remote insert Ni (validly signed), reopen the store, list documents, list authors, take a handle with open_replica and keep the document marked open, close_replica} on a file-backed Store (while a document is marked open, write attempts go through one more handle from open_replica), and over the same events plus {open Ni, close Ni, export secret Ni, drop Ni (removal: the capability history of the document starts again)} through the store actor (SyncHandle; reopen = shutdown, reopen the file, respawn), for two documents; model: per document the maximum capability ever imported; after every event list_namespaces kinds, export_secret_key, the outcome of every write attempt and both documents' entries are compared with the model; canonical state = (listed kinds, entries, open handles, exportability); family api: every history of <= 4 (thorough 5) events over {import read-only / write capability, write, delete, close all handles} x two documents through the docs API of a real Engine (DocsApi -> RpcActor -> store actor): write attempts succeed exactly with the greatest capability imported and the listing shows it; non-trivial = histories in which a read-only import or a reopen follows a write import",
        assumptions: &["two documents, one author, one local key and one remote key per document"],
        bound: |t| match t {
            Tier::Quick => json!({"direct": "depth <= 7 (11 events)", "actor": "depth <= 6 (19 events)"}),
            Tier::Thorough => json!({"direct": "depth <= 10", "actor": "depth <= 9"}),
        },
        run,
        replay,
        shards: |_| 16,
    }
}

#[derive(Debug, Clone, Copy, PartialEq, Eq, Serialize, Deserialize)]
pub enum Ev {
    ImportRead(u8),
    ImportWrite(u8),
    Insert(u8),
    Delete(u8),
    Remote(u8),
    Open(u8),
    Close(u8),
    Export(u8),
    Reopen,
    /// list the documents (leaves the store on a read snapshot)
    List,
    /// list the authors (same)
    ListAuthors,
    /// store actor only: `drop_replica` — releases the caller's handle, then removes the document
    /// iff no handle is left (refused otherwise). A removed document has no capability; what is
    /// imported afterwards starts from nothing.
    Drop(u8),
}

#[derive(Debug, Clone, Copy, PartialEq, Eq, PartialOrd, Ord)]
enum Cap {
    None,
    Read,
    Write,
}

#[derive(Debug, Clone, Default)]
struct Doc {
    cap: Option<Cap>,
    entries: ModelReplica,
    handles: usize,
}

fn remote_entry(i: u8) -> SignedEntry {
    Spec::new(i, 1, b"r", 1, Val::Y).signed()
}

const LOCAL_TS: u64 = T0 + 2;

fn local_entry(i: u8, del: bool) -> SignedEntry {
    Spec::new(i, 0, b"k", 2, if del { Val::Del } else { Val::X }).signed()
}

fn listed(store: &mut Store) -> Vec<(u8, Cap)> {
    let mut v = vec![];
    for r in store.list_namespaces().expect("list") {
        let (id, kind) = r.expect("ns");
        let i = if id == ns_id(0) { 0 } else { 1 };
        v.push((
            i,
            match kind {
                CapabilityKind::Read => Cap::Read,
                CapabilityKind::Write => Cap::Write,
            },
        ));
    }
    v.sort();
    v
}

fn model_listed(m: &[Doc; 2]) -> Vec<(u8, Cap)> {
    let mut v = vec![];
    for i in 0..2u8 {
        if let Some(c) = m[i as usize].cap {
            v.push((i, c));
        }
    }
    v
}

fn import_model(d: &mut Doc, write: bool) -> &'static str {
    let new = if write { Cap::Write } else { Cap::Read };
    match d.cap {
        None => {
            d.cap = Some(new);
            "Inserted"
        }
        Some(c) if new > c => {
            d.cap = Some(new);
            "Upgraded"
        }
        Some(_) => "NoChange",
    }
}

fn model_write(d: &mut Doc, e: &SignedEntry) -> Outcome {
    match d.entries.put(e) {
        PutOutcome::Inserted { removed } => Outcome::Inserted(removed),
        PutOutcome::Superseded => Outcome::Newer,
    }
}

type Bad = Vec<(&'static str, Value, String)>;

/// Direct mode on a file-backed store. Checks are made after every event; violations are
/// reported for the last event only.
fn exec_direct(hist: &[Ev]) -> Option<(Bad, String, String)> {
    set_clock(NOW);
    let dir = scratch_dir();
    let path = dir.path().join("docs.redb");
    let mut sut = Sut::persistent(&path).expect("store");
    let mut m: [Doc; 2] = Default::default();
    let mut bad: Bad = vec![];
    let mut observed = String::new();
    let mut txn_kind = "none";
    let downgrade_attempted = |h: &[Ev], i: u8| {
        let mut seen_w = false;
        h.iter().any(|e| match e {
            Ev::ImportWrite(x) if *x == i => {
                seen_w = true;
                false
            }
            Ev::ImportRead(x) if *x == i => seen_w,
            Ev::Reopen => seen_w,
            _ => false,
        })
    };
    for (n, ev) in hist.iter().enumerate() {
        let last = n + 1 == hist.len();
        let mut step_bad: Bad = vec![];
        match *ev {
            Ev::ImportRead(i) | Ev::ImportWrite(i) => {
                let write = matches!(ev, Ev::ImportWrite(_));
                let cap = if write {
                    Capability::Write(ns_secret(i))
                } else {
                    Capability::Read(ns_id(i))
                };
                let got = sut.store.import_namespace(cap).expect("import");
                let got = match got {
                    ImportNamespaceOutcome::Inserted => "Inserted",
                    ImportNamespaceOutcome::Upgraded => "Upgraded",
                    ImportNamespaceOutcome::NoChange => "NoChange",
                };
                let want = import_model(&mut m[i as usize], write);
                observed = format!("{ev:?}->{got}");
                if got != want {
                    step_bad.push(("import_outcome", json!({}), format!("{ev:?}: impl={got} model={want}")));
                }
            }
            Ev::Insert(i) | Ev::Delete(i) | Ev::Remote(i) => {
                let ns = ns_id(i);
                // while the document is held open (an earlier `Open` without `Close`), the write
                // goes through one more handle from `open_replica` and the store's open mark stays
                let held = m[i as usize].handles > 0;
                let got = match ev {
                    Ev::Remote(_) if held => match sut.store.open_replica(&ns) {
                        Err(e) => Outcome::StoreError(format!("open: {e}")),
                        Ok(mut r) => Outcome::from(block_on(r.insert_remote_entry(remote_entry(i), crate::sut::PEER, iroh_docs::ContentStatus::Missing))),
                    },
                    Ev::Remote(_) => sut.remote(ns, remote_entry(i)),
                    _ if held => {
                        set_clock(LOCAL_TS);
                        let r = match sut.store.open_replica(&ns) {
                            Err(e) => Outcome::StoreError(format!("open: {e}")),
                            Ok(mut r) => Outcome::from(if matches!(ev, Ev::Delete(_)) {
                                block_on(r.delete_prefix(b"k", &author(0)))
                            } else {
                                let (h, l) = Val::X.hash_len();
                                block_on(r.insert(b"k", &author(0), h, l))
                            }),
                        };
                        set_clock(NOW);
                        r
                    }
                    _ => {
                        set_clock(LOCAL_TS);
                        let r = sut.local_insert(
                            ns,
                            &author(0),
                            b"k",
                            if matches!(ev, Ev::Delete(_)) { Val::Del } else { Val::X },
                        );
                        set_clock(NOW);
                        r
                    }
                };
                let d = &mut m[i as usize];
                let want = match (d.cap, ev) {
                    (None, _) => None, // document unknown: any error
                    (Some(_), Ev::Remote(_)) => Some(model_write(d, &remote_entry(i))),
                    (Some(Cap::Write), Ev::Insert(_)) => Some(model_write(d, &local_entry(i, false))),
                    (Some(Cap::Write), Ev::Delete(_)) => Some(model_write(d, &local_entry(i, true))),
                    (Some(_), _) => Some(Outcome::ReadOnly),
                };
                observed = format!("{ev:?}->{got:?}");
                match want {
                    None => {
                        if matches!(got, Outcome::Inserted(_)) {
                            step_bad.push(("write_to_unknown_document_fails", json!({}), format!("{ev:?}: {got:?}")));
                        }
                    }
                    Some(w) => {
                        if got != w {
                            let readonly_wrote = w == Outcome::ReadOnly && matches!(got, Outcome::Inserted(_));
                            let writer_refused = matches!(w, Outcome::Inserted(_)) && got == Outcome::ReadOnly;
                            step_bad.push((
                                "write_attempt_outcome",
                                json!({"read_only_replica_authored_entry": readonly_wrote, "write_capability_lost": writer_refused, "remote": matches!(ev, Ev::Remote(_)), "after_downgrade_attempt": downgrade_attempted(&hist[..n], i)}),
                                format!("{ev:?}: impl={got:?} model={w:?}"),
                            ));
                        }
                    }
                }
            }
            Ev::Reopen => {
                sut.store.flush().expect("flush");
                drop(sut);
                sut = Sut::persistent(&path).expect("reopen");
                observed = "Reopen".into();
                for d in m.iter_mut() {
                    d.handles = 0;
                }
            }
            // direct mode: take a handle with `open_replica` and let it go without
            // `close_replica` — the store keeps the document marked open until `Close`
            Ev::Open(i) => {
                let res = sut.store.open_replica(&ns_id(i)).map(|_| ());
                let d = &mut m[i as usize];
                observed = format!("{ev:?}->{}", res.is_ok());
                if res.is_ok() != d.cap.is_some() {
                    step_bad.push(("open_iff_document_exists", json!({}), format!("{ev:?}: {res:?}")));
                }
                if d.cap.is_some() {
                    d.handles = 1;
                }
            }
            Ev::Close(i) => {
                sut.store.close_replica(ns_id(i));
                m[i as usize].handles = 0;
                observed = format!("{ev:?}");
            }
            Ev::List => {
                let got = listed(&mut sut.store);
                let want = model_listed(&m);
                observed = format!("List->{got:?}");
                if got != want {
                    step_bad.push((
                        "listed_capabilities_equal_max_imported",
                        json!({"after": "List"}),
                        format!("List: listed={got:?} model={want:?}"),
                    ));
                }
            }
            Ev::ListAuthors => {
                let n = sut.store.list_authors().map(|i| i.count()).unwrap_or(99);
                observed = format!("ListAuthors->{n}");
            }
            _ => return None,
        }
        // the observations below touch the store (and change which kind of transaction it holds),
        // so they are made after the last event only; every prefix is explored on its own
        if !last {
            continue;
        }
        txn_kind = sut.store.verif_transaction_kind();
        let got = listed(&mut sut.store);
        let want = model_listed(&m);
        if got != want {
            step_bad.push((
                "listed_capabilities_equal_max_imported",
                json!({"after": format!("{ev:?}").split('(').next().unwrap_or("").to_string()}),
                format!("after {ev:?}: listed={got:?} model={want:?}"),
            ));
        }
        for i in 0..2u8 {
            let dump = sut.dump(ns_id(i));
            let w = m[i as usize].entries.dump();
            if dump != w {
                step_bad.push((
                    "entries_equal_model",
                    json!({"event_names_this_document": format!("{ev:?}").contains(&format!("({i})"))}),
                    format!("after {ev:?}: doc {i} impl={} model={}", show_entries(&dump), show_entries(&w)),
                ));
            }
        }
        if last {
            bad.extend(step_bad);
        }
    }
    // what a handle obtained now would be allowed to do (the capability the store hands to an
    // opener) — compared with the model and part of the canonical state; asked after everything
    // else, a document that is not held open is closed again
    let mut handle_caps = String::new();
    for i in 0..2u8 {
        let got = match sut.store.open_replica(&ns_id(i)) {
            Ok(r) => Some(if r.capability().secret_key().is_ok() { Cap::Write } else { Cap::Read }),
            Err(_) => None,
        };
        if m[i as usize].handles == 0 {
            sut.store.close_replica(ns_id(i));
        }
        if got != m[i as usize].cap {
            bad.push((
                "handle_has_the_greatest_capability_imported",
                json!({"held_open": m[i as usize].handles > 0}),
                format!("after {:?}: a handle for document {i} comes with {got:?}, the greatest capability imported is {:?} (document held open: {})", hist.last(), m[i as usize].cap, m[i as usize].handles > 0),
            ));
        }
        handle_caps.push_str(&format!("{got:?},"));
    }
    // the kind of transaction the store holds is hidden state that later operations may depend
    // on, so it is part of the canonical state
    let key = format!(
        "{txn_kind}|{handle_caps}|{}{}|{:?}|{}|{}",
        m[0].handles,
        m[1].handles,
        listed(&mut sut.store),
        show_entries(&sut.dump(ns_id(0))),
        show_entries(&sut.dump(ns_id(1)))
    );
    Some((bad, key, observed))
}

/// Actor mode.
fn exec_actor(hist: &[Ev]) -> Option<(Bad, String, String)> {
    set_clock(NOW);
    let dir = scratch_dir();
    let path = dir.path().join("docs.redb");
    let spawn = |path: &std::path::Path| -> SyncHandle {
        let mut store = Store::persistent(path).expect("store");
        store.import_author(author(0)).expect("author");
        SyncHandle::spawn(store, None, "c07".into())
    };
    let mut h = spawn(&path);
    let mut m: [Doc; 2] = Default::default();
    let mut bad: Bad = vec![];
    let mut observed = String::new();
    for (n, ev) in hist.iter().enumerate() {
        let last = n + 1 == hist.len();
        let mut step_bad: Bad = vec![];
        match *ev {
            Ev::ImportRead(i) | Ev::ImportWrite(i) => {
                let write = matches!(ev, Ev::ImportWrite(_));
                let cap = if write {
                    Capability::Write(ns_secret(i))
                } else {
                    Capability::Read(ns_id(i))
                };
                let res = block_on(h.import_namespace(cap));
                import_model(&mut m[i as usize], write);
                observed = format!("{ev:?}->{}", res.is_ok());
                if res.is_err() {
                    step_bad.push(("import_ok", json!({}), format!("{ev:?}: {res:?}")));
                }
            }
            Ev::Open(i) => {
                let res = block_on(h.open(ns_id(i), OpenOpts::default().sync()));
                let d = &mut m[i as usize];
                observed = format!("{ev:?}->{}", res.is_ok());
                if res.is_ok() != d.cap.is_some() {
                    step_bad.push(("open_iff_document_exists", json!({}), format!("{ev:?}: {res:?}")));
                }
                if d.cap.is_some() {
                    d.handles += 1;
                }
            }
            Ev::Close(i) => {
                let res = block_on(h.close(ns_id(i)));
                let d = &mut m[i as usize];
                d.handles = d.handles.saturating_sub(1);
                observed = format!("{ev:?}->{res:?}");
                if res.as_ref().ok() != Some(&(d.handles == 0)) {
                    step_bad.push(("close_reports_closed", json!({}), format!("{ev:?}: {res:?} model handles {}", d.handles)));
                }
            }
            Ev::Drop(i) => {
                let res = block_on(h.drop_replica(ns_id(i)));
                let d = &mut m[i as usize];
                d.handles = d.handles.saturating_sub(1);
                let want_ok = d.handles == 0;
                if want_ok {
                    *d = Doc::default();
                }
                observed = format!("{ev:?}->{}", if res.is_ok() { "Ok" } else { "Err" });
                if res.is_ok() != want_ok {
                    step_bad.push(("drop_refused_iff_other_handles", json!({}), format!("{ev:?}: {} with {} other handles", if res.is_ok() { "Ok" } else { "Err" }, d.handles)));
                }
            }
            Ev::Insert(i) | Ev::Delete(i) | Ev::Remote(i) => {
                let ns = ns_id(i);
                let got: Result<(), String> = match ev {
                    Ev::Remote(_) => block_on(h.insert_remote(ns, remote_entry(i), PEER, ContentStatus::Missing)).map_err(|e| format!("{e:#}")),
                    Ev::Insert(_) => {
                        set_clock(LOCAL_TS);
                        let (hash, len) = Val::X.hash_len();
                        let r = block_on(h.insert_local(ns, author(0).id(), bytes::Bytes::from_static(b"k"), hash, len)).map_err(|e| format!("{e:#}"));
                        set_clock(NOW);
                        r
                    }
                    _ => {
                        set_clock(LOCAL_TS);
                        let r = block_on(h.delete_prefix(ns, author(0).id(), bytes::Bytes::from_static(b"k"))).map(|_| ()).map_err(|e| format!("{e:#}"));
                        set_clock(NOW);
                        r
                    }
                };
                let d = &mut m[i as usize];
                let want_ok = if d.handles == 0 {
                    false
                } else {
                    match (d.cap, ev) {
                        (None, _) => false,
                        (Some(_), Ev::Remote(_)) => matches!(model_write(d, &remote_entry(i)), Outcome::Inserted(_)),
                        (Some(Cap::Write), Ev::Insert(_)) => matches!(model_write(d, &local_entry(i, false)), Outcome::Inserted(_)),
                        (Some(Cap::Write), Ev::Delete(_)) => matches!(model_write(d, &local_entry(i, true)), Outcome::Inserted(_)),
                        _ => false,
                    }
                };
                observed = format!("{ev:?}->{}", got.is_ok());
                if got.is_ok() != want_ok {
                    let readonly = d.cap == Some(Cap::Read) && !matches!(ev, Ev::Remote(_));
                    step_bad.push((
                        "write_attempt_outcome",
                        json!({"read_only_replica_authored_entry": readonly && got.is_ok(), "write_capability_lost": d.cap == Some(Cap::Write) && got.is_err() && d.handles > 0, "remote": matches!(ev, Ev::Remote(_)), "actor": true}),
                        format!("{ev:?}: impl={got:?} model ok={want_ok} (cap {:?}, handles {})", d.cap, d.handles),
                    ));
                }
            }
            Ev::Export(i) => {
                let res = block_on(h.export_secret_key(ns_id(i)));
                let d = &m[i as usize];
                let want = d.handles > 0 && d.cap == Some(Cap::Write);
                observed = format!("{ev:?}->{}", res.is_ok());
                let right_key = res.as_ref().map(|s| s.to_bytes() == ns_secret(i).to_bytes()).unwrap_or(true);
                if res.is_ok() != want || !right_key {
                    step_bad.push((
                        "export_secret_iff_write_capability",
                        json!({"exported_without_write": res.is_ok() && !want, "refused_with_write": res.is_err() && want}),
                        format!("{ev:?}: impl ok={} model ok={want} (cap {:?}, handles {})", res.is_ok(), d.cap, d.handles),
                    ));
                }
            }
            Ev::Reopen => {
                let store = block_on(h.shutdown()).expect("shutdown");
                drop(store);
                drop(h);
                h = spawn(&path);
                for d in m.iter_mut() {
                    d.handles = 0;
                }
                observed = "Reopen".into();
            }
            Ev::List => {
                let got: Result<Vec<(u8, Cap)>, String> = block_on(async {
                    let (tx, mut rx) = irpc::channel::mpsc::channel(64);
                    h.list_replicas(tx).await.map_err(|e| format!("{e:#}"))?;
                    let mut v = vec![];
                    loop {
                        match rx.recv().await {
                            Ok(Some(Ok(r))) => v.push((
                                if r.id == ns_id(0) { 0u8 } else { 1u8 },
                                match r.capability {
                                    CapabilityKind::Read => Cap::Read,
                                    CapabilityKind::Write => Cap::Write,
                                },
                            )),
                            Ok(Some(Err(e))) => return Err(format!("{e}")),
                            Ok(None) => break,
                            Err(e) => return Err(format!("{e}")),
                        }
                    }
                    v.sort();
                    Ok(v)
                });
                let want = model_listed(&m);
                observed = format!("List->{got:?}");
                if got.as_ref().ok() != Some(&want) {
                    step_bad.push((
                        "listed_capabilities_equal_max_imported",
                        json!({"actor": true, "after": "List"}),
                        format!("List: listed={got:?} model={want:?}"),
                    ));
                }
            }
            Ev::ListAuthors => {
                let _ = block_on(async {
                    let (tx, mut rx) = irpc::channel::mpsc::channel(64);
                    let _ = h.list_authors(tx).await;
                    while let Ok(Some(_)) = rx.recv().await {}
                });
                observed = "ListAuthors".into();
            }
        }
        if last {
            bad.extend(step_bad);
        }
    }
    // final observation: states, exportability, then shut down and inspect the store
    let mut key = String::new();
    for i in 0..2u8 {
        let st = block_on(h.get_state(ns_id(i))).ok();
        let d = &m[i as usize];
        let want_handles = (d.handles > 0).then_some(d.handles);
        if st.map(|s| s.handles) != want_handles {
            bad.push(("open_handles_equal_model", json!({}), format!("doc {i}: get_state={st:?} model handles={}", d.handles)));
        }
        let exp = block_on(h.export_secret_key(ns_id(i))).is_ok();
        if exp != (d.handles > 0 && d.cap == Some(Cap::Write)) {
            bad.push((
                "export_secret_iff_write_capability",
                json!({"exported_without_write": exp, "refused_with_write": !exp, "final": true}),
                format!("doc {i}: export ok={exp}, model cap {:?} handles {}", d.cap, d.handles),
            ));
        }
        if d.handles > 0 {
            match block_on(handle_dump(&h, ns_id(i))) {
                Ok(dump) if dump == d.entries.dump() => {}
                other => bad.push(("entries_equal_model", json!({"actor": true}), format!("doc {i}: handle dump {other:?} vs model {}", show_entries(&d.entries.dump())))),
            }
        }
        key.push_str(&format!("{:?}/{exp}|", st.map(|s| (s.handles, s.sync))));
    }
    let mut store = block_on(h.shutdown()).expect("shutdown");
    let got = listed(&mut store);
    let want = model_listed(&m);
    if got != want {
        bad.push((
            "listed_capabilities_equal_max_imported",
            json!({"actor": true}),
            format!("listed={got:?} model={want:?}"),
        ));
    }
    let mut s2 = Sut { store };
    for i in 0..2u8 {
        let dump = s2.dump(ns_id(i));
        if dump != m[i as usize].entries.dump() {
            bad.push(("entries_equal_model", json!({"actor": true, "after_shutdown": true}), format!("doc {i}: store {} vs model {}", show_entries(&dump), show_entries(&m[i as usize].entries.dump()))));
        }
        key.push_str(&show_entries(&dump));
    }
    key.push_str(&format!("{got:?}"));
    // hidden state of the actor's store: a listing leaves it on a read snapshot
    key.push_str(&format!("|last_was_listing={}", matches!(hist.last(), Some(Ev::List | Ev::ListAuthors))));
    drop(s2);
    Some((bad, key, observed))
}

fn events(actor: bool) -> Vec<Ev> {
    let mut v = vec![];
    for i in 0..2u8 {
        v.extend([Ev::ImportRead(i), Ev::ImportWrite(i), Ev::Insert(i), Ev::Delete(i), Ev::Remote(i)]);
        v.extend([Ev::Open(i), Ev::Close(i)]);
        if actor {
            v.push(Ev::Export(i));
            v.push(Ev::Drop(i));
        }
    }
    v.push(Ev::Reopen);
    v.push(Ev::List);
    v.push(Ev::ListAuthors);
    v
}

// ---------------------------------------------------------------------------------------
// Family "api": the same capability state machine through the docs API of a node (the path
// every ticket import takes: DocsApi -> RpcActor -> store actor), on a real Engine.
// ---------------------------------------------------------------------------------------

#[derive(Debug, Clone, Copy, PartialEq, Eq, Serialize, Deserialize)]
pub enum ApiEv {
    ImportRead(u8),
    ImportWrite(u8),
    /// write through the most recent handle (or a freshly opened one)
    Write(u8),
    Delete(u8),
    /// close every handle of the document
    CloseAll(u8),
}

fn api_events() -> Vec<ApiEv> {
    let mut v = vec![];
    for d in 0..2u8 {
        v.extend([ApiEv::ImportRead(d), ApiEv::ImportWrite(d), ApiEv::Write(d), ApiEv::Delete(d), ApiEv::CloseAll(d)]);
    }
    v
}

use super::apifam::{api_node, ApiNode};

/// One history on fresh documents (namespace secrets derived from `salt`) of a shared node.
async fn exec_api(node: &ApiNode, hist: &[ApiEv], salt: u64) -> Bad {
    use n0_future::StreamExt;
    let api = node.docs.api();
    let mut bad: Bad = vec![];
    let secrets: Vec<iroh_docs::NamespaceSecret> = (0..2u8).map(|d| super::apifam::secret(salt, d)).collect();
    let ids: Vec<iroh_docs::NamespaceId> = secrets.iter().map(|s| s.id()).collect();
    let mut cap: [Option<Cap>; 2] = [None, None];
    let mut handles: [Vec<iroh_docs::api::Doc>; 2] = [vec![], vec![]];
    for (n, ev) in hist.iter().enumerate() {
        let last = n + 1 == hist.len();
        match *ev {
            ApiEv::ImportRead(d) | ApiEv::ImportWrite(d) => {
                let write = matches!(ev, ApiEv::ImportWrite(_));
                let c = if write { Capability::Write(secrets[d as usize].clone()) } else { Capability::Read(ids[d as usize]) };
                match api.import_namespace(c).await {
                    Ok(doc) => handles[d as usize].push(doc),
                    Err(e) => {
                        if last {
                            bad.push(("import_ok", json!({"api": true}), format!("{ev:?}: {e:#}")));
                        }
                    }
                }
                let want = if write { Cap::Write } else { Cap::Read };
                cap[d as usize] = Some(cap[d as usize].map(|c| c.max(want)).unwrap_or(want));
            }
            ApiEv::Write(d) | ApiEv::Delete(d) => {
                let doc = match handles[d as usize].last() {
                    Some(h) => Some(h.clone()),
                    None => match api.open(ids[d as usize]).await {
                        Ok(Some(h)) => {
                            handles[d as usize].push(h.clone());
                            Some(h)
                        }
                        _ => None,
                    },
                };
                let got_ok = match &doc {
                    None => false,
                    Some(doc) => {
                        if matches!(ev, ApiEv::Delete(_)) {
                            doc.del(node.author, format!("k{n}")).await.is_ok()
                        } else {
                            doc.set_bytes(node.author, format!("k{n}"), format!("v{n}")).await.is_ok()
                        }
                    }
                };
                let want_ok = cap[d as usize] == Some(Cap::Write);
                if got_ok != want_ok && last {
                    bad.push((
                        "write_attempt_outcome",
                        json!({"api": true, "read_only_replica_authored_entry": got_ok && !want_ok, "write_capability_lost": want_ok && !got_ok}),
                        format!("docs API, history {hist:?}: {ev:?} succeeded={got_ok}, the greatest capability imported for the document is {:?}", cap[d as usize]),
                    ));
                }
            }
            ApiEv::CloseAll(d) => {
                for h in handles[d as usize].drain(..) {
                    let _ = h.close().await;
                }
            }
        }
        if !last {
            continue;
        }
        // listing
        let mut listed: BTreeMap<iroh_docs::NamespaceId, String> = BTreeMap::new();
        match api.list().await {
            Err(e) => bad.push(("list_ok", json!({"api": true}), format!("{e:#}"))),
            Ok(mut st) => {
                while let Some(item) = st.next().await {
                    if let Ok((id, kind)) = item {
                        listed.insert(id, kind.to_string());
                    }
                }
            }
        }
        for d in 0..2usize {
            let got = listed.get(&ids[d]).cloned();
            let want = cap[d].map(|c| if c == Cap::Write { iroh_docs::CapabilityKind::Write.to_string() } else { iroh_docs::CapabilityKind::Read.to_string() });
            if got != want {
                bad.push((
                    "listed_capabilities_equal_max_imported",
                    json!({"api": true}),
                    format!("docs API, history {hist:?}: document {d} is listed as {got:?}, the greatest capability imported is {want:?}"),
                ));
            }
        }
    }
    for hs in handles.iter_mut() {
        for h in hs.drain(..) {
            let _ = h.close().await;
        }
    }
    bad
}

fn run_api_family(ctx: &Ctx, report: &mut Report) {
    let evs = api_events();
    let depth = if ctx.quick() { 4 } else { 5 };
    let mut cases: Vec<(u64, Vec<ApiEv>)> = vec![];
    let mut ordinal = 1u64 << 43;
    for d in 1..=depth {
        crate::util::for_each_sequence(evs.len(), d, |ix| {
            ordinal += 1;
            if ctx.mine(ordinal) {
                cases.push((ordinal, ix.iter().map(|&i| evs[i]).collect()));
            }
        });
    }
    let results: anyhow::Result<Vec<(u64, Vec<ApiEv>, Bad)>> = {
        // (its own runtime: all histories of a worker run inside this one future, which may take
        // longer than the hang detector of `sut::block_on` allows on a loaded machine)
        let rt = super::live::runtime();
        rt.block_on(async {
        let node = api_node().await?;
        let mut out = vec![];
        for (ord, hist) in cases {
            let bad = exec_api(&node, &hist, ord).await;
            out.push((ord, hist, bad));
        }
        super::apifam::shutdown(&node).await;
        Ok(out)
        })
    };
    match results {
        Err(e) => report.machinery_error(format!("docs API family: cannot set up a node: {e:#}")),
        Ok(rs) => {
            for (ord, hist, bad) in rs {
                report.evaluations += 1;
                report.traces += 1;
                report.transitions += hist.len() as u64;
                if hist.iter().any(|e| matches!(e, ApiEv::ImportWrite(_))) {
                    report.nontrivial += 1;
                }
                report.count("docs_api_histories", 1);
                let case = json!({"api_hist": hist, "salt": ord});
                for (o, w, d) in bad {
                    report.violation(o, w, case.clone(), d, ord);
                }
            }
        }
    }
}

fn run(ctx: &Ctx, report: &mut Report) {
    crate::util::silence_panics();
    if ctx.shard == 12 % ctx.of {
        report.evaluations += 1;
        report.count("old_format_store_files", 1);
        let case = json!({"old_format_peers": 2});
        match crate::util::catch(|| super::oldfmt::check(2, "C07")) {
            Err(p) => report.violation("no_panic", json!({"old_format": true}), case, format!("panic: {p}"), 0),
            Ok(bad) => {
                for (o, d) in bad {
                    if o == "MACHINERY" {
                        report.machinery_error(d);
                    } else {
                        report.violation(o, json!({"old_format": true}), case.clone(), d, 0);
                    }
                }
            }
        }
    }
    run_api_family(ctx, report);
    for actor in [false, true] {
        let depth = match (ctx.tier, actor) {
            (Tier::Quick, false) => 7,
            (Tier::Quick, true) => 6,
            (Tier::Thorough, false) => 10,
            (Tier::Thorough, true) => 9,
        };
        let evs = events(actor);
        let mut evals = 0u64;
        let mut nt = 0u64;
        let stats = bfs_nd(ctx, report, &evs, depth, 1, if ctx.quick() { 2 } else { 3 }, |h, report, ordinal| {
            evals += 1;
            let nontrivial = h.iter().enumerate().any(|(i, e)| {
                matches!(e, Ev::ImportRead(_) | Ev::Reopen)
                    && h[..i].iter().any(|p| matches!(p, Ev::ImportWrite(_)))
            });
            if nontrivial {
                nt += 1;
            }
            let case = json!({"actor": actor, "hist": h});
            let res = catch(|| if actor { exec_actor(h) } else { exec_direct(h) });
            match res {
                Err(p) => {
                    report.violation("no_panic", json!({"actor": actor}), case, format!("panic: {p}"), ordinal);
                    None
                }
                Ok(None) => None,
                Ok(Some((bad, key, observed))) => {
                    for (o, w, d) in bad {
                        report.violation(o, w, case.clone(), d, ordinal);
                    }
                    if nontrivial && h.len() >= 3 {
                        report.sample(|| json!({"actor": actor, "history": h.iter().map(|e| format!("{e:?}")).collect::<Vec<_>>(), "last": observed}));
                    }
                    Some(BfsOutcome { key, observed, enabled: None })
                }
            }
        });
        report.evaluations += evals;
        report.nontrivial += nt;
        report.count(if actor { "states_actor" } else { "states_direct" }, stats.states);
    }
}

fn replay(case: &Value) -> anyhow::Result<(bool, String)> {
    if let Some(n) = case.get("old_format_peers").and_then(|n| n.as_u64()) {
        let bad = crate::util::catch(|| super::oldfmt::check(n as u8, "C07")).map_err(|p| anyhow::anyhow!(p))?;
        let out: String = bad.iter().map(|(o, d)| format!("FAILED {o}: {d}\n")).collect();
        return Ok((!bad.is_empty(), format!("store file of the redb 2.x format\n{out}")));
    }
    if let Some(h) = case.get("api_hist") {
        let hist: Vec<ApiEv> = serde_json::from_value(h.clone())?;
        let salt = case["salt"].as_u64().unwrap_or(1);
        let bad: anyhow::Result<Bad> = block_on(async {
            let node = api_node().await?;
            let b = exec_api(&node, &hist, salt).await;
            super::apifam::shutdown(&node).await;
            Ok(b)
        });
        let bad = bad?;
        let out: String = bad.iter().map(|(o, _, d)| format!("FAILED {o}: {d}\n")).collect();
        return Ok((!bad.is_empty(), format!("docs API history {hist:?}\n{out}")));
    }
    let actor = case["actor"].as_bool().unwrap_or(false);
    let hist: Vec<Ev> = serde_json::from_value(case["hist"].clone())?;
    match catch(|| if actor { exec_actor(&hist) } else { exec_direct(&hist) }) {
        Err(p) => Ok((true, format!("panic: {p}"))),
        Ok(None) => Ok((false, "history not enabled".into())),
        Ok(Some((bad, key, observed))) => {
            let mut out = format!("actor={actor} history {hist:?}\nlast: {observed}\nstate: {key}\n");
            for (o, _, d) in &bad {
                out.push_str(&format!("FAILED {o}: {d}\n"));
            }
            Ok((!bad.is_empty(), out))
        }
    }
}
