//! C10 — a sync session ends cleanly whatever the peer sends and whatever fails locally.

use std::time::Duration;

use bytes::BytesMut;
use iroh_docs::{
    actor::{OpenOpts, SyncHandle},
    net::{
        verif_codec::{self, BobState, Frame},
        AbortReason, AcceptOutcome,
    },
    store::Store,
    sync::SyncOutcome,
    Capability, NamespaceId, ProtocolMessage,
};
use serde::{Deserialize, Serialize};
use serde_json::{json, Value};
use tokio::io::{AsyncReadExt, AsyncWriteExt, DuplexStream, ReadHalf, WriteHalf};

use super::common::set_clock;
use crate::{
    report::Report,
    sut::{block_on, handle_dump, Sut},
    universe::{ns_id, ns_secret, Spec, Val, NOW},
    util::{catch, for_each_sequence},
    Ctx, PropDef, Tier,
};

pub fn def() -> PropDef {
    PropDef {
        id: "C10",
        level: "fault_enumeration",
        rule: "(A) the real acceptor (BobState::run over an in-memory duplex stream, backed by a real store actor) against a scripted initiator that owns a real replica and at every step chooses from {correct next frame, replay previous frame, Init again, an Init whose message already carries a signed entry, Sync now, Abort(3 reasons), garbage frame with valid length, well-formed frame whose range bounds are record identifiers cut to 40 / 41 bytes, oversized length prefix, cut inside the next correct frame, close}: every script of <= d steps x accept callback {Allow, Reject(NotFound|AlreadySyncing|InternalServerError)}, and — wherever the acceptor has to end the session on its own (after a decline or after a frame that is an error for it) — the same script against a peer that keeps its stream open afterwards; (B) the real initiator (run_alice) against a scripted acceptor with the mirrored menu; (C) real initiator against real acceptor through a frame relay that injects one local fault {close the document, disable sync, shut the store actor down} on either side before its k-th incoming frame (and before the first outgoing one), for every k; oracle: both ends return Ok or Err within the deadline, no panic, the store actor of the side under test still answers after the session, BobState::into_outcome() callable after every outcome and the document of an accepted session still known (namespace()) so that its end can be reported, a declined request leaves the acceptor's store unchanged, a side whose document was closed / taken out of sync / whose actor was stopped before a frame it has to process reports an error, counters mirror when both ends return Ok; (F) the store actor is made to wait, a stop request is queued, then the session (initiator or acceptor under test) issues its first store request behind it and the actor is released: the session side returns; big sets (450 entries per side) run through (C) over pipes smaller than a frame and through (D); non-trivial = scenarios with at least one deviation from the correct protocol or one injected fault",
        assumptions: &[
            "deadlines are hang detectors only: a scenario that exceeds 5 s is re-run once with 50 s and must hang again to count",
            "the transport is an in-memory duplex stream; QUIC stream semantics (finish/stopped) are outside",
        ],
        bound: |t| match t {
            Tier::Quick => json!({"A": "scripts <= 4 steps over 12 choices; rejects on scripts starting with a correct Init", "B": "scripts <= 4 steps over 11 choices", "C": "2 state pairs x 2 sides x 3 faults x every k"}),
            Tier::Thorough => json!({"A": "scripts <= 5 steps", "B": "scripts <= 5 steps", "C": "4 state pairs x 2 sides x 3 faults x every k"}),
        },
        run,
        replay,
        shards: |_| 16,
    }
}

#[derive(Debug, Clone, Copy, PartialEq, Eq, Serialize, Deserialize)]
pub enum Choice {
    Correct,
    ReplayPrev,
    Init,
    SyncNow,
    AbortNotFound,
    AbortAlreadySyncing,
    AbortInternal,
    Garbage,
    Oversized,
    CutInside,
    Close,
    /// a well-formed frame (Init before the handshake, Sync afterwards) whose reconciliation
    /// message names a range by two record identifiers cut to 40 and 41 bytes (namespace id
    /// plus a quarter of an author id): hostile, and must be an error, not a crash of the
    /// store actor
    ShortIds,
    /// (initiator only) an `Init` frame whose reconciliation message already carries a validly
    /// signed entry instead of a bare fingerprint — what no honest initiator sends, and what a
    /// declined request must not get into the store
    InitWithEntries,
}

const ALICE_MENU: [Choice; 13] = [
    Choice::Correct,
    Choice::ReplayPrev,
    Choice::Init,
    Choice::SyncNow,
    Choice::AbortNotFound,
    Choice::AbortAlreadySyncing,
    Choice::AbortInternal,
    Choice::Garbage,
    Choice::Oversized,
    Choice::CutInside,
    Choice::Close,
    Choice::ShortIds,
    Choice::InitWithEntries,
];

const BOB_MENU: [Choice; 11] = [
    Choice::Correct,
    Choice::ReplayPrev,
    Choice::Init,
    Choice::AbortNotFound,
    Choice::AbortAlreadySyncing,
    Choice::AbortInternal,
    Choice::Garbage,
    Choice::Oversized,
    Choice::CutInside,
    Choice::Close,
    Choice::ShortIds,
];

#[derive(Debug, Clone, Copy, PartialEq, Eq, Serialize, Deserialize)]
pub enum Accept {
    Allow,
    NotFound,
    AlreadySyncing,
    Internal,
}

impl Accept {
    fn outcome(self) -> AcceptOutcome {
        match self {
            Accept::Allow => AcceptOutcome::Allow,
            Accept::NotFound => AcceptOutcome::Reject(AbortReason::NotFound),
            Accept::AlreadySyncing => AcceptOutcome::Reject(AbortReason::AlreadySyncing),
            Accept::Internal => AcceptOutcome::Reject(AbortReason::InternalServerError),
        }
    }
}

fn side_entries(side: u8, variant: u8) -> Vec<Spec> {
    if variant == 6 {
        // variant 5 with the roles swapped: the empty side initiates and pulls
        return side_entries(1 - side, 5);
    }
    if variant == 5 {
        // one side empty, the other with 130 entries under keys of 16000 bytes: everything
        // travels in one frame of more than two megabytes
        if side == 1 {
            return vec![];
        }
        return (0..130u32)
            .map(|i| {
                let mut key = vec![b'h'; 16000];
                key.extend_from_slice(format!("{i:04}").as_bytes());
                Spec::new(0, 0, &key, 1 + (i % 3) as u64, Val::X)
            })
            .collect();
    }
    if variant == 4 {
        // big sets: 400 entries of its own per side plus 50 both hold (messages of tens of
        // kilobytes, many rounds; pipes smaller than one frame make back-pressure real)
        let mut v = vec![];
        for i in 0..400u32 {
            // (time order is the reverse of key order: what arrives late in a session is old)
            v.push(Spec::new(0, side, format!("s{side}-{i:04}").as_bytes(), 3 - (i * 3 / 400) as u64, Val::X));
        }
        for i in 0..50u32 {
            v.push(Spec::new(0, 0, format!("both-{i:04}").as_bytes(), 2, Val::Y));
        }
        return v;
    }
    // states that need several round trips
    let keys: [&[u8]; 6] = [b"a", b"ab", b"b", b"c", b"d", b"e"];
    let mut v = vec![];
    for (i, k) in keys.iter().enumerate() {
        let mine = (i as u8 + side + variant) % 2 == 0;
        if mine {
            v.push(Spec::new(0, side, k, 1 + (i as u64 % 3), Val::X));
        }
    }
    if variant % 2 == 1 {
        v.push(Spec::new(0, side, b"", 1, Val::Y));
    }
    if variant >= 2 {
        v.push(Spec::new(0, 1 - side, b"zz", 3, Val::Del));
    }
    v
}

fn peer_key(i: u8) -> iroh::PublicKey {
    iroh::SecretKey::from_bytes(&[0x40 + i; 32]).public()
}

/// A store actor with document N0 imported, populated and opened with sync enabled.
fn spawn_actor(entries: &[Spec]) -> SyncHandle {
    set_clock(NOW);
    let mut store = Store::memory();
    store
        .import_namespace(Capability::Write(ns_secret(0)))
        .expect("import");
    let mut sut = Sut { store };
    for e in entries {
        let _ = sut.remote(ns_id(0), e.signed());
    }
    let h = SyncHandle::spawn(sut.store, None, "c10".into());
    block_on(h.open(ns_id(0), OpenOpts::default().sync())).expect("open");
    h
}

/// Hand-assembled frame with record identifiers shorter than namespace id + author id.
fn short_id_frame(init: bool) -> Vec<u8> {
    use crate::mirror::{encode_message, RawPart};
    let ns = ns_id(0).to_bytes();
    let mut x = ns.to_vec();
    x.extend_from_slice(&[1u8; 8]);
    let mut y = ns.to_vec();
    y.extend_from_slice(&[2u8; 9]);
    let msg = encode_message(&[RawPart::Fingerprint { x, y, fp: [0u8; 32] }]);
    let mut body = vec![];
    if init {
        body.push(0u8);
        body.extend_from_slice(&ns);
    } else {
        body.push(1u8);
    }
    body.extend_from_slice(&msg);
    let mut out = (body.len() as u32).to_be_bytes().to_vec();
    out.extend_from_slice(&body);
    // the hand-written layout must agree with the crate's encoder on a regular frame
    thread_local! { static CHECKED: std::cell::Cell<bool> = const { std::cell::Cell::new(false) }; }
    if !CHECKED.with(|c| c.replace(true)) {
        let mut sut = Sut::memory_with(&[0]);
        let real = encode(Frame::Init { namespace: ns_id(0), message: sut.sync_initial(ns_id(0)).expect("initial") });
        assert!(real[4] == 0 && real[5..37] == ns, "MACHINERY: frame layout differs from the mirror");
        let real = encode(Frame::Sync(sut.sync_initial(ns_id(0)).expect("initial")));
        assert!(real[4] == 1, "MACHINERY: frame layout differs from the mirror");
    }
    out
}

/// An `Init` frame for document 0 whose message is what a one-entry replica answers to an empty
/// peer: an item part carrying its (validly signed) entry.
fn init_with_entries() -> Vec<u8> {
    let ns = ns_id(0);
    let mut one = Sut::memory_with(&[0]);
    let _ = one.remote(ns, Spec::new(0, 1, b"zz9", 3, Val::X).signed());
    let opening = Sut::memory_with(&[0]).sync_initial(ns).expect("initial");
    let mut st = SyncOutcome::default();
    let msg = one
        .sync_process(ns, opening, [9u8; 32], &mut st)
        .expect("process")
        .expect("a reply");
    assert!(!iroh_docs::verif::message_values(&msg).is_empty(), "MACHINERY: the crafted Init carries no entry");
    encode(Frame::Init { namespace: ns, message: msg })
}

fn encode(f: Frame) -> Vec<u8> {
    let mut b = BytesMut::new();
    verif_codec::encode(f, &mut b).expect("encode");
    b.to_vec()
}

async fn read_frame(r: &mut ReadHalf<DuplexStream>) -> Option<Frame> {
    let mut len = [0u8; 4];
    r.read_exact(&mut len).await.ok()?;
    let n = u32::from_be_bytes(len) as usize;
    if n > 1 << 26 {
        return None;
    }
    let mut buf = vec![0u8; n];
    r.read_exact(&mut buf).await.ok()?;
    let mut b = BytesMut::new();
    b.extend_from_slice(&len);
    b.extend_from_slice(&buf);
    verif_codec::decode(&mut b).ok().flatten()
}

/// Scripted participant owning a real replica.
struct Scripted {
    sut: Sut,
    ns: NamespaceId,
    outcome: SyncOutcome,
    /// next correct protocol message to send (None = our side is finished)
    pending: Option<ProtocolMessage>,
    inited: bool,
    prev_frame: Option<Vec<u8>>,
    is_initiator: bool,
}

impl Scripted {
    fn new(entries: &[Spec], is_initiator: bool) -> Self {
        set_clock(NOW);
        let mut sut = Sut::memory_with(&[0]);
        for e in entries {
            let _ = sut.remote(ns_id(0), e.signed());
        }
        let pending = if is_initiator {
            Some(sut.sync_initial(ns_id(0)).expect("initial"))
        } else {
            None
        };
        Scripted {
            sut,
            ns: ns_id(0),
            outcome: SyncOutcome::default(),
            pending,
            inited: false,
            prev_frame: None,
            is_initiator,
        }
    }

    fn next_correct_frame(&mut self) -> Option<Vec<u8>> {
        let msg = self.pending.take()?;
        let f = if self.is_initiator && !self.inited {
            self.inited = true;
            Frame::Init {
                namespace: self.ns,
                message: msg,
            }
        } else {
            Frame::Sync(msg)
        };
        Some(encode(f))
    }

    /// Consume a frame from the system under test and prepare the next correct reply.
    fn absorb(&mut self, f: Option<Frame>) {
        let msg = match f {
            Some(Frame::Sync(m)) => Some(m),
            Some(Frame::Init { message, .. }) => Some(message),
            _ => None,
        };
        if let Some(m) = msg {
            self.pending = self
                .sut
                .sync_process(self.ns, m, [9u8; 32], &mut self.outcome)
                .ok()
                .flatten();
        }
    }
}

#[derive(Debug, Default, Clone, PartialEq, Eq)]
struct Observed {
    sut_result: String,
    into_outcome: String,
    hang: bool,
    panic: Option<String>,
    store_changed_on_reject: bool,
    counters_mirror: Option<bool>,
    /// the accept callback answered Allow, but afterwards the acceptor cannot name the document
    /// of the session (BobState::namespace() / AcceptError::namespace() is None)
    accepted_session_without_namespace: bool,
    /// (initiator returned Ok, acceptor returned Ok) for real-vs-real scenarios
    both_ok: Option<(bool, bool)>,
    /// after the session the store actor of the side under test no longer answers (its thread
    /// died): the node is unusable although the session itself returned
    actor_dead: bool,
    /// transport family: oracle failures found by the scenario itself (name, detail)
    transport_bad: Vec<(String, String)>,
    /// the acceptor reported a failure of its closing step (evidence for script 6)
    close_failure_seen: bool,
}

const DEADLINE: Duration = Duration::from_secs(5);

/// (F) the store actor is stopped while a request of the session is already queued behind the
/// stop request. The actor is first made to wait (an insert whose event does not fit into a
/// subscriber's one-slot channel), then `shutdown` is queued, then the session starts — its first
/// store request (`sync_initial_message` for the initiator, `sync_process_message` for the
/// acceptor, after its accept callback said yes) queues up behind the stop —, then the
/// subscriber is released. The session side must return (an error), not wait forever.
async fn scenario_stop_queued(initiator_under_test: bool, deadline: Duration) -> Observed {
    let mut obs = Observed::default();
    let handle = spawn_actor(&side_entries(if initiator_under_test { 0 } else { 1 }, 0));
    let (tx, rx) = async_channel::bounded(1);
    if handle.subscribe(ns_id(0), tx).await.is_err() {
        obs.panic = Some("MACHINERY: subscribe failed".into());
        return obs;
    }
    let e1 = Spec::new(0, 1, b"stall1", 3, Val::X).signed();
    let e2 = Spec::new(0, 1, b"stall2", 3, Val::X).signed();
    let _ = handle.insert_remote(ns_id(0), e1, [7u8; 32], iroh_docs::ContentStatus::Missing).await;
    let h2 = handle.clone();
    let blocked = tokio::task::spawn_local(async move { h2.insert_remote(ns_id(0), e2, [7u8; 32], iroh_docs::ContentStatus::Missing).await.is_ok() });
    tokio::time::sleep(Duration::from_millis(30)).await;
    let h3 = handle.clone();
    let stopper = tokio::task::spawn_local(async move {
        let _ = h3.shutdown().await;
    });
    tokio::time::sleep(Duration::from_millis(30)).await;
    let (a_end, b_end) = tokio::io::duplex(1 << 20);
    let (mut a_r, mut a_w) = tokio::io::split(a_end);
    let (b_r, b_w) = tokio::io::split(b_end);
    let h4 = handle.clone();
    let sut = tokio::task::spawn_local(async move {
        if initiator_under_test {
            let res = verif_codec::run_alice(&mut a_w, &mut a_r, &h4, ns_id(0), peer_key(2)).await;
            let _ = a_w.shutdown().await;
            drop((b_r, b_w));
            (match res {
                Ok(_) => "Ok".to_string(),
                Err(e) => format!("Err({})", short(&format!("{e:?}"))),
            }, Ok(()))
        } else {
            // the peer's request is already waiting in the pipe
            let mut peer = Scripted::new(&side_entries(0, 0), true);
            if let Some(f) = peer.next_correct_frame() {
                let _ = a_w.write_all(&f).await;
            }
            let mut state = BobState::new(peer_key(1));
            let res = state.run(b_w, b_r, h4, |_ns, _peer| async { AcceptOutcome::Allow }).await;
            let out = std::panic::catch_unwind(std::panic::AssertUnwindSafe(|| state.into_outcome())).map(|_| ()).map_err(|p| crate::util::panic_message(&p));
            drop((a_r, a_w));
            (match res {
                Ok(_) => "Ok".to_string(),
                Err(e) => format!("Err({})", short(&format!("{e:?}"))),
            }, out)
        }
    });
    // let the session's request reach the queue, then release the actor
    tokio::time::sleep(Duration::from_millis(80)).await;
    drop(rx);
    match tokio::time::timeout(deadline, sut).await {
        Err(_) => obs.hang = true,
        Ok(Ok((res, out))) => {
            obs.sut_result = res;
            match out {
                Ok(()) => obs.into_outcome = "ok".into(),
                Err(p) => {
                    obs.into_outcome = "panic".into();
                    obs.panic = Some(format!("into_outcome: {p}"));
                }
            }
        }
        Ok(Err(e)) => obs.panic = Some(format!("task join: {e}")),
    }
    blocked.abort();
    stopper.abort();
    obs
}

/// (A) real acceptor vs scripted initiator.
async fn scenario_bob(script: &[Choice], accept: Accept, variant: u8, hold: bool, deadline: Duration) -> Observed {
    let mut obs = Observed::default();
    let handle = spawn_actor(&side_entries(1, variant));
    let before = handle_dump(&handle, ns_id(0)).await.ok();
    let (a_end, b_end) = tokio::io::duplex(1 << 20);
    let (mut a_r, mut a_w) = tokio::io::split(a_end);
    let (b_r, b_w) = tokio::io::split(b_end);
    let h2 = handle.clone();
    let bob = tokio::task::spawn_local(async move {
        let mut state = BobState::new(peer_key(1));
        let asked = std::rc::Rc::new(std::cell::Cell::new(false));
        let asked2 = asked.clone();
        let res = state
            .run(b_w, b_r, h2, move |_ns, _peer| {
                asked2.set(true);
                let o = accept.outcome();
                async move { o }
            })
            .await;
        let res_s = match &res {
            Ok(_) => "Ok".to_string(),
            Err(e) => format!("Err({})", short(&format!("{e:?}"))),
        };
        let allowed = asked.get() && accept == Accept::Allow;
        let lost_ns = allowed
            && (state.namespace().is_none()
                || res.as_ref().err().map(|e| e.namespace().is_none()).unwrap_or(false));
        // into_outcome must be callable after every outcome
        let out = std::panic::catch_unwind(std::panic::AssertUnwindSafe(|| state.into_outcome()));
        (res_s, out.map_err(|p| crate::util::panic_message(&p)), lost_ns)
    });
    let mut alice = Scripted::new(&side_entries(0, variant), true);
    let script = script.to_vec();
    let alice_task = async {
        let mut closed = false;
        for c in &script {
            if closed {
                break;
            }
            let bytes: Option<Vec<u8>> = match c {
                Choice::Correct => alice.next_correct_frame(),
                Choice::ReplayPrev => alice.prev_frame.clone(),
                Choice::Init => Some(encode(Frame::Init {
                    namespace: alice.ns,
                    message: alice.sut.sync_initial(alice.ns).expect("initial"),
                })),
                Choice::SyncNow => Some(encode(Frame::Sync(
                    alice.sut.sync_initial(alice.ns).expect("initial"),
                ))),
                Choice::AbortNotFound => Some(encode(Frame::Abort {
                    reason: AbortReason::NotFound,
                })),
                Choice::AbortAlreadySyncing => Some(encode(Frame::Abort {
                    reason: AbortReason::AlreadySyncing,
                })),
                Choice::AbortInternal => Some(encode(Frame::Abort {
                    reason: AbortReason::InternalServerError,
                })),
                Choice::Garbage => Some(vec![0, 0, 0, 5, 0xff, 0xff, 0xff, 0xff, 0xff]),
                Choice::ShortIds => Some(short_id_frame(!alice.inited)),
                Choice::InitWithEntries => Some(init_with_entries()),
                Choice::Oversized => {
                    Some(((verif_codec::MAX_MESSAGE_SIZE as u32) + 1).to_be_bytes().to_vec())
                }
                Choice::CutInside => {
                    let f = alice
                        .next_correct_frame()
                        .unwrap_or_else(|| encode(Frame::Abort { reason: AbortReason::NotFound }));
                    let _ = a_w.write_all(&f[..f.len() / 2]).await;
                    closed = true;
                    None
                }
                Choice::Close => {
                    closed = true;
                    None
                }
            };
            if let Some(b) = bytes {
                let _ = a_w.write_all(&b).await;
                alice.prev_frame = Some(b);
                if matches!(c, Choice::Correct) {
                    let f = read_frame(&mut a_r).await;
                    alice.absorb(f);
                }
            }
        }
        if hold && !closed {
            // a peer that keeps its stream open: the acceptor has to finish on its own; we only
            // notice that through the end of its stream
            let mut sink = vec![];
            let _ = a_r.read_to_end(&mut sink).await;
            let _ = a_w.shutdown().await;
            return alice;
        }
        let _ = a_w.shutdown().await;
        drop(a_w);
        // drain whatever the acceptor still sends
        let mut sink = vec![];
        let _ = a_r.read_to_end(&mut sink).await;
        alice
    };
    let joined = tokio::time::timeout(deadline, async { tokio::join!(bob, alice_task) }).await;
    match joined {
        Err(_) => obs.hang = true,
        Ok((bob_res, alice)) => {
            match bob_res {
                Err(e) => obs.panic = Some(format!("acceptor task: {e}")),
                Ok((res, out, lost_ns)) => {
                    obs.sut_result = res.clone();
                    obs.accepted_session_without_namespace = lost_ns;
                    match out {
                        Err(p) => {
                            obs.into_outcome = "panic".into();
                            obs.panic = Some(format!("into_outcome: {p}"));
                        }
                        Ok(o) => {
                            obs.into_outcome = "ok".into();
                            if res == "Ok" && script.len() >= 12 && script.iter().all(|c| *c == Choice::Correct) {
                                obs.counters_mirror = Some(
                                    o.num_sent == alice.outcome.num_recv
                                        && o.num_recv == alice.outcome.num_sent,
                                );
                            }
                        }
                    }
                }
            }
            if accept != Accept::Allow {
                let after = handle_dump(&handle, ns_id(0)).await.ok();
                obs.store_changed_on_reject = before != after;
            }
        }
    }
    obs.actor_dead = !actor_alive(&handle).await;
    let _ = handle.shutdown().await;
    obs
}

/// The store actor still answers a request (no fault was injected in these scenarios, and the
/// document was opened by `spawn_actor`).
async fn actor_alive(handle: &SyncHandle) -> bool {
    matches!(
        tokio::time::timeout(Duration::from_secs(2), handle.get_state(ns_id(0))).await,
        Ok(Ok(_))
    )
}

/// (B) real initiator vs scripted acceptor.
async fn scenario_alice(script: &[Choice], variant: u8, hold: bool, deadline: Duration) -> Observed {
    let mut obs = Observed::default();
    let handle = spawn_actor(&side_entries(0, variant));
    let (a_end, b_end) = tokio::io::duplex(1 << 20);
    let (mut a_r, mut a_w) = tokio::io::split(a_end);
    let (mut b_r, mut b_w) = tokio::io::split(b_end);
    let h2 = handle.clone();
    let alice = tokio::task::spawn_local(async move {
        let res = verif_codec::run_alice(&mut a_w, &mut a_r, &h2, ns_id(0), peer_key(2)).await;
        let _ = a_w.shutdown().await;
        match res {
            Ok(o) => ("Ok".to_string(), Some(o)),
            Err(e) => (format!("Err({})", short(&format!("{e:?}"))), None),
        }
    });
    let mut bob = Scripted::new(&side_entries(1, variant), false);
    let script = script.to_vec();
    let bob_task = async {
        let mut closed = false;
        for c in &script {
            if closed {
                break;
            }
            let bytes: Option<Vec<u8>> = match c {
                Choice::Correct => {
                    // read the initiator's frame, process it, reply (or finish)
                    let f = read_frame(&mut b_r).await;
                    let had = f.is_some();
                    bob.absorb(f);
                    match bob.next_correct_frame() {
                        Some(b) => Some(b),
                        None => {
                            if had {
                                // our side has nothing more to say: a correct acceptor ends here
                                closed = true;
                            }
                            None
                        }
                    }
                }
                Choice::ReplayPrev => bob.prev_frame.clone(),
                Choice::Init | Choice::SyncNow => Some(encode(Frame::Init {
                    namespace: bob.ns,
                    message: bob.sut.sync_initial(bob.ns).expect("initial"),
                })),
                Choice::AbortNotFound => Some(encode(Frame::Abort { reason: AbortReason::NotFound })),
                Choice::AbortAlreadySyncing => {
                    Some(encode(Frame::Abort { reason: AbortReason::AlreadySyncing }))
                }
                Choice::AbortInternal => {
                    Some(encode(Frame::Abort { reason: AbortReason::InternalServerError }))
                }
                Choice::Garbage => Some(vec![0, 0, 0, 5, 0xff, 0xff, 0xff, 0xff, 0xff]),
                Choice::ShortIds => Some(short_id_frame(false)),
                Choice::InitWithEntries => Some(init_with_entries()),
                Choice::Oversized => {
                    Some(((verif_codec::MAX_MESSAGE_SIZE as u32) + 1).to_be_bytes().to_vec())
                }
                Choice::CutInside => {
                    let f = read_frame(&mut b_r).await;
                    bob.absorb(f);
                    let f = bob
                        .next_correct_frame()
                        .unwrap_or_else(|| encode(Frame::Abort { reason: AbortReason::NotFound }));
                    let _ = b_w.write_all(&f[..f.len() / 2]).await;
                    closed = true;
                    None
                }
                Choice::Close => {
                    closed = true;
                    None
                }
            };
            if let Some(b) = bytes {
                let _ = b_w.write_all(&b).await;
                bob.prev_frame = Some(b);
            }
        }
        if hold && !closed {
            let mut sink = vec![];
            let _ = b_r.read_to_end(&mut sink).await;
            let _ = b_w.shutdown().await;
            return bob;
        }
        let _ = b_w.shutdown().await;
        drop(b_w);
        let mut sink = vec![];
        let _ = b_r.read_to_end(&mut sink).await;
        bob
    };
    let joined = tokio::time::timeout(deadline, async { tokio::join!(alice, bob_task) }).await;
    match joined {
        Err(_) => obs.hang = true,
        Ok((alice_res, bob)) => match alice_res {
            Err(e) => obs.panic = Some(format!("initiator task: {e}")),
            Ok((res, out)) => {
                obs.sut_result = res.clone();
                obs.into_outcome = "n/a".into();
                if let (Some(o), true) = (out, script.iter().all(|c| *c == Choice::Correct)) {
                    if script.len() >= 12 {
                        obs.counters_mirror = Some(
                            o.num_sent == bob.outcome.num_recv && o.num_recv == bob.outcome.num_sent,
                        );
                    }
                }
            }
        },
    }
    obs.actor_dead = !actor_alive(&handle).await;
    let _ = handle.shutdown().await;
    obs
}

#[derive(Debug, Clone, Copy, PartialEq, Eq, Serialize, Deserialize)]
pub enum Fault {
    CloseDoc,
    DisableSync,
    Shutdown,
    /// not a local fault but one of the transport: the stream towards that side ends (cleanly)
    /// in the middle of its k-th incoming frame
    CutInside,
}

async fn inject(h: &SyncHandle, f: Fault) {
    match f {
        Fault::CutInside => {}
        Fault::CloseDoc => {
            let _ = h.close(ns_id(0)).await;
        }
        Fault::DisableSync => {
            let _ = h.set_sync(ns_id(0), false).await;
        }
        Fault::Shutdown => {
            let _ = h.shutdown().await;
        }
    }
}

/// Forward whole frames from `r` to `w`; before forwarding frame number `k` (0-based) run the
/// fault. Returns the number of frames forwarded.
async fn relay(
    mut r: ReadHalf<DuplexStream>,
    mut w: WriteHalf<DuplexStream>,
    fault_at: Option<(usize, Fault, SyncHandle)>,
) -> usize {
    let mut n = 0;
    loop {
        let mut len = [0u8; 4];
        if r.read_exact(&mut len).await.is_err() {
            break;
        }
        let size = u32::from_be_bytes(len) as usize;
        let mut buf = vec![0u8; size];
        if r.read_exact(&mut buf).await.is_err() {
            break;
        }
        if let Some((k, f, h)) = &fault_at {
            if *k == n {
                if *f == Fault::CutInside {
                    // half of the frame (length prefix included), then a clean end of stream
                    let mut whole = len.to_vec();
                    whole.extend_from_slice(&buf);
                    let _ = w.write_all(&whole[..whole.len() / 2]).await;
                    break;
                }
                inject(h, *f).await;
            }
        }
        if w.write_all(&len).await.is_err() || w.write_all(&buf).await.is_err() {
            break;
        }
        n += 1;
    }
    let _ = w.shutdown().await;
    n
}

/// (C) real vs real with one local fault. `side`: 0 = initiator, 1 = acceptor. `k`: the fault
/// fires before that side's k-th incoming frame; for the initiator k = usize::MAX means before
/// it starts.
async fn scenario_fault(
    variant: u8,
    side: u8,
    fault: Option<(usize, Fault)>,
    deadline: Duration,
) -> (Observed, usize, usize) {
    let mut obs = Observed::default();
    let ha = spawn_actor(&side_entries(0, variant));
    let hb = spawn_actor(&side_entries(1, variant));
    // alice <-> relay <-> bob (for the big sets the pipes are smaller than a frame)
    let pipe = if variant >= 4 { 1 << 11 } else { 1 << 20 };
    let (a_end, ra_end) = tokio::io::duplex(pipe);
    let (rb_end, b_end) = tokio::io::duplex(pipe);
    let (mut a_r, mut a_w) = tokio::io::split(a_end);
    let (ra_r, ra_w) = tokio::io::split(ra_end);
    let (rb_r, rb_w) = tokio::io::split(rb_end);
    let (b_r, b_w) = tokio::io::split(b_end);
    if let (0, Some((usize::MAX, f))) = (side, fault) {
        inject(&ha, f).await;
    }
    let to_bob_fault = match (side, fault) {
        (1, Some((k, f))) => Some((k, f, hb.clone())),
        _ => None,
    };
    let to_alice_fault = match (side, fault) {
        (0, Some((k, f))) if k != usize::MAX => Some((k, f, ha.clone())),
        _ => None,
    };
    let r1 = tokio::task::spawn_local(relay(ra_r, rb_w, to_bob_fault));
    let r2 = tokio::task::spawn_local(relay(rb_r, ra_w, to_alice_fault));
    let ha2 = ha.clone();
    let alice = tokio::task::spawn_local(async move {
        let res = verif_codec::run_alice(&mut a_w, &mut a_r, &ha2, ns_id(0), peer_key(2)).await;
        let _ = a_w.shutdown().await;
        // like connect_and_sync: drain the receive side
        let mut sink = vec![];
        let _ = a_r.read_to_end(&mut sink).await;
        res.map_err(|e| short(&format!("{e:?}")))
    });
    let hb2 = hb.clone();
    let bob = tokio::task::spawn_local(async move {
        let mut state = BobState::new(peer_key(1));
        let asked = std::rc::Rc::new(std::cell::Cell::new(false));
        let asked2 = asked.clone();
        let res = state
            .run(b_w, b_r, hb2, move |_ns, _peer| {
                asked2.set(true);
                async { AcceptOutcome::Allow }
            })
            .await;
        let lost_ns = asked.get()
            && (state.namespace().is_none()
                || res.as_ref().err().map(|e| e.namespace().is_none()).unwrap_or(false));
        let res = res.map(|_| ()).map_err(|e| short(&format!("{e:?}")));
        let out = std::panic::catch_unwind(std::panic::AssertUnwindSafe(|| state.into_outcome()));
        (res, out.map_err(|p| crate::util::panic_message(&p)), lost_ns)
    });
    let joined =
        tokio::time::timeout(deadline, async { tokio::join!(alice, bob, r1, r2) }).await;
    let mut frames = (0, 0);
    match joined {
        Err(_) => obs.hang = true,
        Ok((a, b, n1, n2)) => {
            frames = (n1.unwrap_or(0), n2.unwrap_or(0));
            match (a, b) {
                (Ok(ar), Ok((br, out, lost_ns))) => {
                    obs.accepted_session_without_namespace = lost_ns;
                    obs.both_ok = Some((ar.is_ok(), br.is_ok()));
                    if fault.is_none() && !(ar.is_ok() && br.is_ok()) {
                        obs.transport_bad.push(("healthy_session_succeeds".into(), format!("no fault was injected and both peers follow the protocol, but the session ended with initiator {} / acceptor {}", ar.as_ref().map(|_| "Ok".to_string()).unwrap_or_else(|e| format!("Err({})", short(&format!("{e:?}")))), br.as_ref().map(|_| "Ok".to_string()).unwrap_or_else(|e| format!("Err({})", short(&format!("{e:?}")))))));
                    }
                    obs.sut_result = format!(
                        "alice={} bob={}",
                        ar.as_ref().map(|_| "Ok".to_string()).unwrap_or_else(|e| format!("Err({e})")),
                        br.as_ref().map(|_| "Ok".to_string()).unwrap_or_else(|e| format!("Err({e})"))
                    );
                    match out {
                        Err(p) => {
                            obs.into_outcome = "panic".into();
                            obs.panic = Some(format!("into_outcome: {p}"));
                        }
                        Ok(bo) => {
                            obs.into_outcome = "ok".into();
                            if let (Ok(ao), Ok(())) = (&ar, &br) {
                                obs.counters_mirror = Some(
                                    ao.num_sent == bo.num_recv && ao.num_recv == bo.num_sent,
                                );
                                if fault.is_none() {
                                    // a complete session: both hold the merge of both sides
                                    let mut all = side_entries(0, variant);
                                    all.extend(side_entries(1, variant));
                                    let signed: Vec<_> = all.iter().map(|s| s.signed()).collect();
                                    let want = crate::refmodel::ModelReplica::spec(&signed).dump();
                                    let da = handle_dump(&ha, ns_id(0)).await.ok();
                                    let db = handle_dump(&hb, ns_id(0)).await.ok();
                                    if da.as_ref() != Some(&want) || db.as_ref() != Some(&want) {
                                        obs.transport_bad.push(("complete_session_converges".into(), format!("after a complete session over in-memory pipes: initiator holds {:?} entries, acceptor {:?}, merge has {}", da.map(|d| d.len()), db.map(|d| d.len()), want.len())));
                                    }
                                    // what each side reports as the heads it received: per author
                                    // at least the newest entry that entered from the peer, at most
                                    // the newest entry the peer holds
                                    for (who, out_heads, mine, theirs) in [("initiator", &ao.heads_received, side_entries(0, variant), side_entries(1, variant)), ("acceptor", &bo.heads_received, side_entries(1, variant), side_entries(0, variant))] {
                                        let mine_signed: Vec<_> = mine.iter().map(|s| s.signed()).collect();
                                        let mut entered: std::collections::BTreeMap<[u8; 32], u64> = Default::default();
                                        let mut offered: std::collections::BTreeMap<[u8; 32], u64> = Default::default();
                                        for e in theirs.iter().map(|s| s.signed()) {
                                            let a = e.author().to_bytes();
                                            let t = offered.entry(a).or_insert(0);
                                            *t = (*t).max(e.timestamp());
                                            if want.contains(&e) && !mine_signed.contains(&e) {
                                                let t = entered.entry(a).or_insert(0);
                                                *t = (*t).max(e.timestamp());
                                            }
                                        }
                                        for (a, newest_entered) in &entered {
                                            let reported = out_heads.get(&iroh_docs::AuthorId::from(a));
                                            if reported.map(|r| r < *newest_entered || r > offered[a]).unwrap_or(true) {
                                                obs.transport_bad.push(("outcome_reports_received_heads".into(), format!("the {who} received entries of author {:02x}.. up to timestamp {} (the peer's newest: {}), its session outcome reports the head {:?}", a[0], newest_entered - crate::universe::T0, offered[a] - crate::universe::T0, reported.map(|r| r as i64 - crate::universe::T0 as i64))));
                                            }
                                        }
                                    }
                                }
                            }
                        }
                    }
                }
                (a, b) => {
                    obs.panic = Some(format!(
                        "task join: alice {:?} bob {:?}",
                        a.err().map(|e| e.to_string()),
                        b.err().map(|e| e.to_string())
                    ))
                }
            }
        }
    }
    let _ = ha.shutdown().await;
    let _ = hb.shutdown().await;
    (obs, frames.0, frames.1)
}

/// For C13: a complete, fault-free session between a real initiator (`run_alice`) and a real
/// acceptor (`BobState::run`) over in-memory pipes; returns what is wrong with the heads the two
/// sides report as received.
pub fn received_heads_probe(variant: u8) -> Vec<String> {
    let (obs, _, _) = with_local(scenario_fault(variant, 0, None, DEADLINE * 6));
    let mut out: Vec<String> = obs.transport_bad.iter().filter(|(o, _)| o == "outcome_reports_received_heads").map(|(_, d)| d.clone()).collect();
    if obs.hang || obs.both_ok != Some((true, true)) {
        out.push(format!("MACHINERY: the probe session did not complete ({})", obs.sut_result));
    }
    out
}

/// (D) the exported transport-level entry points over real QUIC on loopback:
/// `connect_and_sync` against `handle_connection`, two real endpoints, two real store actors.
/// `fault`: (side, fault) injected before the session starts.
async fn scenario_transport(variant: u8, accept: Accept, fault: Option<(u8, Fault)>, deadline: Duration) -> Observed {
    use iroh::endpoint::presets;
    use iroh_docs::net::{connect_and_sync, handle_connection, AcceptError, ConnectError};
    let mut obs = Observed::default();
    let ents_a = side_entries(0, variant);
    let ents_b = side_entries(1, variant);
    let ha = spawn_actor(&ents_a);
    let hb = spawn_actor(&ents_b);
    let before_a = handle_dump(&ha, ns_id(0)).await.ok();
    let before_b = handle_dump(&hb, ns_id(0)).await.ok();
    let bind = |seed: u8, accepting: bool| async move {
        let mut b = iroh::Endpoint::builder(presets::Minimal).secret_key(iroh::SecretKey::from_bytes(&[seed; 32]));
        if accepting {
            b = b.alpns(vec![iroh_docs::ALPN.to_vec()]);
        }
        b.bind().await
    };
    let (ep_a, ep_b) = match (bind(0x51, false).await, bind(0x52, true).await) {
        (Ok(a), Ok(b)) => (a, b),
        (a, b) => {
            // machinery, not a verdict
            panic!("MACHINERY: cannot bind loopback endpoints: {:?} {:?}", a.err().map(|e| e.to_string()), b.err().map(|e| e.to_string()));
        }
    };
    let (id_a, id_b) = (ep_a.id(), ep_b.id());
    let addr_b = ep_b.addr();
    if let Some((side, f)) = fault {
        inject(if side == 0 { &ha } else { &hb }, f).await;
    }
    let hb2 = hb.clone();
    let ep_b2 = ep_b.clone();
    let asked = std::sync::Arc::new(std::sync::atomic::AtomicBool::new(false));
    let asked2 = asked.clone();
    let bob = tokio::task::spawn_local(async move {
        let incoming = ep_b2.accept().await.ok_or_else(|| "endpoint closed".to_string())?;
        let conn = incoming.accept().map_err(|e| e.to_string())?.await.map_err(|e| e.to_string())?;
        let cb = move |_ns: NamespaceId, _peer: iroh::PublicKey| {
            asked2.store(true, std::sync::atomic::Ordering::SeqCst);
            async move { accept.outcome() }
        };
        Ok::<_, String>(handle_connection(hb2, conn, cb, None).await)
    });
    let ha2 = ha.clone();
    let ep_a2 = ep_a.clone();
    let alice = tokio::task::spawn_local(async move { connect_and_sync(&ep_a2, &ha2, ns_id(0), addr_b, None).await });
    let joined = tokio::time::timeout(deadline, async { tokio::join!(alice, bob) }).await;
    let mut bad: Vec<(String, String)> = vec![];
    match joined {
        Err(_) => obs.hang = true,
        Ok((Ok(ar), Ok(Ok(br)))) => {
            let show_a = match &ar {
                Ok(_) => "Ok".to_string(),
                Err(e) => format!("Err({})", short(&format!("{e:?}"))),
            };
            let show_b = match &br {
                Ok(_) => "Ok".to_string(),
                Err(e) => format!("Err({})", short(&format!("{e:?}"))),
            };
            obs.sut_result = format!("alice={show_a} bob={show_b}");
            obs.both_ok = Some((ar.is_ok(), br.is_ok()));
            obs.into_outcome = "ok".into();
            let was_asked = asked.load(std::sync::atomic::Ordering::SeqCst);
            // the acceptor can always report which session ended (peer and, once the request
            // was seen, the document), or the live actor can never free the slot
            if let Err(e) = &br {
                if e.peer() != Some(id_a) || (was_asked && e.namespace() != Some(ns_id(0))) {
                    bad.push(("acceptor_error_names_peer_and_document".into(), format!("acceptor error {show_b}: peer()={:?} namespace()={:?} (callback asked: {was_asked})", e.peer().map(|p| p.fmt_short().to_string()), e.namespace().map(|n| n.fmt_short()))));
                }
            }
            match (accept, fault) {
                (Accept::Allow, None) => {
                    match (&ar, &br) {
                        (Ok(a), Ok(b)) => {
                            if a.namespace != ns_id(0) || b.namespace != ns_id(0) || a.peer != id_b || b.peer != id_a {
                                bad.push(("finished_session_names_peer_and_document".into(), format!("initiator reports ({}, {}), acceptor reports ({}, {})", a.namespace.fmt_short(), a.peer.fmt_short(), b.namespace.fmt_short(), b.peer.fmt_short())));
                            }
                            obs.counters_mirror = Some(a.outcome.num_sent == b.outcome.num_recv && a.outcome.num_recv == b.outcome.num_sent);
                            // both hold the merge of both sides
                            let mut all = ents_a.clone();
                            all.extend(ents_b.iter().cloned());
                            let signed: Vec<_> = all.iter().map(|s| s.signed()).collect();
                            let want = crate::refmodel::ModelReplica::spec(&signed).dump();
                            let da = handle_dump(&ha, ns_id(0)).await.ok();
                            let db = handle_dump(&hb, ns_id(0)).await.ok();
                            if da.as_ref() != Some(&want) || db.as_ref() != Some(&want) {
                                bad.push(("complete_session_converges".into(), format!("after a complete session over the transport: initiator holds {:?} entries, acceptor {:?}, merge has {}", da.map(|d| d.len()), db.map(|d| d.len()), want.len())));
                            }
                        }
                        _ => bad.push(("healthy_session_succeeds".into(), format!("no fault, request allowed, but {}", obs.sut_result))),
                    }
                }
                (Accept::Allow, Some((side, f))) => {
                    let ok = if side == 0 { ar.is_ok() } else { br.is_ok() };
                    if ok {
                        bad.push(("local_fault_stops_the_session".into(), format!("side {side} reported success although {f:?} was applied to its document before the session ({})", obs.sut_result)));
                    }
                }
                (rej, _) => {
                    let reason = match rej.outcome() {
                        AcceptOutcome::Reject(r) => r,
                        AcceptOutcome::Allow => unreachable!(),
                    };
                    // a fault at the initiator may make it fail before it ever sends the request
                    let initiator_faulted = matches!(fault, Some((0, _)));
                    let a_ok = matches!(&ar, Err(ConnectError::RemoteAbort(r)) if *r == reason);
                    let b_ok = matches!(&br, Err(AcceptError::Abort { reason: r, .. }) if *r == reason);
                    if !initiator_faulted && (!a_ok || !b_ok) {
                        bad.push(("declined_request_is_reported_as_declined".into(), format!("request declined with {reason:?}: {}", obs.sut_result)));
                    }
                    if was_asked {
                        let da = handle_dump(&ha, ns_id(0)).await.ok();
                        let db = handle_dump(&hb, ns_id(0)).await.ok();
                        let faulted = |side: u8| matches!(fault, Some((s, _)) if s == side);
                        if (!faulted(1) && db != before_b) || (!faulted(0) && da != before_a) {
                            obs.store_changed_on_reject = true;
                        }
                    }
                }
            }
        }
        Ok((a, b)) => {
            obs.panic = Some(format!(
                "task join: alice {:?} bob {:?}",
                a.err().map(|e| e.to_string()),
                b.map(|r| r.err()).map_err(|e| e.to_string())
            ))
        }
    }
    // the store actors survive (unless shut down on purpose)
    for (side, h) in [(0u8, &ha), (1u8, &hb)] {
        // (a side whose document was closed or whose actor was stopped on purpose cannot be asked)
        if !matches!(fault, Some((s, Fault::Shutdown | Fault::CloseDoc)) if s == side) && !obs.hang && !actor_alive(h).await {
            obs.actor_dead = true;
        }
    }
    obs.transport_bad = bad;
    ep_a.close().await;
    ep_b.close().await;
    let _ = ha.shutdown().await;
    let _ = hb.shutdown().await;
    obs
}

/// (E) a hostile peer on real QUIC against the exported entry points.
/// `acceptor_under_test`: the real `handle_connection` faces a scripted initiator (else the real
/// `connect_and_sync` faces a scripted acceptor). `script`:
///   0 close the connection without opening / accepting a stream
///   1 open the stream (the initiator writes one byte so that the stream exists), then close the connection
///   2 send the correct first frame, then close the connection abruptly
///   3 send a garbage frame (valid length prefix), finish, read to the end
///   4 send the correct first frame, finish the send side, read to the end (no further frames)
///   5 (initiator only) ask for a document the acceptor does not have, finish, read to the end
///   5 (acceptor only) answer the request with Abort(AlreadySyncing), finish
async fn scenario_hostile(acceptor_under_test: bool, script: u8, variant: u8, deadline: Duration) -> Observed {
    use iroh::endpoint::presets;
    use iroh_docs::net::{connect_and_sync, handle_connection};
    let mut obs = Observed::default();
    let handle = spawn_actor(&side_entries(if acceptor_under_test { 1 } else { 0 }, variant));
    let before = handle_dump(&handle, ns_id(0)).await.ok();
    let bind = |seed: u8, accepting: bool| async move {
        let mut b = iroh::Endpoint::builder(presets::Minimal).secret_key(iroh::SecretKey::from_bytes(&[seed; 32]));
        if accepting {
            b = b.alpns(vec![iroh_docs::ALPN.to_vec()]);
        }
        b.bind().await
    };
    let (ep_a, ep_b) = match (bind(0x53, false).await, bind(0x54, true).await) {
        (Ok(a), Ok(b)) => (a, b),
        (a, b) => panic!("MACHINERY: cannot bind loopback endpoints: {:?} {:?}", a.err().map(|e| e.to_string()), b.err().map(|e| e.to_string())),
    };
    let id_a = ep_a.id();
    let addr_b = ep_b.addr();
    let mut peer = Scripted::new(&side_entries(if acceptor_under_test { 0 } else { 1 }, variant), acceptor_under_test);
    let mut bad: Vec<(String, String)> = vec![];
    let garbage = || {
        let mut g = (12u32).to_be_bytes().to_vec();
        g.extend_from_slice(&[0xEE; 12]);
        g
    };
    if acceptor_under_test {
        let h2 = handle.clone();
        let ep_b2 = ep_b.clone();
        let sut = tokio::task::spawn_local(async move {
            let incoming = ep_b2.accept().await.ok_or_else(|| "endpoint closed".to_string())?;
            let conn = incoming.accept().map_err(|e| e.to_string())?.await.map_err(|e| e.to_string())?;
            let cb = move |ns: NamespaceId, _peer: iroh::PublicKey| async move {
                if ns == ns_id(0) { AcceptOutcome::Allow } else { AcceptOutcome::Reject(AbortReason::NotFound) }
            };
            Ok::<_, String>(handle_connection(h2, conn, cb, None).await)
        });
        let hostile = tokio::task::spawn_local(async move {
            let conn = match ep_a.connect(addr_b, iroh_docs::ALPN).await {
                Ok(c) => c,
                Err(e) => return format!("connect failed: {e}"),
            };
            if script == 0 {
                conn.close(0u32.into(), b"bye");
                // give the close frame a moment to leave
                tokio::time::sleep(Duration::from_millis(50)).await;
                ep_a.close().await;
                return "closed".into();
            }
            let Ok((mut send, mut recv)) = conn.open_bi().await else { return "open_bi failed".into() };
            match script {
                1 => {
                    let _ = send.write_all(&[0u8]).await;
                    conn.close(0u32.into(), b"bye");
                }
                2 => {
                    let f = peer.next_correct_frame().expect("first frame");
                    let _ = send.write_all(&f).await;
                    tokio::time::sleep(Duration::from_millis(20)).await;
                    conn.close(0u32.into(), b"bye");
                }
                3 => {
                    let _ = send.write_all(&garbage()).await;
                    let _ = send.finish();
                    let _ = recv.read_to_end(1 << 20).await;
                }
                4 => {
                    let f = peer.next_correct_frame().expect("first frame");
                    let _ = send.write_all(&f).await;
                    let _ = send.finish();
                    let _ = recv.read_to_end(1 << 20).await;
                }
                6 => {
                    // a complete, correct exchange — and then one byte too many while the
                    // acceptor is closing the session (its closing step fails, not the exchange)
                    let mut trailing = false;
                    while let Some(f) = peer.next_correct_frame() {
                        if send.write_all(&f).await.is_err() {
                            break;
                        }
                        let reply = tokio::time::timeout(Duration::from_millis(400), async {
                            let mut len = [0u8; 4];
                            recv.read_exact(&mut len).await.ok()?;
                            let mut buf = vec![0u8; u32::from_be_bytes(len) as usize];
                            recv.read_exact(&mut buf).await.ok()?;
                            let mut b = BytesMut::new();
                            b.extend_from_slice(&len);
                            b.extend_from_slice(&buf);
                            verif_codec::decode(&mut b).ok().flatten()
                        })
                        .await;
                        match reply {
                            Ok(Some(frame)) => peer.absorb(Some(frame)),
                            _ => {
                                // no reply: the acceptor has answered its last message and is closing
                                let _ = send.write_all(&[0xEE]).await;
                                trailing = true;
                                break;
                            }
                        }
                    }
                    let _ = send.finish();
                    let _ = recv.read_to_end(1 << 20).await;
                    tokio::time::sleep(Duration::from_millis(50)).await;
                    ep_a.close().await;
                    return if trailing { "trailing".into() } else { "done".into() };
                }
                _ => {
                    let msg = peer.sut.sync_initial(ns_id(0)).expect("initial");
                    let f = encode(Frame::Init { namespace: ns_id(1), message: msg });
                    let _ = send.write_all(&f).await;
                    let _ = send.finish();
                    let _ = recv.read_to_end(1 << 20).await;
                }
            }
            tokio::time::sleep(Duration::from_millis(50)).await;
            ep_a.close().await;
            "done".into()
        });
        match tokio::time::timeout(deadline, async { tokio::join!(sut, hostile) }).await {
            Err(_) => obs.hang = true,
            Ok((Ok(Ok(res)), hostile_did)) => {
                let trailing = matches!(&hostile_did, Ok(s) if s == "trailing");
                if script == 6 {
                    // (evidence: how the closing-step scenarios ended)
                    if let Err(e) = &res {
                        if matches!(e, iroh_docs::net::AcceptError::Close { .. }) {
                            obs.close_failure_seen = true;
                        }
                        // the request was allowed, the exchange ran: whatever fails afterwards, the
                        // acceptor can say which session (peer and document) it is reporting on
                        if e.namespace() != Some(ns_id(0)) {
                            bad.push(("acceptor_error_names_peer_and_document".into(), format!("the request was allowed and the exchange ran; the acceptor then reports {:?} with namespace()={:?}: the session cannot be attributed", short(&format!("{e:?}")), e.namespace().map(|n| n.fmt_short().to_string()))));
                        }
                    } else if trailing {
                        bad.push(("hostile_peer_is_an_error".into(), "the acceptor reported success although the peer sent a byte after the end of the session".into()));
                    }
                }
                obs.into_outcome = "ok".into();
                obs.sut_result = match &res {
                    Ok(_) => "Ok".into(),
                    Err(e) => format!("Err({})", short(&format!("{e:?}"))),
                };
                match &res {
                    Ok(f) => {
                        // only script 4 can end well: the peer sent a correct request and then nothing
                        // (and script 6 when the last message of the exchange was the acceptor's)
                        if script != 4 && script != 6 {
                            bad.push(("hostile_peer_is_an_error".into(), format!("the acceptor reported success ({} sent, {} received) although the peer misbehaved (script {script})", f.outcome.num_sent, f.outcome.num_recv)));
                        }
                    }
                    Err(e) => {
                        if e.peer() != Some(id_a) {
                            bad.push(("acceptor_error_names_peer_and_document".into(), format!("acceptor error {}: peer()={:?}", obs.sut_result, e.peer().map(|p| p.fmt_short().to_string()))));
                        }
                        if script == 5 && !matches!(e, iroh_docs::net::AcceptError::Abort { reason: AbortReason::NotFound, .. }) {
                            bad.push(("declined_request_is_reported_as_declined".into(), format!("request for an unknown document: {}", obs.sut_result)));
                        }
                    }
                }
            }
            Ok((a, _)) => obs.panic = Some(format!("task join: {:?}", a.map(|r| r.map(|_| ())).map_err(|e| e.to_string()))),
        }
        ep_b.close().await;
    } else {
        let h2 = handle.clone();
        let ep_a2 = ep_a.clone();
        let sut = tokio::task::spawn_local(async move { connect_and_sync(&ep_a2, &h2, ns_id(0), addr_b, None).await });
        let ep_b2 = ep_b.clone();
        let hostile = tokio::task::spawn_local(async move {
            let Some(incoming) = ep_b2.accept().await else { return "no incoming".to_string() };
            let Ok(accepting) = incoming.accept() else { return "accept failed".to_string() };
            let Ok(conn) = accepting.await else { return "handshake failed".to_string() };
            if script == 0 {
                conn.close(0u32.into(), b"bye");
                tokio::time::sleep(Duration::from_millis(50)).await;
                return "closed".into();
            }
            let Ok((mut send, mut recv)) = conn.accept_bi().await else { return "accept_bi failed".into() };
            // read the request frame
            let mut len = [0u8; 4];
            if recv.read_exact(&mut len).await.is_err() {
                return "no request".into();
            }
            let mut buf = vec![0u8; u32::from_be_bytes(len) as usize];
            if recv.read_exact(&mut buf).await.is_err() {
                return "short request".into();
            }
            let mut b = BytesMut::new();
            b.extend_from_slice(&len);
            b.extend_from_slice(&buf);
            let frame = verif_codec::decode(&mut b).ok().flatten();
            match script {
                1 => conn.close(0u32.into(), b"bye"),
                2 => {
                    peer.absorb(frame);
                    if let Some(f) = peer.next_correct_frame() {
                        let _ = send.write_all(&f).await;
                    }
                    tokio::time::sleep(Duration::from_millis(20)).await;
                    conn.close(0u32.into(), b"bye");
                }
                3 => {
                    let _ = send.write_all(&garbage()).await;
                    let _ = send.finish();
                    let _ = recv.read_to_end(1 << 20).await;
                }
                4 => {
                    peer.absorb(frame);
                    if let Some(f) = peer.next_correct_frame() {
                        let _ = send.write_all(&f).await;
                    }
                    let _ = send.finish();
                    let _ = recv.read_to_end(1 << 20).await;
                }
                _ => {
                    let _ = send.write_all(&encode(Frame::Abort { reason: AbortReason::AlreadySyncing })).await;
                    let _ = send.finish();
                    let _ = recv.read_to_end(1 << 20).await;
                }
            }
            tokio::time::sleep(Duration::from_millis(50)).await;
            "done".into()
        });
        match tokio::time::timeout(deadline, async { tokio::join!(sut, hostile) }).await {
            Err(_) => obs.hang = true,
            Ok((Ok(res), _)) => {
                obs.into_outcome = "ok".into();
                obs.sut_result = match &res {
                    Ok(_) => "Ok".into(),
                    Err(e) => format!("Err({})", short(&format!("{e:?}"))),
                };
                match (&res, script) {
                    (Ok(f), 0 | 1 | 3 | 5) => bad.push(("hostile_peer_is_an_error".into(), format!("the initiator reported success ({} sent, {} received) although the peer misbehaved (script {script})", f.outcome.num_sent, f.outcome.num_recv))),
                    (Err(e), 5) if !matches!(e, iroh_docs::net::ConnectError::RemoteAbort(AbortReason::AlreadySyncing)) => {
                        bad.push(("declined_request_is_reported_as_declined".into(), format!("peer answered Abort(AlreadySyncing): {}", obs.sut_result)));
                    }
                    _ => {}
                }
            }
            Ok((a, _)) => obs.panic = Some(format!("task join: {:?}", a.map(|r| r.map(|_| ())).map_err(|e| e.to_string()))),
        }
        ep_a.close().await;
        ep_b.close().await;
    }
    // a peer that sent no valid entries leaves the store as it was (scripts without a complete
    // exchange of entries: all but 2, 4 and 6)
    if !matches!(script, 2 | 4 | 6) && !obs.hang {
        let after = handle_dump(&handle, ns_id(0)).await.ok();
        if after != before {
            obs.store_changed_on_reject = true;
        }
    }
    if !obs.hang && !actor_alive(&handle).await {
        obs.actor_dead = true;
    }
    obs.transport_bad = bad;
    let _ = handle.shutdown().await;
    obs
}

fn short(s: &str) -> String {
    // keep the error variant and the innermost message, drop ids
    let s: String = s.chars().filter(|c| !c.is_ascii_digit()).collect();
    s.chars().take(90).collect()
}

fn with_local<F: std::future::Future>(f: F) -> F::Output {
    let rt = tokio::runtime::Builder::new_current_thread()
        .enable_all()
        .build()
        .expect("rt");
    let local = tokio::task::LocalSet::new();
    local.block_on(&rt, f)
}

fn judge(obs: &Observed, what: &str) -> Vec<(&'static str, Value, String)> {
    let mut bad = vec![];
    if obs.hang {
        bad.push(("returns_within_deadline", json!({}), format!("{what}: no result within the deadline (also after the 10x re-run)")));
    }
    if let Some(p) = &obs.panic {
        let which = if p.starts_with("into_outcome") { "into_outcome_callable" } else { "no_panic" };
        bad.push((which, json!({"after_result": short(&obs.sut_result).split('(').next().unwrap_or("").to_string()}), format!("{what}: {p} (result {})", obs.sut_result)));
    }
    if obs.accepted_session_without_namespace {
        bad.push(("acceptor_can_report_outcome_of_accepted_session", json!({}), format!("{what}: the request was accepted, but afterwards the acceptor cannot name the document of the session (result {}), so the session can never be reported as finished", obs.sut_result)));
    }
    if obs.store_changed_on_reject {
        bad.push(("declined_request_changes_nothing", json!({}), format!("{what}: the acceptor's store changed although the request was declined")));
    }
    if obs.actor_dead {
        bad.push(("store_actor_survives_the_session", json!({}), format!("{what}: the session returned ({}), but afterwards the store actor no longer answers (its thread died while processing a frame of the peer)", obs.sut_result)));
    }
    for (o, d) in &obs.transport_bad {
        if o == "outcome_reports_received_heads" {
            // C13's clause (what a node reports as received heads), probed from there
            continue;
        }
        let name: &'static str = match o.as_str() {
            "acceptor_error_names_peer_and_document" => "acceptor_error_names_peer_and_document",
            "finished_session_names_peer_and_document" => "finished_session_names_peer_and_document",
            "complete_session_converges" => "complete_session_converges",
            "healthy_session_succeeds" => "healthy_session_succeeds",
            "local_fault_stops_the_session" => "local_fault_stops_the_session",
            "hostile_peer_is_an_error" => "hostile_peer_is_an_error",
            _ => "declined_request_is_reported_as_declined",
        };
        bad.push((name, json!({"transport": true}), format!("{what}: {d}")));
    }
    if obs.counters_mirror == Some(false) {
        bad.push(("counters_mirror_on_success", json!({}), format!("{what}: sent/received counters do not mirror")));
    }
    bad
}

/// A local fault before a frame that the faulted side has to process must make that side fail:
/// a closed document, disabled sync or a stopped actor cannot take part in reconciliation.
fn judge_fault(case: &Case, obs: &Observed, what: &str) -> Vec<(&'static str, Value, String)> {
    let mut bad = vec![];
    if let Case::Fault { side, fault: Some((_, f)), must_fail: true, .. } = case {
        if let Some((a_ok, b_ok)) = obs.both_ok {
            let ok = if *side == 0 { a_ok } else { b_ok };
            if ok {
                bad.push((
                    "local_fault_stops_the_session",
                    json!({"fault": format!("{f:?}"), "side": side}),
                    format!("{what}: the {} reported success although its document was {} before a message it had to process ({})", if *side == 0 { "initiator" } else { "acceptor" }, match f { Fault::CloseDoc => "closed", Fault::DisableSync => "taken out of sync", Fault::Shutdown => "shut down (actor)", Fault::CutInside => "cut off by a stream that ended inside the frame" }, obs.sut_result),
                ));
            }
        }
    }
    bad
}

#[derive(Debug, Clone, Serialize, Deserialize)]
enum Case {
    Bob {
        script: Vec<Choice>,
        accept: Accept,
        variant: u8,
        /// the scripted peer keeps its stream open after its last frame
        #[serde(default)]
        hold: bool,
    },
    Alice {
        script: Vec<Choice>,
        variant: u8,
        #[serde(default)]
        hold: bool,
    },
    Fault {
        variant: u8,
        side: u8,
        fault: Option<(usize, Fault)>,
        /// the fault falls before a frame that side really has to process: the gate in the store
        /// actor must make that side fail
        #[serde(default)]
        must_fail: bool,
    },
    /// (F) the actor is stopped while a request of the session is queued behind the stop
    StopQueued {
        initiator_under_test: bool,
    },
    /// (D) connect_and_sync against handle_connection over real QUIC on loopback
    Transport {
        variant: u8,
        accept: Accept,
        /// (side, fault) applied before the session starts
        fault: Option<(u8, Fault)>,
    },
    /// (E) a scripted hostile peer over real QUIC against handle_connection / connect_and_sync
    Hostile {
        acceptor_under_test: bool,
        script: u8,
        variant: u8,
    },
}

fn run_case(case: &Case) -> (Observed, String) {
    let go = |deadline: Duration| -> Observed {
        with_local(async {
            match case {
                Case::Bob { script, accept, variant, hold } => scenario_bob(script, *accept, *variant, *hold, deadline).await,
                Case::Alice { script, variant, hold } => scenario_alice(script, *variant, *hold, deadline).await,
                Case::Fault { variant, side, fault, .. } => scenario_fault(*variant, *side, *fault, deadline).await.0,
                Case::StopQueued { initiator_under_test } => scenario_stop_queued(*initiator_under_test, deadline).await,
                Case::Transport { variant, accept, fault } => scenario_transport(*variant, *accept, *fault, deadline * 2).await,
                Case::Hostile { acceptor_under_test, script, variant } => scenario_hostile(*acceptor_under_test, *script, *variant, deadline * 2).await,
            }
        })
    };
    let mut obs = go(DEADLINE);
    if obs.hang {
        obs = go(DEADLINE * 10);
    }
    (obs, format!("{case:?}"))
}

fn one(report: &mut Report, case: Case, nontrivial: bool, ordinal: u64) {
    report.evaluations += 1;
    if nontrivial {
        report.nontrivial += 1;
    }
    let cj = serde_json::to_value(&case).unwrap();
    // a scenario that hangs is re-run with a 50 s deadline before it is reported as a hang
    let _watch = crate::util::watch::enter_secs("session scenario", cj.clone(), 300);
    match catch(|| run_case(&case)) {
        Err(p) => report.violation("no_panic", json!({"where": "harness thread"}), cj, format!("panic: {p}"), ordinal),
        Ok((obs, what)) => {
            report.outcome(format!("{}|{}", obs.sut_result, obs.into_outcome));
            if obs.counters_mirror.is_some() {
                report.count("complete_sessions_with_mirrored_counters_checked", 1);
            }
            if obs.close_failure_seen {
                report.count("acceptor_closing_step_failures_observed", 1);
            }
            for (o, w, d) in judge(&obs, &what) {
                report.violation(o, w, cj.clone(), d, ordinal);
            }
            for (o, w, d) in judge_fault(&case, &obs, &what) {
                report.violation(o, w, cj.clone(), d, ordinal);
            }
            if nontrivial {
                report.sample(|| json!({"case": cj, "result": obs.sut_result, "into_outcome": obs.into_outcome}));
            }
        }
    }
}

fn run(ctx: &Ctx, report: &mut Report) {
    crate::util::silence_panics();
    super::live::run_decline_family(ctx, report, "C10");
    let mut ordinal = 0u64;
    let depth = if ctx.quick() { 4 } else { 5 };
    // (A)
    for d in 1..=depth {
        for_each_sequence(ALICE_MENU.len(), d, |seq| {
            let script: Vec<Choice> = seq.iter().map(|&i| ALICE_MENU[i]).collect();
            let accepts: &[Accept] = if matches!(script[0], Choice::Correct | Choice::InitWithEntries) {
                &[Accept::Allow, Accept::NotFound, Accept::AlreadySyncing, Accept::Internal]
            } else {
                &[Accept::Allow]
            };
            for &accept in accepts {
                ordinal += 1;
                if !ctx.mine(ordinal) {
                    continue;
                }
                let nt = script.iter().any(|c| *c != Choice::Correct) || accept != Accept::Allow;
                one(report, Case::Bob { script: script.clone(), accept, variant: (ordinal % 4) as u8, hold: false }, nt, ordinal);
                // the same script against a peer that keeps its stream open afterwards, wherever
                // the acceptor has to end the session on its own: after a decline, or after a
                // last frame that is an error for it
                let last = *script.last().unwrap();
                let ends_by_itself = accept != Accept::Allow
                    || matches!(last, Choice::Garbage | Choice::ShortIds | Choice::Oversized | Choice::AbortNotFound | Choice::AbortAlreadySyncing | Choice::AbortInternal)
                    || (last == Choice::Init && script.len() >= 2 && script[..script.len() - 1].contains(&Choice::Correct))
                    || (last == Choice::SyncNow && !script.contains(&Choice::Correct) && !script.contains(&Choice::Init) && !script.contains(&Choice::InitWithEntries));
                if ends_by_itself && script.len() <= 2 {
                    one(report, Case::Bob { script: script.clone(), accept, variant: (ordinal % 4) as u8, hold: true }, true, ordinal);
                }
            }
        });
    }
    // all-correct long scripts so that complete sessions are covered too
    for variant in 0..4u8 {
        ordinal += 1;
        if ctx.mine(ordinal) {
            one(report, Case::Bob { script: vec![Choice::Correct; 12], accept: Accept::Allow, variant, hold: false }, false, ordinal);
        }
        ordinal += 1;
        if ctx.mine(ordinal) {
            one(report, Case::Alice { script: vec![Choice::Correct; 12], variant, hold: false }, false, ordinal);
        }
    }
    // (B)
    for d in 1..=depth {
        for_each_sequence(BOB_MENU.len(), d, |seq| {
            ordinal += 1;
            if !ctx.mine(ordinal) {
                return;
            }
            let script: Vec<Choice> = seq.iter().map(|&i| BOB_MENU[i]).collect();
            let nt = script.iter().any(|c| *c != Choice::Correct);
            let last = *script.last().unwrap();
            let ends_by_itself = matches!(last, Choice::Garbage | Choice::ShortIds | Choice::Oversized | Choice::AbortNotFound | Choice::AbortAlreadySyncing | Choice::AbortInternal | Choice::Init);
            one(report, Case::Alice { script: script.clone(), variant: (ordinal % 4) as u8, hold: false }, nt, ordinal);
            if ends_by_itself && script.len() <= 2 {
                one(report, Case::Alice { script, variant: (ordinal % 4) as u8, hold: true }, true, ordinal);
            }
        });
    }
    // (C): the number of frames per direction is measured on the fault-free run
    let variants: Vec<u8> = if ctx.quick() { vec![0, 3] } else { vec![0, 1, 2, 3] };
    for variant in variants {
        let (_, to_bob, to_alice) = with_local(scenario_fault(variant, 0, None, DEADLINE));
        report.maximum("frames_in_a_fault_free_session", (to_bob + to_alice) as u64);
        ordinal += 1;
        if ctx.mine(ordinal) {
            one(report, Case::Fault { variant, side: 0, fault: None, must_fail: false }, false, ordinal);
        }
        for side in [0u8, 1] {
            let frames = if side == 0 { to_alice } else { to_bob };
            let mut ks: Vec<usize> = (0..=frames).collect();
            if side == 0 {
                ks.push(usize::MAX);
            }
            for k in ks {
                for fault in [Fault::CloseDoc, Fault::DisableSync, Fault::Shutdown, Fault::CutInside] {
                    if fault == Fault::CutInside && (k == usize::MAX || k >= frames) {
                        continue;
                    }
                    ordinal += 1;
                    if !ctx.mine(ordinal) {
                        continue;
                    }
                    let must_fail = k == usize::MAX || k < frames;
                    one(report, Case::Fault { variant, side, fault: Some((k, fault)), must_fail }, true, ordinal);
                }
            }
        }
    }
    // big sets: a fault-free session over pipes smaller than one frame, one over real QUIC, and a
    // fault at the first and in the middle of the frames of either side
    {
        ordinal += 1;
        if ctx.mine(ordinal) {
            report.count("big_set_sessions", 1);
            one(report, Case::Fault { variant: 4, side: 0, fault: None, must_fail: false }, true, ordinal);
        }
        ordinal += 1;
        if ctx.mine(ordinal) {
            report.count("big_set_sessions", 1);
            one(report, Case::Transport { variant: 4, accept: Accept::Allow, fault: None }, true, ordinal);
        }
        // frames of more than two megabytes, pushed and pulled
        for side in [0u8, 1] {
            ordinal += 1;
            if ctx.mine(ordinal) {
                report.count("big_frame_sessions", 1);
                one(report, Case::Fault { variant: if side == 0 { 5 } else { 6 }, side: 0, fault: None, must_fail: false }, true, ordinal);
            }
        }
        for side in [0u8, 1] {
            for k in [0usize, 2] {
                for fault in [Fault::CloseDoc, Fault::Shutdown, Fault::CutInside] {
                    ordinal += 1;
                    if ctx.mine(ordinal) {
                        report.count("big_set_sessions", 1);
                        one(report, Case::Fault { variant: 4, side, fault: Some((k, fault)), must_fail: true }, true, ordinal);
                    }
                }
            }
        }
    }
    // (F)
    for initiator_under_test in [true, false] {
        ordinal += 1;
        if ctx.mine(ordinal) {
            report.count("stop_queued_ahead_of_a_session_request", 1);
            one(report, Case::StopQueued { initiator_under_test }, true, ordinal);
        }
    }
    // (D)
    let variants: Vec<u8> = if ctx.quick() { vec![0, 3] } else { vec![0, 1, 2, 3] };
    for variant in variants {
        for accept in [Accept::Allow, Accept::NotFound, Accept::AlreadySyncing, Accept::Internal] {
            let mut faults: Vec<Option<(u8, Fault)>> = vec![None];
            for side in [0u8, 1] {
                for f in [Fault::CloseDoc, Fault::DisableSync, Fault::Shutdown] {
                    faults.push(Some((side, f)));
                }
            }
            for fault in faults {
                ordinal += 1;
                if !ctx.mine(ordinal) {
                    continue;
                }
                report.count("transport_scenarios", 1);
                one(report, Case::Transport { variant, accept, fault }, accept != Accept::Allow || fault.is_some(), ordinal);
            }
        }
    }
    // (E)
    let variants: Vec<u8> = if ctx.quick() { vec![0, 3] } else { vec![0, 1, 2, 3] };
    for variant in variants {
        for acceptor_under_test in [true, false] {
            for script in 0..=6u8 {
                if script == 6 && !acceptor_under_test {
                    continue;
                }
                ordinal += 1;
                if !ctx.mine(ordinal) {
                    continue;
                }
                report.count("hostile_transport_scenarios", 1);
                one(report, Case::Hostile { acceptor_under_test, script, variant }, true, ordinal);
            }
        }
    }
}

fn replay(case: &Value) -> anyhow::Result<(bool, String)> {
    crate::util::silence_panics();
    if let Some(r) = super::live::replay_decline(case, "C10")? {
        return Ok(r);
    }
    let case: Case = serde_json::from_value(case.clone())?;
    match catch(|| run_case(&case)) {
        Err(p) => Ok((true, format!("panic: {p}"))),
        Ok((obs, what)) => {
            let mut bad = judge(&obs, &what);
            bad.extend(judge_fault(&case, &obs, &what));
            let mut out = format!("{what}\nresult={} into_outcome={} hang={}\n", obs.sut_result, obs.into_outcome, obs.hang);
            for (o, _, d) in &bad {
                out.push_str(&format!("FAILED {o}: {d}\n"));
            }
            Ok((!bad.is_empty(), out))
        }
    }
}
